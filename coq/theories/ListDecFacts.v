(** * Facts about [decode_list_of_variable_length_items] ([Codec.decode_list_var]) and
    [Vec<T>::from_ssz_bytes] ([Codec.dec_seq]): C05, C06, C09 (lists), C16. *)
From SSZ Require Import Base BaseFacts Offsets OffsetsFacts Layout Codec.
From Coq Require Import ZArith ZifyN ZifyNat ZifyBool.
Ltac Zify.zify_post_hook ::= Z.div_mod_to_equations.
Open Scope N_scope.

(** What the input announces: the first offset word, when it is a well-formed table size. *)
Definition announced (bs : bytes) (n : N) : Prop :=
  exists first, read_offset bs = Ok first /\ first <= len bs /\ first mod 4 = 0 /\ 4 <= first /\ n = first / 4.

(** ** Small generic helpers *)
Lemma omap_bind {A B} (f : A -> B) (o : outcome A) : omap f o = bind o (fun y => Ok (f y)).
Proof. destruct o; reflexivity. Qed.

Lemma bind_Ok_r {A} (o : outcome A) : bind o (fun x => Ok x) = o.
Proof. destruct o; reflexivity. Qed.

Lemma bind_collect_vec {A} (o : outcome (list A)) : bind o (collect_kind CVec) = o.
Proof. destruct o; reflexivity. Qed.

Lemma firstn_add {A} (a b : nat) (l : list A) :
  firstn (a + b) l = firstn a l ++ firstn b (skipn a l).
Proof.
  revert l; induction a as [|a IH]; intros l; cbn [Nat.add firstn skipn app]; [reflexivity|].
  destruct l as [|x l]; cbn [app].
  - destruct b; reflexivity.
  - f_equal. apply IH.
Qed.

Lemma take_add a b (bs : bytes) : take (a + b) bs = take a bs ++ take b (drop a bs).
Proof. unfold take, drop. rewrite N2Nat.inj_add. apply firstn_add. Qed.

Lemma mapM_no_panic {A B} (f : A -> outcome B) l : (forall x, f x <> Panic) -> mapM f l <> Panic.
Proof.
  intros Hf. induction l as [|x l IH]; cbn [mapM]; [discriminate|].
  specialize (Hf x). destruct (f x); cbn [bind]; try congruence.
  destruct (mapM f l); cbn [bind]; congruence.
Qed.

Lemma len_assemble_fixed_var off (l : list bytes) :
  len (assemble_fixed off (map (fun s => (false, s)) l)) = 4 * N.of_nat (length l).
Proof.
  revert off; induction l as [|s l IH]; intros off; cbn [map assemble_fixed length]; [reflexivity|].
  rewrite len_app, encode_length_len, IH. lia.
Qed.

Lemma var_concat_var (l : list bytes) : var_concat (map (fun s => (false, s)) l) = concat l.
Proof.
  unfold var_concat. induction l as [|s l IH]; cbn [map concat fst snd]; [reflexivity|].
  f_equal. exact IH.
Qed.

Lemma read_offset_take bs v :
  wfb bs -> read_offset bs = Ok v -> take 4 bs = encode_length v /\ v < 4294967296.
Proof.
  intros Hw H. apply read_offset_ok in H as [Hl ->].
  destruct (encode_length_le_val (firstn 4 bs)) as [E B].
  - rewrite firstn_length. unfold len in Hl. lia.
  - apply wfb_firstn; exact Hw.
  - split; [|exact B]. symmetry. exact E.
Qed.

(** ** One step of the item iterator *)
Definition lv_sao (bs : bytes) (first n i offset : N) : outcome (bytes * N) :=
  if i =? n then
    do s <- ok_or (get_from bs offset); Ok (s, offset)
  else
    do rest <- index_from bs (i * BYTES_PER_LENGTH_OFFSET);
    do next <- read_offset rest;
    do off' <- sanitize_offset next (Some offset) (len bs) (Some first);
    do s <- ok_or (get_range bs offset off');
    Ok (s, off').

Lemma lv_items_S {A} (d : bytes -> outcome A) bs first n fuel i offset :
  lv_items d bs first n (S fuel) i offset =
  match lv_sao bs first n i offset with
  | Ok (s, off') =>
      match d s with
      | Ok x => let r := lv_items d bs first n fuel (i + 1) off' in
                (omap (cons x) (fst r), 1 + snd r)
      | Err => (Err, 1)
      | Panic => (Panic, 1)
      end
  | Err => (Err, 0)
  | Panic => (Panic, 0)
  end.
Proof. reflexivity. Qed.

Lemma lv_sao_last bs first n offset :
  offset <= len bs -> lv_sao bs first n n offset = Ok (drop offset bs, offset).
Proof.
  intros H. unfold lv_sao. rewrite N.eqb_refl.
  assert (E : get_from bs offset = Some (drop offset bs)) by (apply get_from_some; auto).
  rewrite E. reflexivity.
Qed.

Lemma lv_sao_mid bs first n i offset next :
  i <> n -> 4 * i <= len bs -> read_offset (drop (4 * i) bs) = Ok next ->
  first <= next -> next <= len bs -> offset <= next ->
  lv_sao bs first n i offset = Ok (take (next - offset) (drop offset bs), next).
Proof.
  intros Hi Hl Hr H1 H2 H3. unfold lv_sao.
  destruct (i =? n) eqn:E; [lia|].
  unfold BYTES_PER_LENGTH_OFFSET, index_from. rewrite (N.mul_comm i 4).
  assert (E1 : get_from bs (4 * i) = Some (drop (4 * i) bs)) by (apply get_from_some; auto).
  rewrite E1. cbn [bind]. rewrite Hr. cbn [bind].
  assert (E2 : sanitize_offset next (Some offset) (len bs) (Some first) = Ok next)
    by (apply sanitize_offset_next; auto).
  rewrite E2. cbn [bind].
  assert (E3 : get_range bs offset next = Some (take (next - offset) (drop offset bs)))
    by (apply get_range_some; auto).
  rewrite E3. reflexivity.
Qed.

Lemma lv_sao_inv bs first n i offset s off' :
  lv_sao bs first n i offset = Ok (s, off') ->
  (i = n /\ off' = offset /\ offset <= len bs /\ s = drop offset bs) \/
  (i <> n /\ 4 * i <= len bs /\ read_offset (drop (4 * i) bs) = Ok off' /\
   first <= off' /\ off' <= len bs /\ offset <= off' /\
   s = take (off' - offset) (drop offset bs)).
Proof.
  unfold lv_sao. destruct (i =? n) eqn:E.
  - destruct (get_from bs offset) as [s'|] eqn:Eg; cbn [ok_or bind]; [|discriminate].
    intros [= <- <-]. apply get_from_some in Eg as [Hl ->]. left. repeat split; auto. lia.
  - unfold BYTES_PER_LENGTH_OFFSET, index_from. rewrite (N.mul_comm i 4).
    destruct (get_from bs (4 * i)) as [rest|] eqn:Eg; cbn [bind]; [|discriminate].
    apply get_from_some in Eg as [Hl ->].
    destruct (read_offset (drop (4 * i) bs)) as [next| |] eqn:Er; cbn [bind]; try discriminate.
    destruct (sanitize_offset next (Some offset) (len bs) (Some first)) as [o| |] eqn:Es;
      cbn [bind]; try discriminate.
    apply sanitize_offset_next in Es as (-> & H1 & H2 & H3).
    destruct (get_range bs offset next) as [s'|] eqn:Egr; cbn [ok_or bind]; [|discriminate].
    intros [= <- <-]. apply get_range_some in Egr as (_ & _ & ->).
    right. repeat split; auto. lia.
Qed.

Lemma lv_sao_no_panic bs first n i offset :
  (i <> n -> 4 * i <= len bs) -> lv_sao bs first n i offset <> Panic.
Proof.
  intros H. unfold lv_sao. destruct (i =? n) eqn:E.
  - destruct (get_from bs offset); cbn [ok_or bind]; discriminate.
  - unfold BYTES_PER_LENGTH_OFFSET, index_from. rewrite (N.mul_comm i 4).
    assert (E1 : get_from bs (4 * i) = Some (drop (4 * i) bs))
      by (apply get_from_some; split; [apply H; lia|reflexivity]).
    rewrite E1. cbn [bind].
    pose proof (read_offset_not_panic (drop (4 * i) bs)) as Hr.
    destruct (read_offset (drop (4 * i) bs)) as [next| |]; cbn [bind]; try congruence.
    pose proof (sanitize_offset_not_panic next (Some offset) (len bs) (Some first)) as Hs.
    destruct (sanitize_offset next (Some offset) (len bs) (Some first)) as [o| |];
      cbn [bind]; try congruence.
    destruct (get_range bs offset o); cbn [ok_or bind]; discriminate.
Qed.

(** ** Properties of the walk that need no tiling *)
Lemma lv_items_no_panic {A} (d : bytes -> outcome A) bs first n :
  (forall s, d s <> Panic) -> 4 * n <= len bs ->
  forall fuel i offset, N.of_nat fuel + i <= n + 1 ->
  fst (lv_items d bs first n fuel i offset) <> Panic.
Proof.
  intros Hd Hn. induction fuel as [|fuel IH]; intros i offset Hf.
  - cbn. discriminate.
  - rewrite lv_items_S.
    pose proof (lv_sao_no_panic bs first n i offset) as Hs.
    destruct (lv_sao bs first n i offset) as [[s off']| |]; cbn [fst].
    + specialize (Hd s). destruct (d s) as [x| |]; cbn [fst]; try congruence.
      specialize (IH (i + 1) off').
      destruct (fst (lv_items d bs first n fuel (i + 1) off')); cbn [omap]; try discriminate.
      apply IH. lia.
    + discriminate.
    + exfalso. apply Hs; [intros; lia|reflexivity].
Qed.

Lemma lv_items_count {A} (d : bytes -> outcome A) bs first n fuel i offset :
  snd (lv_items d bs first n fuel i offset) <= N.of_nat fuel.
Proof.
  revert i offset. induction fuel as [|fuel IH]; intros i offset.
  - cbn. lia.
  - rewrite lv_items_S.
    destruct (lv_sao bs first n i offset) as [[s off']| |]; cbn [snd]; try lia.
    destruct (d s) as [x| |]; cbn [snd]; try lia.
    specialize (IH (i + 1) off'). lia.
Qed.

Lemma lv_items_ok_length {A} (d : bytes -> outcome A) bs first n fuel i offset vs :
  fst (lv_items d bs first n fuel i offset) = Ok vs -> length vs = fuel.
Proof.
  revert i offset vs. induction fuel as [|fuel IH]; intros i offset vs.
  - cbn. intros [= <-]. reflexivity.
  - rewrite lv_items_S.
    destruct (lv_sao bs first n i offset) as [[s off']| |]; cbn [fst]; try discriminate.
    destruct (d s) as [x| |]; cbn [fst]; try discriminate.
    specialize (IH (i + 1) off').
    destruct (fst (lv_items d bs first n fuel (i + 1) off')) as [vs'| |]; cbn [omap]; try discriminate.
    intros [= <-]. cbn [length]. f_equal. apply IH. reflexivity.
Qed.

(** ** Assembled input: the walk hands each item its own bytes *)
Lemma lv_items_assembled {A} (d : bytes -> outcome A) bs first n :
  first = 4 * n ->
  forall todo s i offset pre mid,
  bs = pre ++ assemble_fixed (offset + len s) (map (fun s => (false, s)) todo)
           ++ mid ++ s ++ concat todo ->
  len pre = 4 * i ->
  len pre + 4 * N.of_nat (length todo) + len mid = offset ->
  i + N.of_nat (length todo) = n ->
  offsets_fit (offset + len s) (map (fun s => (false, s)) todo) ->
  fst (lv_items d bs first n (S (length todo)) i offset) = mapM d (s :: todo).
Proof.
  intros Hfirst. induction todo as [|s' todo IH]; intros s i offset pre mid Hbs Hpre Hoff Hi Hfit.
  - cbn [map assemble_fixed concat length app] in *. rewrite app_nil_r in Hbs.
    assert (Ei : i = n) by lia. subst i.
    assert (Hbs' : bs = (pre ++ mid) ++ s) by (rewrite Hbs, app_assoc; reflexivity).
    assert (Hlen : len (pre ++ mid) = offset) by (rewrite len_app; lia).
    rewrite lv_items_S, lv_sao_last.
    2:{ rewrite Hbs', len_app. lia. }
    replace (drop offset bs) with s.
    2:{ rewrite Hbs', <- Hlen. symmetry. apply drop_app_exact. }
    cbn [mapM]. destruct (d s) as [x| |]; reflexivity.
  - cbn [map assemble_fixed concat length] in *. destruct Hfit as [Hlt Hfit].
    set (next := offset + len s) in *.
    set (tbl := assemble_fixed (next + len s') (map (fun s => (false, s)) todo)) in *.
    assert (Htbl : len tbl = 4 * N.of_nat (length todo)) by apply len_assemble_fixed_var.
    assert (Hbs1 : bs = pre ++ encode_length next ++ (tbl ++ mid ++ s ++ s' ++ concat todo)).
    { rewrite Hbs, <- !app_assoc. reflexivity. }
    assert (Hbs2 : bs = (pre ++ encode_length next ++ tbl ++ mid) ++ s ++ (s' ++ concat todo)).
    { rewrite Hbs, <- !app_assoc. reflexivity. }
    assert (Hl2 : len (pre ++ encode_length next ++ tbl ++ mid) = offset).
    { rewrite !len_app, encode_length_len. lia. }
    assert (Hlen : len bs = offset + len s + len (s' ++ concat todo)).
    { rewrite Hbs2 at 1. rewrite len_app, Hl2, len_app. lia. }
    assert (Hdrop : drop (4 * i) bs = encode_length next ++ (tbl ++ mid ++ s ++ s' ++ concat todo)).
    { rewrite Hbs1 at 1. rewrite <- Hpre. apply drop_app_exact. }
    rewrite lv_items_S.
    rewrite (lv_sao_mid bs first n i offset next); try lia.
    2:{ rewrite Hdrop. apply read_offset_encode_length. exact Hlt. }
    replace (take (next - offset) (drop offset bs)) with s.
    2:{ rewrite Hbs2 at 1. rewrite <- Hl2 at 2. rewrite drop_app_exact.
        replace (next - offset) with (len s) by lia. symmetry. apply take_app_exact. }
    cbn [mapM]. destruct (d s) as [x| |]; cbn [bind fst]; try reflexivity.
    rewrite (IH s' (i + 1) next (pre ++ encode_length next) (mid ++ s)).
    + cbn [mapM]. rewrite omap_bind. reflexivity.
    + rewrite Hbs, <- !app_assoc. reflexivity.
    + rewrite len_app, encode_length_len. lia.
    + rewrite !len_app, encode_length_len. lia.
    + lia.
    + exact Hfit.
Qed.

(** ** Successful walk over well-formed bytes: the input is tiled *)
Lemma lv_items_ok_tiles {A} (d : bytes -> outcome A) bs n :
  wfb bs ->
  forall fuel' i offset vs,
  N.of_nat fuel' + i = n -> 1 <= i ->
  read_offset (drop (4 * (i - 1)) bs) = Ok offset ->
  fst (lv_items d bs (4 * n) n (S fuel') i offset) = Ok vs ->
  exists slices, length slices = S fuel' /\ mapM d slices = Ok vs /\
    take (4 * N.of_nat (S fuel')) (drop (4 * (i - 1)) bs)
      = assemble_fixed offset (map (fun s => (false, s)) slices) /\
    drop offset bs = concat slices /\
    offsets_fit offset (map (fun s => (false, s)) slices).
Proof.
  intros Hw. induction fuel' as [|f IH]; intros i offset vs Hf Hi Hro H;
    rewrite lv_items_S in H;
    destruct (lv_sao bs (4 * n) n i offset) as [[s off']| |] eqn:Es; cbn [fst] in H; try discriminate;
    destruct (d s) as [x| |] eqn:Ed; cbn [fst] in H; try discriminate;
    destruct (read_offset_take _ _ (wfb_drop _ _ Hw) Hro) as [Htk Hlt];
    apply lv_sao_inv in Es as [(Ei & -> & Hle & ->) | (Ene & Hl4 & Hr' & H1 & H2 & H3 & ->)];
    try lia.
  - cbn [lv_items fst omap] in H. injection H as <-.
    exists [drop offset bs]. repeat split.
    + cbn [mapM]. rewrite Ed. reflexivity.
    + change (4 * N.of_nat 1) with 4. rewrite Htk. cbn [map assemble_fixed]. rewrite app_nil_r. reflexivity.
    + cbn [concat]. rewrite app_nil_r. reflexivity.
    + exact Hlt.
  - destruct (fst (lv_items d bs (4 * n) n (S f) (i + 1) off')) as [vs'| |] eqn:Er;
      cbn [omap] in H; try discriminate.
    injection H as <-.
    assert (Ei1 : i + 1 - 1 = i) by lia.
    destruct (IH (i + 1) off' vs') as (slices & Hlen & HmapM & Htab & Hcat & Hfit); try lia.
    { rewrite Ei1. exact Hr'. }
    { exact Er. }
    rewrite Ei1 in Htab.
    set (s := take (off' - offset) (drop offset bs)) in *.
    assert (Hls : len s = off' - offset).
    { unfold s. apply len_take. rewrite len_drop. lia. }
    exists (s :: slices). repeat split.
    + cbn [length]. rewrite Hlen. reflexivity.
    + cbn [mapM]. rewrite Ed, HmapM. reflexivity.
    + replace (4 * N.of_nat (S (S f))) with (4 + 4 * N.of_nat (S f)) by lia.
      rewrite take_add, Htk, drop_drop.
      replace (4 * (i - 1) + 4) with (4 * i) by lia.
      rewrite Htab. cbn [map assemble_fixed].
      replace (offset + len s) with off' by lia. reflexivity.
    + cbn [concat]. rewrite <- Hcat.
      rewrite <- (take_drop (off' - offset) (drop offset bs)) at 1.
      fold s. f_equal. rewrite drop_drop. f_equal. lia.
    + exact Hlt.
    + replace (offset + len s) with off' by lia. exact Hfit.
Qed.

(** ** Unfolding [decode_list_var_full] by what the input announces *)
Lemma announced_dec bs : (exists n, announced bs n) \/ (forall n, ~ announced bs n).
Proof.
  destruct (read_offset bs) as [first| |] eqn:Hr.
  2,3: right; intros n (f & Hf & _); congruence.
  destruct (first <=? len bs) eqn:E1.
  2:{ right. intros n (f & Hf & H & _). assert (f = first) by congruence. lia. }
  destruct (first mod 4 =? 0) eqn:E2.
  2:{ right. intros n (f & Hf & _ & H & _). assert (f = first) by congruence. subst f.
      apply N.eqb_neq in E2. congruence. }
  destruct (4 <=? first) eqn:E3.
  2:{ right. intros n (f & Hf & _ & _ & H & _). assert (f = first) by congruence. lia. }
  left. exists (first / 4), first. apply N.eqb_eq in E2. repeat split; auto; lia.
Qed.

Lemma announced_nonempty bs n : announced bs n -> bs <> [].
Proof.
  intros (first & Hr & _) ->. rewrite read_offset_short in Hr; [discriminate|]. cbn. lia.
Qed.

Lemma announced_facts bs n :
  announced bs n -> read_offset bs = Ok (4 * n) /\ 1 <= n /\ 4 * n <= len bs.
Proof.
  intros (first & Hr & Hle & Hm & H4 & ->).
  assert (E : first = 4 * (first / 4)) by lia.
  rewrite <- E. repeat split; auto. lia.
Qed.

Lemma lv_full_nil {A} (d : bytes -> outcome A) c max :
  decode_list_var_full d c [] max = (collect_kind c [], 0, 0).
Proof. reflexivity. Qed.

Lemma lv_full_announced {A} (d : bytes -> outcome A) c bs n max :
  announced bs n ->
  decode_list_var_full d c bs max =
  if is_some_and max (fun m => m <? n) then (Err, 0, 0)
  else match c with
       | CRefusing => (Err, 0, 0)
       | _ => let r := lv_items d bs (4 * n) n (N.to_nat n) 1 (4 * n) in
              (bind (fst r) (collect_kind c), snd r, match c with CVec => n | _ => 0 end)
       end.
Proof.
  intros Ha. pose proof (announced_nonempty _ _ Ha) as Hne.
  destruct Ha as (first & Hr & Hle & Hm & H4 & Hn).
  assert (E : first = 4 * n) by lia.
  unfold decode_list_var_full. destruct bs as [|b bs']; [congruence|].
  rewrite Hr.
  assert (Hs : sanitize_offset first None (len (b :: bs')) (Some first) = Ok first)
    by (apply sanitize_offset_first; split; auto).
  rewrite Hs. unfold BYTES_PER_LENGTH_OFFSET.
  assert (Eb : negb (first mod 4 =? 0) || (first <? 4) = false).
  { apply orb_false_iff. split; [|lia]. apply negb_false_iff, N.eqb_eq. exact Hm. }
  rewrite Eb. rewrite <- Hn, E.
  destruct c; reflexivity.
Qed.

Theorem lv_not_announced {A} (d : bytes -> outcome A) c bs max :
  bs <> [] -> (forall n, ~ announced bs n) -> decode_list_var_full d c bs max = (Err, 0, 0).
Proof.
  intros Hne Hna. unfold decode_list_var_full. destruct bs as [|b bs']; [congruence|].
  destruct (read_offset (b :: bs')) as [first| |] eqn:Hr; [|reflexivity|].
  2:{ exfalso. eapply read_offset_not_panic; eauto. }
  destruct (sanitize_offset first None (len (b :: bs')) (Some first)) as [r| |] eqn:Hs; [|reflexivity|].
  2:{ exfalso. eapply sanitize_offset_not_panic; eauto. }
  apply sanitize_offset_first in Hs as [-> Hle].
  unfold BYTES_PER_LENGTH_OFFSET.
  destruct (negb (first mod 4 =? 0) || (first <? 4)) eqn:E; [reflexivity|].
  exfalso. apply (Hna (first / 4)). exists first.
  apply orb_false_iff in E as [E1 E2]. apply negb_false_iff, N.eqb_eq in E1.
  repeat split; auto. lia.
Qed.

(** ** C09 for lists *)
Lemma decode_list_var_assemble {A} (d : bytes -> outcome A) (slices : list bytes) :
  slices <> [] ->
  offsets_fit (4 * N.of_nat (length slices)) (map (fun s => (false, s)) slices) ->
  decode_list_var d CVec (assemble (4 * N.of_nat (length slices)) (map (fun s => (false, s)) slices)) None
  = mapM d slices.
Proof.
  intros Hne Hfit. destruct slices as [|s todo]; [congruence|]. clear Hne.
  set (n := N.of_nat (length (s :: todo))) in *.
  set (bs := assemble (4 * n) (map (fun s => (false, s)) (s :: todo))).
  assert (Hn : n = 1 + N.of_nat (length todo)) by (unfold n; cbn [length]; lia).
  assert (Hbs : bs = encode_length (4 * n)
                       ++ assemble_fixed (4 * n + len s) (map (fun s => (false, s)) todo)
                       ++ [] ++ s ++ concat todo).
  { unfold bs, assemble. rewrite var_concat_var. cbn [map assemble_fixed concat app].
    rewrite <- app_assoc. reflexivity. }
  cbn [map offsets_fit] in Hfit. destruct Hfit as [Hlt Hfit].
  assert (Ha : announced bs n).
  { exists (4 * n). repeat split; try lia.
    - rewrite Hbs. apply read_offset_encode_length. exact Hlt.
    - rewrite Hbs, !len_app, encode_length_len, len_assemble_fixed_var. lia. }
  unfold decode_list_var. rewrite (lv_full_announced d CVec bs n None Ha).
  cbn [is_some_and fst]. rewrite bind_collect_vec.
  replace (N.to_nat n) with (S (length todo)) by lia.
  rewrite (lv_items_assembled d bs (4 * n) n eq_refl todo s 1 (4 * n) (encode_length (4 * n)) []).
  - reflexivity.
  - exact Hbs.
  - apply encode_length_len.
  - rewrite encode_length_len, len_nil. lia.
  - lia.
  - exact Hfit.
Qed.

Theorem decode_list_var_tiles {A} (d : bytes -> outcome A) bs vs :
  wfb bs ->
  (decode_list_var d CVec bs None = Ok vs <->
   (bs = [] /\ vs = []) \/ (exists slices, TilesList bs slices /\ mapM d slices = Ok vs)).
Proof.
  intros Hw. split.
  - intros H. destruct (list_eq_dec N.eq_dec bs []) as [->|Hne].
    { left. cbn in H. injection H as <-. split; reflexivity. }
    right. unfold decode_list_var in H.
    destruct (announced_dec bs) as [[n Ha]|Hna].
    2:{ rewrite lv_not_announced in H by assumption. discriminate. }
    rewrite (lv_full_announced d CVec bs n None Ha) in H.
    cbn [is_some_and fst] in H. rewrite bind_collect_vec in H.
    destruct (announced_facts _ _ Ha) as (Hr & Hn1 & Hnl).
    destruct (N.to_nat n) as [|fuel'] eqn:En; [lia|].
    destruct (lv_items_ok_tiles d bs n Hw fuel' 1 (4 * n) vs) as (slices & Hlen & HmapM & Htab & Hcat & Hfit);
      try lia.
    { change (4 * (1 - 1)) with 0. rewrite drop_0. exact Hr. }
    { exact H. }
    change (4 * (1 - 1)) with 0 in Htab. rewrite drop_0 in Htab.
    assert (E4 : 4 * N.of_nat (length slices) = 4 * n) by lia.
    exists slices. split; [|exact HmapM].
    unfold TilesList. rewrite E4. repeat split.
    + intros ->. discriminate.
    + exact Hfit.
    + unfold assemble. rewrite var_concat_var, <- Htab, <- Hcat.
      replace (4 * N.of_nat (S fuel')) with (4 * n) by lia.
      symmetry. apply take_drop.
  - intros [[-> ->]|(slices & (Hne & Hfit & ->) & HmapM)].
    + reflexivity.
    + rewrite decode_list_var_assemble by assumption. exact HmapM.
Qed.

(** ** C05 *)
Theorem decode_list_var_no_panic {A} (d : bytes -> outcome A) c bs max :
  (forall s, d s <> Panic) -> decode_list_var d c bs max <> Panic.
Proof.
  intros Hd. unfold decode_list_var.
  destruct (list_eq_dec N.eq_dec bs []) as [->|Hne].
  { rewrite lv_full_nil. cbn [fst]. destruct c; cbn; try discriminate.
    destruct (0 <=? k); discriminate. }
  destruct (announced_dec bs) as [[n Ha]|Hna].
  2:{ rewrite lv_not_announced by assumption. cbn. discriminate. }
  rewrite (lv_full_announced d c bs n max Ha).
  destruct (announced_facts _ _ Ha) as (Hr & Hn1 & Hnl).
  destruct (is_some_and max (fun m => m <? n)); [cbn; discriminate|].
  pose proof (lv_items_no_panic d bs (4 * n) n Hd Hnl (N.to_nat n) 1 (4 * n)) as Hp.
  destruct c; cbn [fst]; try discriminate.
  - destruct (fst (lv_items d bs (4 * n) n (N.to_nat n) 1 (4 * n))); cbn; try discriminate.
    apply Hp. lia.
  - destruct (fst (lv_items d bs (4 * n) n (N.to_nat n) 1 (4 * n))); cbn; try discriminate.
    + destruct (N.of_nat (length a) <=? k); discriminate.
    + apply Hp. lia.
Qed.

(** ** C16 *)
Theorem lv_over_limit {A} (d : bytes -> outcome A) c bs n max :
  announced bs n -> max < n -> decode_list_var_full d c bs (Some max) = (Err, 0, 0).
Proof.
  intros Ha Hm. rewrite (lv_full_announced d c bs n (Some max) Ha). cbn [is_some_and].
  destruct (max <? n) eqn:E; [reflexivity|lia].
Qed.

Theorem lv_within_limit {A} (d : bytes -> outcome A) c bs n max :
  announced bs n -> n <= max -> decode_list_var_full d c bs (Some max) = decode_list_var_full d c bs None.
Proof.
  intros Ha Hm. rewrite !(lv_full_announced d c bs n _ Ha). cbn [is_some_and].
  destruct (max <? n) eqn:E; [lia|reflexivity].
Qed.

Theorem lv_empty {A} (d : bytes -> outcome A) c max : decode_list_var d c [] max = collect_kind c [].
Proof. reflexivity. Qed.

Theorem lv_refusing {A} (d : bytes -> outcome A) bs max : decode_list_var d CRefusing bs max = Err.
Proof.
  unfold decode_list_var.
  destruct (list_eq_dec N.eq_dec bs []) as [->|Hne]; [reflexivity|].
  destruct (announced_dec bs) as [[n Ha]|Hna].
  - rewrite (lv_full_announced d CRefusing bs n max Ha).
    destruct (is_some_and max (fun m => m <? n)); reflexivity.
  - rewrite lv_not_announced by assumption. reflexivity.
Qed.

Theorem lv_bounded {A} (d : bytes -> outcome A) k bs max :
  decode_list_var d (CBounded k) bs max =
  match decode_list_var d CVec bs max with
  | Ok vs => if N.of_nat (length vs) <=? k then Ok vs else Err
  | r => r
  end.
Proof.
  unfold decode_list_var.
  destruct (list_eq_dec N.eq_dec bs []) as [->|Hne]; [reflexivity|].
  destruct (announced_dec bs) as [[n Ha]|Hna].
  - rewrite !(lv_full_announced d _ bs n max Ha).
    destruct (is_some_and max (fun m => m <? n)); [reflexivity|].
    cbn [fst]. destruct (fst (lv_items d bs (4 * n) n (N.to_nat n) 1 (4 * n))); reflexivity.
  - rewrite !lv_not_announced by assumption. reflexivity.
Qed.

Theorem lv_ok_length {A} (d : bytes -> outcome A) bs max vs n :
  decode_list_var d CVec bs max = Ok vs -> announced bs n -> N.of_nat (length vs) = n.
Proof.
  intros H Ha. unfold decode_list_var in H.
  rewrite (lv_full_announced d CVec bs n max Ha) in H.
  destruct (is_some_and max (fun m => m <? n)); [discriminate|].
  cbn [fst] in H. rewrite bind_collect_vec in H.
  apply lv_items_ok_length in H. lia.
Qed.

(** ** C06 *)
Theorem lv_reserved_bound {A} (d : bytes -> outcome A) c bs max :
  snd (decode_list_var_full d c bs max) <= len bs / 4 /\
  snd (fst (decode_list_var_full d c bs max)) <= len bs / 4.
Proof.
  destruct (list_eq_dec N.eq_dec bs []) as [->|Hne].
  { rewrite lv_full_nil. cbn [fst snd]. split; apply N.le_0_l. }
  destruct (announced_dec bs) as [[n Ha]|Hna].
  2:{ rewrite lv_not_announced by assumption. cbn [fst snd]. split; apply N.le_0_l. }
  rewrite (lv_full_announced d c bs n max Ha).
  destruct (announced_facts _ _ Ha) as (Hr & Hn1 & Hnl).
  assert (Hn4 : n <= len bs / 4) by lia.
  destruct (is_some_and max (fun m => m <? n)); [cbn [fst snd]; split; apply N.le_0_l|].
  pose proof (lv_items_count d bs (4 * n) n (N.to_nat n) 1 (4 * n)) as Hc.
  destruct c; cbn [fst snd]; split; try apply N.le_0_l; lia.
Qed.

(** ** Fixed-size items *)
Lemma chunks_fuel_bounds fuel n bs s :
  (0 < n)%nat -> In s (chunks_fuel fuel n bs) -> (0 < length s <= n)%nat.
Proof.
  intros Hn. revert bs. induction fuel as [|f IH]; intros bs; cbn [chunks_fuel]; [intros []|].
  destruct bs as [|b bs]; [intros []|].
  intros [<-|Hin].
  - rewrite firstn_length. cbn [length]. lia.
  - eapply IH; eauto.
Qed.

Lemma chunks_fuel_concat_exact n (slices : list bytes) :
  (0 < n)%nat -> Forall (fun s => length s = n) slices ->
  forall fuel, (length (concat slices) <= fuel)%nat -> chunks_fuel fuel n (concat slices) = slices.
Proof.
  intros Hn. induction 1 as [|s r Hs _ IH]; intros fuel Hf.
  - cbn [concat]. destruct fuel; reflexivity.
  - cbn [concat] in *. rewrite app_length in Hf.
    destruct fuel as [|f]; [lia|].
    cbn [chunks_fuel]. destruct (s ++ concat r) as [|b t] eqn:E.
    { apply (f_equal (@length _)) in E. rewrite app_length in E. cbn in E. lia. }
    rewrite <- E.
    replace (firstn n (s ++ concat r)) with s.
    2:{ rewrite <- Hs, firstn_app, Nat.sub_diag, firstn_all. cbn. rewrite app_nil_r. reflexivity. }
    replace (skipn n (s ++ concat r)) with (concat r).
    2:{ rewrite <- Hs, skipn_app, Nat.sub_diag, skipn_all. reflexivity. }
    f_equal. apply IH. lia.
Qed.

Lemma dec_seq_fixed_ok {A} (d : bytes -> outcome A) (k : N) bs vs :
  0 < k -> dec_seq true k d bs = Ok vs ->
  exists slices, concat slices = bs /\ mapM d slices = Ok vs /\
                 (forall s, In s slices -> (0 < length s <= N.to_nat k)%nat).
Proof.
  intros Hk H. unfold dec_seq in H. destruct bs as [|b bs'].
  - injection H as <-. exists []. split; [reflexivity|]. split; [reflexivity|]. intros s [].
  - destruct (k =? 0) eqn:E; [lia|].
    exists (chunks (N.to_nat k) (b :: bs')). split; [|split].
    + apply chunks_concat. lia.
    + exact H.
    + intros s Hin. unfold chunks in Hin. eapply chunks_fuel_bounds; eauto. lia.
Qed.

Lemma dec_seq_fixed_concat {A} (d : bytes -> outcome A) (k : N) (slices : list bytes) :
  0 < k -> Forall (fun s => len s = k) slices ->
  dec_seq true k d (concat slices) = mapM d slices.
Proof.
  intros Hk Hall.
  assert (Hall' : Forall (fun s : bytes => length s = N.to_nat k) slices).
  { eapply Forall_impl; [|exact Hall]. cbn. intros s Hs. unfold len in Hs. lia. }
  assert (Hch : chunks (N.to_nat k) (concat slices) = slices).
  { unfold chunks. apply chunks_fuel_concat_exact; auto; lia. }
  unfold dec_seq. destruct (concat slices) as [|b t] eqn:E.
  - destruct slices as [|s r]; [reflexivity|].
    inversion Hall' as [|? ? Hs _]; subst. cbn [concat] in E.
    apply (f_equal (@length _)) in E. rewrite app_length in E. cbn in E. lia.
  - destruct (k =? 0) eqn:Ek; [lia|]. rewrite Hch. reflexivity.
Qed.

Lemma dec_seq_no_panic {A} (d : bytes -> outcome A) f k bs :
  (forall s, d s <> Panic) -> dec_seq f k d bs <> Panic.
Proof.
  intros Hd. unfold dec_seq. destruct bs as [|b bs']; [discriminate|].
  destruct f.
  - destruct (k =? 0); [discriminate|]. apply mapM_no_panic. exact Hd.
  - apply decode_list_var_no_panic. exact Hd.
Qed.


(** ** Relative versions: the item decoder is only known not to panic on slices satisfying a
    predicate inherited from the input. *)

(** Predicates preserved by taking sub-slices. *)
Definition slice_closed (Q : bytes -> Prop) : Prop :=
  forall bs a b, Q bs -> Q (take a (drop b bs)).

Lemma sc_take (Q : bytes -> Prop) bs a : slice_closed Q -> Q bs -> Q (take a bs).
Proof. intros Hsc HQ. rewrite <- (drop_0 bs). apply Hsc. exact HQ. Qed.

Lemma sc_drop (Q : bytes -> Prop) bs b : slice_closed Q -> Q bs -> Q (drop b bs).
Proof. intros Hsc HQ. rewrite <- (take_all (drop b bs)). apply Hsc. exact HQ. Qed.

Lemma sc_firstn (Q : bytes -> Prop) (bs : bytes) n : slice_closed Q -> Q bs -> Q (firstn n bs).
Proof.
  intros Hsc HQ. replace (firstn n bs) with (take (N.of_nat n) bs).
  - apply sc_take; assumption.
  - unfold take. rewrite Nat2N.id. reflexivity.
Qed.

Lemma sc_skipn (Q : bytes -> Prop) (bs : bytes) n : slice_closed Q -> Q bs -> Q (skipn n bs).
Proof.
  intros Hsc HQ. replace (skipn n bs) with (drop (N.of_nat n) bs).
  - apply sc_drop; assumption.
  - unfold drop. rewrite Nat2N.id. reflexivity.
Qed.

Lemma lv_sao_slice (Q : bytes -> Prop) bs first n i offset s off' :
  slice_closed Q -> Q bs -> lv_sao bs first n i offset = Ok (s, off') -> Q s.
Proof.
  intros Hsc HQ H.
  apply lv_sao_inv in H as [(_ & _ & _ & ->) | (_ & _ & _ & _ & _ & _ & ->)].
  - apply sc_drop; assumption.
  - apply Hsc. exact HQ.
Qed.

Lemma lv_items_no_panic_rel {A} (Q : bytes -> Prop) (d : bytes -> outcome A) bs first n :
  slice_closed Q -> Q bs -> (forall s, Q s -> d s <> Panic) -> 4 * n <= len bs ->
  forall fuel i offset, N.of_nat fuel + i <= n + 1 ->
  fst (lv_items d bs first n fuel i offset) <> Panic.
Proof.
  intros Hsc HQ Hd Hn. induction fuel as [|fuel IH]; intros i offset Hf.
  - cbn. discriminate.
  - rewrite lv_items_S.
    pose proof (lv_sao_no_panic bs first n i offset) as Hs.
    destruct (lv_sao bs first n i offset) as [[s off']| |] eqn:Es; cbn [fst].
    + specialize (Hd s (lv_sao_slice Q _ _ _ _ _ _ _ Hsc HQ Es)).
      destruct (d s) as [x| |]; cbn [fst]; try congruence.
      specialize (IH (i + 1) off').
      destruct (fst (lv_items d bs first n fuel (i + 1) off')); cbn [omap]; try discriminate.
      apply IH. lia.
    + discriminate.
    + exfalso. apply Hs; [intros; lia|reflexivity].
Qed.

Theorem decode_list_var_no_panic_rel {A} (Q : bytes -> Prop) (d : bytes -> outcome A) c bs max :
  slice_closed Q -> Q bs -> (forall s, Q s -> d s <> Panic) -> decode_list_var d c bs max <> Panic.
Proof.
  intros Hsc HQ Hd. unfold decode_list_var.
  destruct (list_eq_dec N.eq_dec bs []) as [->|Hne].
  { rewrite lv_full_nil. cbn [fst]. destruct c; cbn; try discriminate.
    destruct (0 <=? k); discriminate. }
  destruct (announced_dec bs) as [[n Ha]|Hna].
  2:{ rewrite lv_not_announced by assumption. cbn. discriminate. }
  rewrite (lv_full_announced d c bs n max Ha).
  destruct (announced_facts _ _ Ha) as (Hr & Hn1 & Hnl).
  destruct (is_some_and max (fun m => m <? n)); [cbn; discriminate|].
  pose proof (lv_items_no_panic_rel Q d bs (4 * n) n Hsc HQ Hd Hnl (N.to_nat n) 1 (4 * n)) as Hp.
  destruct c; cbn [fst]; try discriminate.
  - destruct (fst (lv_items d bs (4 * n) n (N.to_nat n) 1 (4 * n))); cbn; try discriminate.
    apply Hp. lia.
  - destruct (fst (lv_items d bs (4 * n) n (N.to_nat n) 1 (4 * n))); cbn; try discriminate.
    + destruct (N.of_nat (length a) <=? k); discriminate.
    + apply Hp. lia.
Qed.

Lemma mapM_no_panic_rel {A B} (Q : A -> Prop) (f : A -> outcome B) l :
  Forall Q l -> (forall x, Q x -> f x <> Panic) -> mapM f l <> Panic.
Proof.
  intros Hall Hf. induction Hall as [|x l Hx _ IH]; cbn [mapM]; [discriminate|].
  specialize (Hf x Hx). destruct (f x); cbn [bind]; try congruence.
  destruct (mapM f l); cbn [bind]; congruence.
Qed.

Lemma chunks_fuel_slices (Q : bytes -> Prop) fuel n bs :
  slice_closed Q -> Q bs -> Forall Q (chunks_fuel fuel n bs).
Proof.
  intros Hsc. revert bs. induction fuel as [|f IH]; intros bs HQ; cbn [chunks_fuel]; [constructor|].
  destruct bs as [|b bs]; [constructor|].
  constructor.
  - apply sc_firstn; assumption.
  - apply IH. apply sc_skipn; assumption.
Qed.

Lemma dec_seq_no_panic_rel {A} (Q : bytes -> Prop) (d : bytes -> outcome A) f k bs :
  slice_closed Q -> Q bs -> (forall s, Q s -> d s <> Panic) -> dec_seq f k d bs <> Panic.
Proof.
  intros Hsc HQ Hd. unfold dec_seq. destruct bs as [|b bs']; [discriminate|].
  destruct f.
  - destruct (k =? 0); [discriminate|].
    apply (mapM_no_panic_rel Q); [|exact Hd].
    unfold chunks. apply chunks_fuel_slices; assumption.
  - apply (decode_list_var_no_panic_rel Q); assumption.
Qed.

(** The concrete predicate used by the generic theorem. *)
Definition phys (s : bytes) : Prop := wfb s /\ len s <= usize_max.

Lemma phys_slice_closed : slice_closed phys.
Proof.
  intros bs a b [Hw Hl]. split.
  - apply wfb_take, wfb_drop. exact Hw.
  - assert (H : len (take a (drop b bs)) <= len bs).
    { unfold len, take, drop. rewrite firstn_length, skipn_length. lia. }
    lia.
Qed.

(** [Ok] results only ever come from items decoded on sub-slices. *)
Lemma dec_seq_fixed_ok_rel {A} (Q : bytes -> Prop) (d : bytes -> outcome A) (k : N) bs vs :
  slice_closed Q -> Q bs -> 0 < k -> dec_seq true k d bs = Ok vs ->
  exists slices, concat slices = bs /\ mapM d slices = Ok vs /\ Forall Q slices /\
                 (forall s, In s slices -> (0 < length s <= N.to_nat k)%nat).
Proof.
  intros Hsc HQ Hk H. unfold dec_seq in H. destruct bs as [|b bs'].
  - injection H as <-. exists []. split; [reflexivity|]. split; [reflexivity|].
    split; [constructor|]. intros s [].
  - destruct (k =? 0) eqn:E; [lia|].
    exists (chunks (N.to_nat k) (b :: bs')). split; [|split; [|split]].
    + apply chunks_concat. lia.
    + exact H.
    + unfold chunks. apply chunks_fuel_slices; assumption.
    + intros s Hin. unfold chunks in Hin. eapply chunks_fuel_bounds; eauto. lia.
Qed.

Lemma concat_slices (Q : bytes -> Prop) (l : list bytes) :
  slice_closed Q -> Q (concat l) -> Forall Q l.
Proof.
  intros Hsc. induction l as [|s r IH]; intros HQ; [constructor|].
  cbn [concat] in HQ. constructor.
  - rewrite <- (take_app_exact s (concat r)). apply sc_take; assumption.
  - apply IH. rewrite <- (drop_app_exact s (concat r)). apply sc_drop; assumption.
Qed.

Lemma tiles_list_slices (Q : bytes -> Prop) bs slices :
  slice_closed Q -> Q bs -> TilesList bs slices -> Forall Q slices.
Proof.
  intros Hsc HQ (_ & _ & Hbs). apply (concat_slices Q); [exact Hsc|].
  unfold assemble in Hbs. rewrite var_concat_var in Hbs.
  rewrite <- (drop_app_exact
                (assemble_fixed (4 * N.of_nat (length slices)) (map (fun s => (false, s)) slices))
                (concat slices)).
  rewrite <- Hbs. apply sc_drop; assumption.
Qed.
