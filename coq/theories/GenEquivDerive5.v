(** * GenEquivDerive5: derived containers with bitfield fields ([BitVector<U9>], [BitList<U16>]): the expanded
    impls call the crate's translated bitfield codec; for field values that satisfy the bitfield invariant (what
    every constructor and operation of the crate returns: GenPropsBits) they are the model's container codec. *)
From SSZ Require Import Base RustSem Offsets Encoder Builder Bitfield BitfieldFacts BitfieldOps BitfieldOpsFacts Types Codec CodecUnfold
     BaseFacts OffsetsFacts AppendFacts MetaFacts ListDecFacts BuilderFacts Canon
     Generated GenEquiv GenEquivBits GenEquivDec GenEquivEnc GenProps GeneratedDerive GenEquivDerive GenEquivDerive2 GenEquivTuple GenEquivDerive4.
From Coq Require Import ZArith ZifyN ZifyBool ZifyNat Lia.
Open Scope N_scope.
Ltac Zify.zify_post_hook ::= Z.div_mod_to_equations.

Definition v_bits (g : Gen.Bitfield) : val := VBits (bf_iter (bf_abs g)).

(** a bitfield that satisfies the invariant is what [bv_of_bits] / [bl_of_bits] rebuild from its own bits *)
Lemma bitvector_bytes_of_Inv n b : Inv b -> bf_len b = n -> bitvector_bytes n (bf_iter b) = bv_into_bytes b.
Proof.
  intros HI Hl. destruct (bv_of_bits_ok n (bf_iter b)) as (b' & E & HI' & Hl' & Hb').
  { rewrite bf_iter_length by exact HI. exact Hl. }
  unfold bitvector_bytes. rewrite E. f_equal. apply Inv_ext; try assumption; [congruence|].
  intros i Hi. rewrite Hb', nth_bf_iter by exact HI. rewrite N2Nat.id. reflexivity.
Qed.

Lemma bitlist_bytes_of_Inv n b : Inv b -> bf_len b <= n -> bitlist_bytes n (bf_iter b) = unwrap_bytes (bl_into_bytes b).
Proof.
  intros HI Hl. destruct (bl_of_bits_ok n (bf_iter b)) as (b' & E & HI' & Hl' & Hb').
  { rewrite bf_iter_length by exact HI. exact Hl. }
  unfold bitlist_bytes. rewrite E. f_equal. f_equal. apply Inv_ext; try assumption.
  - rewrite Hl', bf_iter_length by exact HI. reflexivity.
  - intros i Hi. rewrite Hb', nth_bf_iter by exact HI. rewrite N2Nat.id. reflexivity.
Qed.

(** ** [BitsV { a: BitVector<U9>, c: u8 }] *)
Definition T_BitsV : ty := TContainer true [TBitVector 9; TUint 1].
Definition v_BitsV (r : GenD.BitsV) : val := VCont [v_bits (GenD.BitsV_a r); VUint (GenD.BitsV_c r)].

Theorem derive_BitsV_metadata :
  GenD.BitsV_enc_is_ssz_fixed_len = Ok (e_is_fixed T_BitsV) /\ GenD.BitsV_enc_ssz_fixed_len = Ok (e_fixed_len T_BitsV) /\
  GenD.BitsV_dec_is_ssz_fixed_len = Ok (d_is_fixed T_BitsV) /\ GenD.BitsV_dec_ssz_fixed_len = Ok (d_fixed_len T_BitsV).
Proof. repeat split; vm_compute; reflexivity. Qed.

Theorem derive_BitsV_from_ssz_bytes bs : omap v_BitsV (GenD.BitsV_from_ssz_bytes bs) = dec T_BitsV bs.
Proof.
  unfold GenD.BitsV_from_ssz_bytes.
  change GenD.BitsV_dec_is_ssz_fixed_len with (Ok true : outcome bool).
  change GenD.BitsV_dec_ssz_fixed_len with (Ok 3 : outcome N).
  change (Gen.bitvector_dec_ssz_fixed_len 9) with (Ok 2 : outcome N). leaf_meta.
  cbn [bind]. rewrite llen_len.
  unfold T_BitsV. rewrite dec_container.
  change (true && forallb d_is_fixed [TBitVector 9; TUint 1]) with true. cbv iota.
  change (sumN (map d_fixed_len [TBitVector 9; TUint 1])) with 3.
  destruct (len bs =? 3); cbn [negb omap]; [|reflexivity].
  cbn [map split_dec]. change (d_fixed_len (TBitVector 9)) with 2. change (d_fixed_len (TUint 1)) with 1.
  rewrite split_at_n_eq.
  destruct (split_at bs 2) as [[s1 r1]| |]; cbn [bind fst snd omap]; try reflexivity.
  cbn [dec]. rewrite <- (gen_bitvector_from_ssz_bytes_eq 9 s1).
  destruct (Gen.bitvector_from_ssz_bytes 9 s1) as [a| |]; cbn [bind omap]; try reflexivity.
  rewrite split_at_n_eq.
  destruct (split_at r1 1) as [[s2 r2]| |]; cbn [bind fst snd omap]; try reflexivity.
  change (if len s2 =? N.of_nat 1 then Ok (VUint (le_val s2)) else Err) with (dec (TUint 1) s2).
  rewrite <- (gen_u8_from_ssz_bytes_eq s2).
  destruct (Gen.u8_from_ssz_bytes s2) as [c| |]; reflexivity.
Qed.

Theorem derive_BitsV_ssz_append r buf :
  Inv (bf_abs (GenD.BitsV_a r)) -> bf_len (bf_abs (GenD.BitsV_a r)) = 9 ->
  GenD.BitsV_ssz_append r buf = Ok (append T_BitsV (v_BitsV r) buf).
Proof.
  intros HI Hl. destruct r as [a c]. cbn [GenD.BitsV_a] in *.
  unfold GenD.BitsV_ssz_append. cbn [GenD.BitsV_a GenD.BitsV_c].
  change (Gen.bitvector_enc_ssz_fixed_len 9) with (Ok 2 : outcome N).
  change (Gen.bitvector_enc_is_ssz_fixed_len 9) with (Ok true : outcome bool). leaf_meta. cbn [bind].
  change (unwrap_or_panic (checked_add 0 2)) with (Ok 2 : outcome N). cbn [bind].
  change (unwrap_or_panic (checked_add 2 1)) with (Ok 3 : outcome N). cbn [bind].
  unfold Gen.encoder_container. cbn [bind].
  unfold Gen.encoder_append_item, Gen.encoder_append. enc_fields.
  rewrite gen_bitvector_ssz_append_eq. enc_fields.
  unfold Gen.encoder_finalize. enc_fields. f_equal.
  unfold T_BitsV, v_BitsV, v_bits. rewrite append_container. unfold enc_run, cont_items, Encoder.enc_container, enc_append, enc_finalize.
  cbn [combine map fold_left fst snd sumN e_is_fixed e_fixed_len append e_offset e_buf e_var GenD.BitsV_a GenD.BitsV_c].
  rewrite (bitvector_bytes_of_Inv 9 (bf_abs a) HI Hl). rewrite app_nil_r. reflexivity.
Qed.

Theorem derive_BitsV_ssz_bytes_len r : GenD.BitsV_ssz_bytes_len r = Ok (bytes_len T_BitsV (v_BitsV r)).
Proof. reflexivity. Qed.

(** ** [BitsL { a: BitVector<U9>, b: BitList<U16>, c: u8 }] (Encode) *)
Definition T_BitsL : ty := TContainer true [TBitVector 9; TBitList 16; TUint 1].
Definition v_BitsL (r : GenD.BitsL) : val := VCont [v_bits (GenD.BitsL_a r); v_bits (GenD.BitsL_b r); VUint (GenD.BitsL_c r)].

Theorem derive_BitsL_metadata :
  GenD.BitsL_enc_is_ssz_fixed_len = Ok (e_is_fixed T_BitsL) /\ GenD.BitsL_enc_ssz_fixed_len = Ok (e_fixed_len T_BitsL).
Proof. repeat split; vm_compute; reflexivity. Qed.

Theorem derive_BitsL_ssz_append r buf :
  Inv (bf_abs (GenD.BitsL_a r)) -> bf_len (bf_abs (GenD.BitsL_a r)) = 9 ->
  Inv (bf_abs (GenD.BitsL_b r)) -> bf_len (bf_abs (GenD.BitsL_b r)) <= 16 ->
  GenD.BitsL_ssz_append r buf = Ok (append T_BitsL (v_BitsL r) buf).
Proof.
  intros HIa Hla HIb Hlb. destruct r as [a b c]. cbn [GenD.BitsL_a GenD.BitsL_b] in *.
  unfold GenD.BitsL_ssz_append. cbn [GenD.BitsL_a GenD.BitsL_b GenD.BitsL_c].
  change (Gen.bitvector_enc_ssz_fixed_len 9) with (Ok 2 : outcome N).
  change (Gen.bitvector_enc_is_ssz_fixed_len 9) with (Ok true : outcome bool).
  change (Gen.bitlist_enc_is_ssz_fixed_len 16) with (Ok false : outcome bool). leaf_meta. cbn [bind].
  change (unwrap_or_panic (checked_add 0 2)) with (Ok 2 : outcome N). cbn [bind].
  change (unwrap_or_panic (checked_add 2 4)) with (Ok 6 : outcome N). cbn [bind].
  change (unwrap_or_panic (checked_add 6 1)) with (Ok 7 : outcome N). cbn [bind].
  unfold Gen.encoder_container. cbn [bind].
  unfold Gen.encoder_append_item, Gen.encoder_append. enc_fields.
  rewrite gen_bitvector_ssz_append_eq. enc_fields.
  change (llen (@nil N)) with 0. change (usize_add 7 0) with (Ok 7 : outcome N). cbn [bind].
  rewrite gen_encode_length_eq. cbn [bind].
  rewrite gen_bitlist_ssz_append_eq by (assert (usize_max = 18446744073709551615) by reflexivity; lia).
  (* an invariant-satisfying bitlist has an encoding *)
  destruct (bl_into_bytes_ok (bf_abs b) HIb) as (bsb & Eb). rewrite Eb. cbn [bind]. enc_fields.
  unfold Gen.encoder_finalize. enc_fields. f_equal.
  unfold T_BitsL, v_BitsL, v_bits. rewrite append_container. unfold enc_run, cont_items, Encoder.enc_container, enc_append, enc_finalize.
  cbn [combine map fold_left fst snd sumN e_is_fixed e_fixed_len append e_offset e_buf e_var GenD.BitsL_a GenD.BitsL_b GenD.BitsL_c].
  rewrite (bitvector_bytes_of_Inv 9 (bf_abs a) HIa Hla), (bitlist_bytes_of_Inv 16 (bf_abs b) HIb Hlb), Eb.
  cbn [unwrap_bytes]. unfold len at 1. cbn [length N.of_nat]. rewrite !app_nil_l. reflexivity.
Qed.

(** the hypotheses are satisfiable: values produced by the expanded decoder satisfy them, and re-encode *)
Example ex_BitsV :
  (do r <- GenD.BitsV_from_ssz_bytes [5; 1; 7]; GenD.BitsV_ssz_append r [170]) = Ok [170; 5; 1; 7] /\
  GenD.BitsV_from_ssz_bytes [5; 2; 7] = Err /\ GenD.BitsV_from_ssz_bytes [5; 1] = Err.
Proof. vm_compute. repeat split. Qed.

Print Assumptions derive_BitsV_metadata.
Print Assumptions derive_BitsV_from_ssz_bytes.
Print Assumptions derive_BitsV_ssz_append.
Print Assumptions derive_BitsV_ssz_bytes_len.
Print Assumptions derive_BitsL_metadata.
Print Assumptions derive_BitsL_ssz_append.

(** ** decoding a container with a [BitList] field.  The crate computes [bytes.len() * 8] on the field's slice, so
    the statement is for inputs below 2^61 bytes; every item the builder hands out is a slice of the input. *)
Definition small (s : bytes) : Prop := wfb s /\ 8 * len s <= usize_max.

Lemma small_slice_closed : slice_closed small.
Proof.
  intros bs a b [Hw Hl]. split.
  - apply wfb_take, wfb_drop. exact Hw.
  - assert (H : len (take a (drop b bs)) <= len bs).
    { unfold len, take, drop. rewrite firstn_length, skipn_length. lia. }
    lia.
Qed.

Lemma builder_items_small regs bs items :
  small bs -> builder_build regs bs = Ok items -> Forall small items.
Proof.
  intros Hs Hb. assert (Hp : wfb bs /\ len bs <= usize_max) by (destruct Hs; split; [assumption|lia]).
  apply (builder_build_tiles _ _ _ (proj1 Hp) (proj2 Hp)) in Hb as HT.
  destruct HT as (Hsl & Hfix & Hfit & Hbs). cbv zeta in Hbs.
  pose proof (sc_asm small _ _ small_slice_closed ltac:(rewrite <- Hbs; exact Hs)) as Hq.
  rewrite Forall_forall in *. intros s Hin0.
  assert (In s (map snd (combine (map fst regs) items))) as Hin.
  { rewrite map_snd_combine'; [exact Hin0|]. rewrite map_length. lia. }
  apply in_map_iff in Hin as (p & <- & Hpin). now apply Hq.
Qed.

(** three registrations and the build, as one step against the model's [builder_build] *)
Lemma gen_build3 bs f1 l1 f2 l2 f3 l3 :
  omap Gen.SszDecoder_items
    (do s1 <- Gen.builder_register_type f1 l1 {| Gen.SszDecoderBuilder_bytes := bs; Gen.SszDecoderBuilder_items := []; Gen.SszDecoderBuilder_offsets := []; Gen.SszDecoderBuilder_items_index := 0 |};
     do s2 <- Gen.builder_register_type f2 l2 s1;
     do s3 <- Gen.builder_register_type f3 l3 s2;
     Gen.builder_build s3)
  = builder_build [(f1, l1); (f2, l2); (f3, l3)] bs.
Proof.
  unfold builder_build. cbn [register_all].
  set (s0 := {| Gen.SszDecoderBuilder_bytes := bs; Gen.SszDecoderBuilder_items := []; Gen.SszDecoderBuilder_offsets := []; Gen.SszDecoderBuilder_items_index := 0 |}).
  change builder_new with (st_abs s0).
  replace bs with (Gen.SszDecoderBuilder_bytes s0) by reflexivity.
  reg_step2 s0 f1 l1. rewrite <- Es, <- Eb.
  reg_step2 s f2 l2. rewrite <- Es0, <- Eb0.
  reg_step2 s1 f3 l3. rewrite <- Es1, <- Eb1.
  pose proof (gen_builder_build_eq s2) as Ebuild.
  destruct (Gen.builder_build s2) as [[its]| |]; destruct (finalize (Gen.SszDecoderBuilder_bytes s2) (st_abs s2)) as [items| |];
    cbn [omap bind Gen.SszDecoder_items] in *; try discriminate; try reflexivity.
  congruence.
Qed.

Lemma gen_decode_next_cons {A} (D : bytes -> outcome A) s r :
  Gen.decoder_decode_next D {| Gen.SszDecoder_items := s :: r |}
  = do a <- D s; Ok (a, {| Gen.SszDecoder_items := r |}).
Proof.
  unfold Gen.decoder_decode_next, Gen.decoder_decode_next_with, vec_remove.
  cbn [Gen.SszDecoder_items N.to_nat nth_error firstn skipn app bind fst snd Gen.set_SszDecoder_items].
  destruct (D s); reflexivity.
Qed.

Theorem derive_BitsL_from_ssz_bytes bs :
  small bs -> omap v_BitsL (GenD.BitsL_from_ssz_bytes bs) = dec T_BitsL bs.
Proof.
  intro Hs. unfold GenD.BitsL_from_ssz_bytes.
  change GenD.BitsL_dec_is_ssz_fixed_len with (Ok false : outcome bool).
  change (Gen.bitvector_dec_is_ssz_fixed_len 9) with (Ok true : outcome bool).
  change (Gen.bitvector_dec_ssz_fixed_len 9) with (Ok 2 : outcome N).
  change (Gen.bitlist_dec_is_ssz_fixed_len 16) with (Ok false : outcome bool). leaf_meta.
  cbn [bind]. unfold Gen.builder_new. cbn [bind].
  unfold T_BitsL. rewrite dec_container.
  change (true && forallb d_is_fixed [TBitVector 9; TBitList 16; TUint 1]) with false. cbv iota.
  change (regs_of [TBitVector 9; TBitList 16; TUint 1]) with [(true, 2); (false, 4); (true, 1)].
  pose proof (gen_build3 bs true 2 false 4 true 1) as G.
  set (s0 := {| Gen.SszDecoderBuilder_bytes := bs; Gen.SszDecoderBuilder_items := []; Gen.SszDecoderBuilder_offsets := []; Gen.SszDecoderBuilder_items_index := 0 |}) in *.
  destruct (Gen.builder_register_type true 2 s0) as [s1| |]; cbn [bind] in *;
    [| destruct (builder_build _ bs); cbn [omap] in G; try discriminate; reflexivity
     | destruct (builder_build _ bs); cbn [omap] in G; try discriminate; reflexivity].
  destruct (Gen.builder_register_type false 4 s1) as [s2| |]; cbn [bind] in *;
    [| destruct (builder_build _ bs); cbn [omap] in G; try discriminate; reflexivity
     | destruct (builder_build _ bs); cbn [omap] in G; try discriminate; reflexivity].
  destruct (Gen.builder_register_type true 1 s2) as [s3| |]; cbn [bind] in *;
    [| destruct (builder_build _ bs); cbn [omap] in G; try discriminate; reflexivity
     | destruct (builder_build _ bs); cbn [omap] in G; try discriminate; reflexivity].
  destruct (Gen.builder_build s3) as [[its]| |]; cbn [bind omap Gen.SszDecoder_items] in *;
    [| destruct (builder_build _ bs); try discriminate; reflexivity
     | destruct (builder_build _ bs); try discriminate; reflexivity].
  destruct (builder_build [(true, 2); (false, 4); (true, 1)] bs) as [items| |] eqn:EB; try discriminate.
  injection G as ->. cbn [bind].
  pose proof (builder_build_length _ _ _ EB) as HL. pose proof (builder_items_small _ _ _ Hs EB) as HS.
  destruct items as [|i1 [|i2 [|i3 [|i4 r]]]]; cbn [length] in HL; try discriminate.
  inversion HS as [|? ? H1 HS1]; subst. inversion HS1 as [|? ? H2 HS2]; subst. clear HS HS1 HS2.
  rewrite !gen_decode_next_cons. cbn [map decode_all decode_next].
  change (dec (TBitVector 9) i1) with (omap (fun b => VBits (bf_iter b)) (bv_from_bytes 9 i1)).
  rewrite <- (gen_bitvector_from_ssz_bytes_eq 9 i1).
  destruct (Gen.bitvector_from_ssz_bytes 9 i1) as [a| |]; cbn [bind omap fst snd]; try reflexivity.
  rewrite gen_decode_next_cons. cbn [decode_next].
  change (dec (TBitList 16) i2) with (omap (fun b => VBits (bf_iter b)) (bl_from_bytes 16 i2)).
  rewrite <- (gen_bitlist_from_ssz_bytes_eq 16 i2 (proj1 H2) (proj2 H2)).
  destruct (Gen.bitlist_from_ssz_bytes 16 i2) as [b| |]; cbn [bind omap fst snd]; try reflexivity.
  rewrite gen_decode_next_cons. cbn [decode_next].
  rewrite <- (gen_u8_from_ssz_bytes_eq i3).
  destruct (Gen.u8_from_ssz_bytes i3) as [c| |]; reflexivity.
Qed.

Print Assumptions derive_BitsL_from_ssz_bytes.
