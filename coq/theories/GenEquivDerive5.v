(** * GenEquivDerive5: derived containers with bitfield fields ([BitVector<U9>], [BitList<U16>]): the expanded
    impls call the crate's translated bitfield codec; for field values that satisfy the bitfield invariant (what
    every constructor and operation of the crate returns: GenPropsBits) they are the model's container codec. *)
From SSZ Require Import Base RustSem Offsets Encoder Builder Bitfield BitfieldFacts BitfieldOps BitfieldOpsFacts Types Codec CodecUnfold
     BaseFacts OffsetsFacts AppendFacts MetaFacts
     Generated GenEquiv GenEquivBits GenEquivDec GenEquivEnc GenProps GeneratedDerive GenEquivDerive GenEquivDerive2 GenEquivTuple GenEquivDerive4.
From Coq Require Import ZArith ZifyN ZifyBool ZifyNat Lia.
Open Scope N_scope.
Ltac Zify.zify_post_hook ::= Z.div_mod_to_equations.

Definition v_bits (g : Gen.Bitfield) : val := VBits (bf_iter (bf_abs g)).

(** a bitfield that satisfies the invariant is what [bv_of_bits] / [bl_of_bits] rebuild from its own bits *)
Lemma bitvector_bytes_of_Inv n b : Inv b -> bf_len b = n -> bitvector_bytes n (bf_iter b) = bv_into_bytes b.
Proof.
  intros HI Hl. destruct (bv_of_bits_ok n (bf_iter b)) as (b' & E & HI' & Hl' & Hb').
  { rewrite bf_iter_length by exact HI. exact Hl. }
  unfold bitvector_bytes. rewrite E. f_equal. apply Inv_ext; try assumption; [congruence|].
  intros i Hi. rewrite Hb', nth_bf_iter by exact HI. rewrite N2Nat.id. reflexivity.
Qed.

Lemma bitlist_bytes_of_Inv n b : Inv b -> bf_len b <= n -> bitlist_bytes n (bf_iter b) = unwrap_bytes (bl_into_bytes b).
Proof.
  intros HI Hl. destruct (bl_of_bits_ok n (bf_iter b)) as (b' & E & HI' & Hl' & Hb').
  { rewrite bf_iter_length by exact HI. exact Hl. }
  unfold bitlist_bytes. rewrite E. f_equal. f_equal. apply Inv_ext; try assumption.
  - rewrite Hl', bf_iter_length by exact HI. reflexivity.
  - intros i Hi. rewrite Hb', nth_bf_iter by exact HI. rewrite N2Nat.id. reflexivity.
Qed.

(** ** [BitsV { a: BitVector<U9>, c: u8 }] *)
Definition T_BitsV : ty := TContainer true [TBitVector 9; TUint 1].
Definition v_BitsV (r : GenD.BitsV) : val := VCont [v_bits (GenD.BitsV_a r); VUint (GenD.BitsV_c r)].

Theorem derive_BitsV_metadata :
  GenD.BitsV_enc_is_ssz_fixed_len = Ok (e_is_fixed T_BitsV) /\ GenD.BitsV_enc_ssz_fixed_len = Ok (e_fixed_len T_BitsV) /\
  GenD.BitsV_dec_is_ssz_fixed_len = Ok (d_is_fixed T_BitsV) /\ GenD.BitsV_dec_ssz_fixed_len = Ok (d_fixed_len T_BitsV).
Proof. repeat split; vm_compute; reflexivity. Qed.

Theorem derive_BitsV_from_ssz_bytes bs : omap v_BitsV (GenD.BitsV_from_ssz_bytes bs) = dec T_BitsV bs.
Proof.
  unfold GenD.BitsV_from_ssz_bytes.
  change GenD.BitsV_dec_is_ssz_fixed_len with (Ok true : outcome bool).
  change GenD.BitsV_dec_ssz_fixed_len with (Ok 3 : outcome N).
  change (Gen.bitvector_dec_ssz_fixed_len 9) with (Ok 2 : outcome N). leaf_meta.
  cbn [bind]. rewrite llen_len.
  unfold T_BitsV. rewrite dec_container.
  change (true && forallb d_is_fixed [TBitVector 9; TUint 1]) with true. cbv iota.
  change (sumN (map d_fixed_len [TBitVector 9; TUint 1])) with 3.
  destruct (len bs =? 3); cbn [negb omap]; [|reflexivity].
  cbn [map split_dec]. change (d_fixed_len (TBitVector 9)) with 2. change (d_fixed_len (TUint 1)) with 1.
  rewrite split_at_n_eq.
  destruct (split_at bs 2) as [[s1 r1]| |]; cbn [bind fst snd omap]; try reflexivity.
  cbn [dec]. rewrite <- (gen_bitvector_from_ssz_bytes_eq 9 s1).
  destruct (Gen.bitvector_from_ssz_bytes 9 s1) as [a| |]; cbn [bind omap]; try reflexivity.
  rewrite split_at_n_eq.
  destruct (split_at r1 1) as [[s2 r2]| |]; cbn [bind fst snd omap]; try reflexivity.
  change (if len s2 =? N.of_nat 1 then Ok (VUint (le_val s2)) else Err) with (dec (TUint 1) s2).
  rewrite <- (gen_u8_from_ssz_bytes_eq s2).
  destruct (Gen.u8_from_ssz_bytes s2) as [c| |]; reflexivity.
Qed.

Theorem derive_BitsV_ssz_append r buf :
  Inv (bf_abs (GenD.BitsV_a r)) -> bf_len (bf_abs (GenD.BitsV_a r)) = 9 ->
  GenD.BitsV_ssz_append r buf = Ok (append T_BitsV (v_BitsV r) buf).
Proof.
  intros HI Hl. destruct r as [a c]. cbn [GenD.BitsV_a] in *.
  unfold GenD.BitsV_ssz_append. cbn [GenD.BitsV_a GenD.BitsV_c].
  change (Gen.bitvector_enc_ssz_fixed_len 9) with (Ok 2 : outcome N).
  change (Gen.bitvector_enc_is_ssz_fixed_len 9) with (Ok true : outcome bool). leaf_meta. cbn [bind].
  change (unwrap_or_panic (checked_add 0 2)) with (Ok 2 : outcome N). cbn [bind].
  change (unwrap_or_panic (checked_add 2 1)) with (Ok 3 : outcome N). cbn [bind].
  unfold Gen.encoder_container. cbn [bind].
  unfold Gen.encoder_append_item, Gen.encoder_append. enc_fields.
  rewrite gen_bitvector_ssz_append_eq. enc_fields.
  unfold Gen.encoder_finalize. enc_fields. f_equal.
  unfold T_BitsV, v_BitsV, v_bits. rewrite append_container. unfold enc_run, cont_items, Encoder.enc_container, enc_append, enc_finalize.
  cbn [combine map fold_left fst snd sumN e_is_fixed e_fixed_len append e_offset e_buf e_var GenD.BitsV_a GenD.BitsV_c].
  rewrite (bitvector_bytes_of_Inv 9 (bf_abs a) HI Hl). rewrite app_nil_r. reflexivity.
Qed.

Theorem derive_BitsV_ssz_bytes_len r : GenD.BitsV_ssz_bytes_len r = Ok (bytes_len T_BitsV (v_BitsV r)).
Proof. reflexivity. Qed.

(** ** [BitsL { a: BitVector<U9>, b: BitList<U16>, c: u8 }] (Encode) *)
Definition T_BitsL : ty := TContainer true [TBitVector 9; TBitList 16; TUint 1].
Definition v_BitsL (r : GenD.BitsL) : val := VCont [v_bits (GenD.BitsL_a r); v_bits (GenD.BitsL_b r); VUint (GenD.BitsL_c r)].

Theorem derive_BitsL_metadata :
  GenD.BitsL_enc_is_ssz_fixed_len = Ok (e_is_fixed T_BitsL) /\ GenD.BitsL_enc_ssz_fixed_len = Ok (e_fixed_len T_BitsL).
Proof. repeat split; vm_compute; reflexivity. Qed.

Theorem derive_BitsL_ssz_append r buf :
  Inv (bf_abs (GenD.BitsL_a r)) -> bf_len (bf_abs (GenD.BitsL_a r)) = 9 ->
  Inv (bf_abs (GenD.BitsL_b r)) -> bf_len (bf_abs (GenD.BitsL_b r)) <= 16 ->
  GenD.BitsL_ssz_append r buf = Ok (append T_BitsL (v_BitsL r) buf).
Proof.
  intros HIa Hla HIb Hlb. destruct r as [a b c]. cbn [GenD.BitsL_a GenD.BitsL_b] in *.
  unfold GenD.BitsL_ssz_append. cbn [GenD.BitsL_a GenD.BitsL_b GenD.BitsL_c].
  change (Gen.bitvector_enc_ssz_fixed_len 9) with (Ok 2 : outcome N).
  change (Gen.bitvector_enc_is_ssz_fixed_len 9) with (Ok true : outcome bool).
  change (Gen.bitlist_enc_is_ssz_fixed_len 16) with (Ok false : outcome bool). leaf_meta. cbn [bind].
  change (unwrap_or_panic (checked_add 0 2)) with (Ok 2 : outcome N). cbn [bind].
  change (unwrap_or_panic (checked_add 2 4)) with (Ok 6 : outcome N). cbn [bind].
  change (unwrap_or_panic (checked_add 6 1)) with (Ok 7 : outcome N). cbn [bind].
  unfold Gen.encoder_container. cbn [bind].
  unfold Gen.encoder_append_item, Gen.encoder_append. enc_fields.
  rewrite gen_bitvector_ssz_append_eq. enc_fields.
  change (llen (@nil N)) with 0. change (usize_add 7 0) with (Ok 7 : outcome N). cbn [bind].
  rewrite gen_encode_length_eq. cbn [bind].
  rewrite gen_bitlist_ssz_append_eq by (assert (usize_max = 18446744073709551615) by reflexivity; lia).
  (* an invariant-satisfying bitlist has an encoding *)
  destruct (bl_into_bytes_ok (bf_abs b) HIb) as (bsb & Eb). rewrite Eb. cbn [bind]. enc_fields.
  unfold Gen.encoder_finalize. enc_fields. f_equal.
  unfold T_BitsL, v_BitsL, v_bits. rewrite append_container. unfold enc_run, cont_items, Encoder.enc_container, enc_append, enc_finalize.
  cbn [combine map fold_left fst snd sumN e_is_fixed e_fixed_len append e_offset e_buf e_var GenD.BitsL_a GenD.BitsL_b GenD.BitsL_c].
  rewrite (bitvector_bytes_of_Inv 9 (bf_abs a) HIa Hla), (bitlist_bytes_of_Inv 16 (bf_abs b) HIb Hlb), Eb.
  cbn [unwrap_bytes]. unfold len at 1. cbn [length N.of_nat]. rewrite !app_nil_l. reflexivity.
Qed.

(** the hypotheses are satisfiable: values produced by the expanded decoder satisfy them, and re-encode *)
Example ex_BitsV :
  (do r <- GenD.BitsV_from_ssz_bytes [5; 1; 7]; GenD.BitsV_ssz_append r [170]) = Ok [170; 5; 1; 7] /\
  GenD.BitsV_from_ssz_bytes [5; 2; 7] = Err /\ GenD.BitsV_from_ssz_bytes [5; 1] = Err.
Proof. vm_compute. repeat split. Qed.

Print Assumptions derive_BitsV_metadata.
Print Assumptions derive_BitsV_from_ssz_bytes.
Print Assumptions derive_BitsV_ssz_append.
Print Assumptions derive_BitsV_ssz_bytes_len.
Print Assumptions derive_BitsL_metadata.
Print Assumptions derive_BitsL_ssz_append.
