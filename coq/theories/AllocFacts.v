(** * The allocation account [units] is linear in the input length (C06). *)
From SSZ Require Import Base BaseFacts Offsets OffsetsFacts Builder Layout LayoutFacts BuilderFacts
     Types Codec CodecUnfold ListDecFacts Alloc.
From Coq Require Import ZArith ZifyN ZifyNat ZifyBool.
Ltac Zify.zify_post_hook ::= Z.div_mod_to_equations.
Open Scope N_scope.

(** ** [phys] slices *)
Lemma phys_take a bs : phys bs -> phys (take a bs).
Proof. apply sc_take, phys_slice_closed. Qed.
Lemma phys_drop a bs : phys bs -> phys (drop a bs).
Proof. apply sc_drop, phys_slice_closed. Qed.
Lemma phys_tail b bs : phys (b :: bs) -> phys bs.
Proof.
  intros [Hw Hl]. split.
  - inversion Hw; assumption.
  - rewrite len_cons in Hl. lia.
Qed.

Lemma len_take_drop l (bs : bytes) : len (take l bs) + len (drop l bs) = len bs.
Proof. rewrite <- len_app, take_drop. reflexivity. Qed.

(** ** The variable-item list walk *)
Lemma lv_walk_sum bs first n fuel i offset :
  offset <= len bs -> sumN (map len (lv_walk bs first n fuel i offset)) <= len bs - offset.
Proof.
  revert i offset. induction fuel as [|fuel IH]; intros i offset Hoff; cbn [lv_walk].
  { cbn [map sumN]. apply N.le_0_l. }
  destruct (i =? n).
  - destruct (get_from bs offset) as [s|] eqn:E; cbn [map sumN]; [|apply N.le_0_l].
    apply get_from_some in E as [_ ->]. rewrite len_drop. lia.
  - destruct (index_from bs (i * BYTES_PER_LENGTH_OFFSET)) as [rest| |];
      cbn [map sumN]; try apply N.le_0_l.
    destruct (read_offset rest) as [next| |]; cbn [map sumN]; try apply N.le_0_l.
    destruct (sanitize_offset next (Some offset) (len bs) (Some first)) as [off'| |] eqn:Es;
      cbn [map sumN]; try apply N.le_0_l.
    apply sanitize_offset_next in Es as (-> & _ & Hnl & Hon).
    destruct (get_range bs offset next) as [s|] eqn:Eg; cbn [map sumN]; [|apply N.le_0_l].
    apply get_range_some in Eg as (_ & _ & ->).
    rewrite len_take by (rewrite len_drop; lia).
    specialize (IH (i + 1) next Hnl). lia.
Qed.

Lemma lv_walk_slices (Q : bytes -> Prop) bs first n :
  slice_closed Q -> Q bs -> forall fuel i offset, Forall Q (lv_walk bs first n fuel i offset).
Proof.
  intros Hsc HQ. induction fuel as [|fuel IH]; intros i offset; cbn [lv_walk]; [constructor|].
  destruct (i =? n).
  - destruct (get_from bs offset) as [s|] eqn:E; [|constructor].
    apply get_from_some in E as [_ ->]. constructor; [apply sc_drop; assumption|constructor].
  - destruct (index_from bs (i * BYTES_PER_LENGTH_OFFSET)) as [rest| |]; try constructor.
    destruct (read_offset rest) as [next| |]; try constructor.
    destruct (sanitize_offset next (Some offset) (len bs) (Some first)) as [off'| |]; try constructor.
    destruct (get_range bs offset off') as [s|] eqn:E; [|constructor].
    apply get_range_some in E as (_ & _ & ->). constructor; [apply Hsc; exact HQ|apply IH].
Qed.

Lemma lv_alloc_bound bs :
  fst (lv_alloc bs) <= len bs / 4 /\ sumN (map len (snd (lv_alloc bs))) <= len bs.
Proof.
  unfold lv_alloc. destruct bs as [|b bs']; [cbn; split; apply N.le_0_l|].
  set (bs := b :: bs').
  destruct (read_offset bs) as [first| |]; cbn [fst snd map sumN]; try (split; apply N.le_0_l).
  destruct (sanitize_offset first None (len bs) (Some first)) as [r| |] eqn:Es;
    cbn [fst snd map sumN]; try (split; apply N.le_0_l).
  apply sanitize_offset_first in Es as [_ Hf].
  destruct (negb (first mod BYTES_PER_LENGTH_OFFSET =? 0) || (first <? BYTES_PER_LENGTH_OFFSET));
    cbn [fst snd map sumN]; try (split; apply N.le_0_l).
  split.
  - unfold BYTES_PER_LENGTH_OFFSET. apply N.div_le_mono; [discriminate|exact Hf].
  - pose proof (lv_walk_sum bs first (first / BYTES_PER_LENGTH_OFFSET)
                  (N.to_nat (first / BYTES_PER_LENGTH_OFFSET)) 1 first Hf) as H.
    lia.
Qed.

Lemma lv_alloc_slices (Q : bytes -> Prop) bs : slice_closed Q -> Q bs -> Forall Q (snd (lv_alloc bs)).
Proof.
  intros Hsc HQ. unfold lv_alloc. destruct bs as [|b bs']; [constructor|].
  set (bs := b :: bs') in *.
  destruct (read_offset bs) as [first| |]; cbn [snd]; try constructor.
  destruct (sanitize_offset first None (len bs) (Some first)) as [r| |]; cbn [snd]; try constructor.
  destruct (negb (first mod BYTES_PER_LENGTH_OFFSET =? 0) || (first <? BYTES_PER_LENGTH_OFFSET));
    cbn [snd]; [constructor|].
  apply lv_walk_slices; assumption.
Qed.

(** ** Fixed-size chunks *)
Lemma chunks_fuel_count fuel n bs :
  (0 < n)%nat -> (length (chunks_fuel fuel n bs) <= length bs)%nat.
Proof.
  intros Hn. revert bs. induction fuel as [|f IH]; intros bs; cbn [chunks_fuel length]; [lia|].
  destruct bs as [|b bs']; cbn [length]; [lia|].
  specialize (IH (skipn n (b :: bs'))). rewrite skipn_length in IH. cbn [length] in IH. lia.
Qed.

Lemma seq_alloc_bound f k bs :
  fst (seq_alloc f k bs) <= len bs /\ sumN (map len (snd (seq_alloc f k bs))) <= len bs.
Proof.
  unfold seq_alloc. destruct bs as [|b bs']; [cbn; split; apply N.le_0_l|].
  set (bs := b :: bs').
  destruct f.
  - destruct (k =? 0) eqn:Ek; [cbn; split; apply N.le_0_l|].
    assert (Hn : (0 < N.to_nat k)%nat) by lia.
    cbn [fst snd]. split.
    + unfold chunks, len. pose proof (chunks_fuel_count (length bs) (N.to_nat k) bs Hn). lia.
    + rewrite <- len_concat, chunks_concat by exact Hn. apply N.le_refl.
  - destruct (lv_alloc_bound bs) as [H1 H2]. split; [|exact H2].
    assert (len bs / 4 <= len bs) by (apply N.div_le_upper_bound; lia). lia.
Qed.

Lemma seq_alloc_slices (Q : bytes -> Prop) f k bs :
  slice_closed Q -> Q bs -> Forall Q (snd (seq_alloc f k bs)).
Proof.
  intros Hsc HQ. unfold seq_alloc. destruct bs as [|b bs']; [constructor|].
  destruct f.
  - destruct (k =? 0); [constructor|]. cbn [snd]. unfold chunks. apply chunks_fuel_slices; assumption.
  - apply lv_alloc_slices; assumption.
Qed.

(** ** The builder *)
Lemma parts_len_le (parts : list part) :
  sumN (map len (map snd parts)) <=
  sumN (map (fun p : part => if fst p then len (snd p) else 4 + len (snd p)) parts).
Proof.
  induction parts as [|[[|] b] r IH]; cbn [map sumN fst snd]; lia.
Qed.

Lemma builder_items_sum regs bs items : wfb bs -> len bs <= usize_max ->
  builder_build regs bs = Ok items -> sumN (map len items) <= len bs.
Proof.
  intros Hw Hm Hb. apply (builder_build_tiles _ _ _ Hw Hm) in Hb as (HL & _ & _ & Hbs).
  cbv zeta in Hbs.
  set (parts := combine (map fst regs) items) in *.
  assert (Hsnd : map snd parts = items) by (apply map_snd_combine'; rewrite map_length; exact HL).
  rewrite Hbs, asm_len, <- Hsnd. apply parts_len_le.
Qed.

Lemma wfb_asm_inv (parts : list part) : forall off,
  wfb (assemble_fixed off parts) -> wfb (var_concat parts) ->
  Forall (fun p : part => wfb (snd p)) parts.
Proof.
  induction parts as [|[[|] b] r IH]; intros off H1 H2; [constructor| |].
  - cbn [assemble_fixed] in H1. rewrite var_concat_true in H2.
    apply wfb_app in H1 as [Hb H1]. constructor; [exact Hb|]. eapply IH; eauto.
  - cbn [assemble_fixed] in H1. rewrite var_concat_false in H2.
    apply wfb_app in H1 as [_ H1]. apply wfb_app in H2 as [Hb H2].
    constructor; [exact Hb|]. eapply IH; eauto.
Qed.

Lemma le_sumN_in x (l : list N) : In x l -> x <= sumN l.
Proof.
  induction l as [|y l IH]; [intros []|]. cbn [sumN]. intros [->|H]; [lia|]. specialize (IH H). lia.
Qed.

Lemma builder_items_phys regs bs items :
  phys bs -> builder_build regs bs = Ok items -> Forall phys items.
Proof.
  intros [Hw Hm] Hb. pose proof (builder_items_sum _ _ _ Hw Hm Hb) as Hsum.
  apply (builder_build_tiles _ _ _ Hw Hm) in Hb as (HL & _ & _ & Hbs). cbv zeta in Hbs.
  set (parts := combine (map fst regs) items) in *.
  assert (Hsnd : map snd parts = items) by (apply map_snd_combine'; rewrite map_length; exact HL).
  assert (Hwp : Forall (fun p : part => wfb (snd p)) parts).
  { rewrite Hbs in Hw. unfold assemble in Hw. apply wfb_app in Hw as [H1 H2].
    eapply wfb_asm_inv; eauto. }
  rewrite Forall_forall in *. intros s Hs. split.
  - rewrite <- Hsnd in Hs. apply in_map_iff in Hs as (p & <- & Hp). apply Hwp. exact Hp.
  - assert (len s <= sumN (map len items)) by (apply le_sumN_in, in_map; exact Hs). lia.
Qed.

(** ** Unfolding equations for the local fixpoints of [units] and [ufactor] *)
Fixpoint units_split (fs : list ty) (rest : bytes) : N :=
  match fs with
  | [] => 0
  | f :: fr => units f (take (d_fixed_len f) rest) + units_split fr (drop (d_fixed_len f) rest)
  end.

Fixpoint units_fields (fs : list ty) (items : list bytes) : N :=
  match fs, items with
  | f :: fr, s :: ir => units f s + units_fields fr ir
  | _, _ => 0
  end.

Fixpoint umax (fs : list ty) : N :=
  match fs with [] => 0 | f :: r => N.max (ufactor f) (umax r) end.

Definition usum (fs : list ty) : N := sumN (map ufactor fs).

Lemma units_container d fs bs :
  units (TContainer d fs) bs =
  if d && forallb d_is_fixed fs then units_split fs bs
  else match builder_build (regs_of fs) bs with
       | Ok items => units_fields fs items
       | _ => 0
       end.
Proof.
  cbn [units].
  replace ((fix all (fs0 : list ty) : bool :=
              match fs0 with [] => true | f :: r => d_is_fixed f && all r end) fs)
    with (forallb d_is_fixed fs)
    by (induction fs as [|f r IH]; cbn [forallb]; [reflexivity|]; now rewrite IH).
  destruct (d && forallb d_is_fixed fs).
  - revert bs. induction fs as [|f r IH]; intros bs; cbn [units_split]; [reflexivity|].
    rewrite IH. reflexivity.
  - unfold regs_of.
    replace ((fix go (fs0 : list ty) : list (bool * N) :=
                match fs0 with [] => [] | f :: r => (d_is_fixed f, d_fixed_len f) :: go r end) fs)
      with (map (fun f => (d_is_fixed f, d_fixed_len f)) fs)
      by (induction fs as [|f r IH]; cbn [map]; [reflexivity|]; now rewrite IH).
    destruct (builder_build (map (fun f : ty => (d_is_fixed f, d_fixed_len f)) fs) bs) as [items| |];
      reflexivity.
Qed.

Lemma units_union ts bs :
  units (TUnion ts) bs =
  match bs with
  | s :: body => match nth_error ts (N.to_nat s) with Some t => units t body | None => 0 end
  | [] => 0
  end.
Proof.
  cbn [units]. destruct bs as [|s body]; [reflexivity|].
  generalize (N.to_nat s) as j.
  induction ts as [|t r IH]; intros [|j]; cbn [nth_error]; try reflexivity. apply IH.
Qed.

Lemma units_trans ts bs : units (TTransEnum ts) bs = sumN (map (fun t => units t bs) ts).
Proof.
  cbn [units]. induction ts as [|t r IH]; cbn [map sumN]; [reflexivity|]. now rewrite IH.
Qed.

Lemma ufactor_container d fs : ufactor (TContainer d fs) = umax fs.
Proof. cbn [ufactor]. induction fs as [|f r IH]; cbn [umax]; [reflexivity|]. now rewrite IH. Qed.
Lemma ufactor_union fs : ufactor (TUnion fs) = umax fs.
Proof. cbn [ufactor]. induction fs as [|f r IH]; cbn [umax]; [reflexivity|]. now rewrite IH. Qed.
Lemma ufactor_trans fs : ufactor (TTransEnum fs) = usum fs.
Proof.
  cbn [ufactor]. unfold usum. induction fs as [|f r IH]; cbn [map sumN]; [reflexivity|]. now rewrite IH.
Qed.

(** ** Linear bounds for the list-shaped pieces *)
Definition lin (t : ty) : Prop := forall bs, phys bs -> units t bs <= ufactor t * len bs.

Lemma mul_le_both a b x y : a <= b -> x <= y -> a * x <= b * y.
Proof. intros. apply N.mul_le_mono; assumption. Qed.

Lemma sum_lin (u : bytes -> N) (c : N) (l : list bytes) :
  (forall s, phys s -> u s <= c * len s) -> Forall phys l ->
  sumN (map u l) <= c * sumN (map len l).
Proof.
  intros Hu Hl. induction Hl as [|s l Hs _ IH]; cbn [map sumN]; [lia|].
  specialize (Hu s Hs). rewrite N.mul_add_distr_l. lia.
Qed.

Lemma umax_in f fs : In f fs -> ufactor f <= umax fs.
Proof.
  induction fs as [|g r IH]; [intros []|]. cbn [umax]. intros [->|H]; [lia|]. specialize (IH H). lia.
Qed.

Lemma units_split_lin fs : Forall lin fs ->
  forall rest, phys rest -> units_split fs rest <= umax fs * len rest.
Proof.
  induction 1 as [|f r Hf _ IH]; intros rest Hp; cbn [units_split umax]; [lia|].
  set (l := d_fixed_len f).
  pose proof (Hf (take l rest) (phys_take l rest Hp)) as H1.
  pose proof (IH (drop l rest) (phys_drop l rest Hp)) as H2.
  pose proof (len_take_drop l rest) as Hl.
  set (m := N.max (ufactor f) (umax r)).
  assert (A1 : ufactor f * len (take l rest) <= m * len (take l rest))
    by (apply N.mul_le_mono_r; lia).
  assert (A2 : umax r * len (drop l rest) <= m * len (drop l rest))
    by (apply N.mul_le_mono_r; lia).
  rewrite <- Hl, N.mul_add_distr_l. lia.
Qed.

Lemma units_fields_lin fs : Forall lin fs ->
  forall items, Forall phys items -> units_fields fs items <= umax fs * sumN (map len items).
Proof.
  induction 1 as [|f r Hf _ IH]; intros items Hp; cbn [units_fields umax]; [lia|].
  destruct Hp as [|s ir Hs Hir]; [lia|]. cbn [map sumN].
  pose proof (Hf s Hs) as H1. pose proof (IH ir Hir) as H2.
  set (m := N.max (ufactor f) (umax r)).
  assert (A1 : ufactor f * len s <= m * len s) by (apply N.mul_le_mono_r; lia).
  assert (A2 : umax r * sumN (map len ir) <= m * sumN (map len ir)) by (apply N.mul_le_mono_r; lia).
  rewrite N.mul_add_distr_l. lia.
Qed.

Lemma lin_container d fs : Forall lin fs -> lin (TContainer d fs).
Proof.
  intros HF bs Hp. rewrite units_container, ufactor_container.
  destruct (d && forallb d_is_fixed fs).
  - apply units_split_lin; assumption.
  - destruct (builder_build (regs_of fs) bs) as [items| |] eqn:Eb; try apply N.le_0_l.
    pose proof (builder_items_phys _ _ _ Hp Eb) as Hip.
    pose proof (builder_items_sum _ _ _ (proj1 Hp) (proj2 Hp) Eb) as Hs.
    etransitivity; [apply units_fields_lin; eassumption|].
    apply N.mul_le_mono_l. exact Hs.
Qed.

Lemma lin_union ts : Forall lin ts -> lin (TUnion ts).
Proof.
  intros HF bs Hp. rewrite units_union, ufactor_union.
  destruct bs as [|s body]; [apply N.le_0_l|].
  destruct (nth_error ts (N.to_nat s)) as [t|] eqn:E; [|apply N.le_0_l].
  apply nth_error_In in E. rewrite Forall_forall in HF.
  pose proof (HF t E body (phys_tail _ _ Hp)) as H. pose proof (umax_in _ _ E) as Hm.
  etransitivity; [exact H|]. apply mul_le_both; [exact Hm|]. rewrite len_cons. lia.
Qed.

Lemma lin_trans ts : Forall lin ts -> lin (TTransEnum ts).
Proof.
  intros HF bs Hp. rewrite units_trans, ufactor_trans. unfold usum.
  induction HF as [|t r Ht _ IH]; cbn [map sumN]; [lia|].
  specialize (Ht bs Hp). rewrite N.mul_add_distr_r. lia.
Qed.

Lemma lin_seq a f k bs : lin a -> phys bs ->
  fst (seq_alloc f k bs) + sumN (map (units a) (snd (seq_alloc f k bs))) <= (1 + ufactor a) * len bs.
Proof.
  intros Ha Hp. destruct (seq_alloc_bound f k bs) as [H1 H2].
  pose proof (seq_alloc_slices phys f k bs phys_slice_closed Hp) as Hs.
  pose proof (sum_lin (units a) (ufactor a) _ Ha Hs) as H3.
  assert (A : ufactor a * sumN (map len (snd (seq_alloc f k bs))) <= ufactor a * len bs)
    by (apply N.mul_le_mono_l; exact H2).
  rewrite N.mul_add_distr_r. lia.
Qed.

Lemma lin_entry k v s : lin k -> lin v -> phys s ->
  match builder_build [(d_is_fixed k, d_fixed_len k); (d_is_fixed v, d_fixed_len v)] s with
  | Ok [sk; sv] => units k sk + units v sv
  | _ => 0
  end <= N.max (ufactor k) (ufactor v) * len s.
Proof.
  intros Hk Hv Hp.
  destruct (builder_build _ s) as [items| |] eqn:Eb; try apply N.le_0_l.
  destruct items as [|sk [|sv [|x r]]]; try apply N.le_0_l.
  pose proof (builder_items_phys _ _ _ Hp Eb) as Hip.
  pose proof (builder_items_sum _ _ _ (proj1 Hp) (proj2 Hp) Eb) as Hs. cbn [map sumN] in Hs.
  inversion Hip as [|? ? Hpk Hip']; subst. inversion Hip' as [|? ? Hpv _]; subst.
  specialize (Hk sk Hpk). specialize (Hv sv Hpv).
  set (m := N.max (ufactor k) (ufactor v)).
  assert (A1 : ufactor k * len sk <= m * len sk) by (apply N.mul_le_mono_r; lia).
  assert (A2 : ufactor v * len sv <= m * len sv) by (apply N.mul_le_mono_r; lia).
  assert (A3 : m * (len sk + len sv) <= m * len s) by (apply N.mul_le_mono_l; lia).
  rewrite N.mul_add_distr_l in A3. lia.
Qed.

Lemma lin_map k v : lin k -> lin v -> lin (TMap k v).
Proof.
  intros Hk Hv bs Hp. cbn [units ufactor].
  set (ef := d_is_fixed k && d_is_fixed v).
  set (el := if ef then d_fixed_len k + d_fixed_len v else BYTES_PER_LENGTH_OFFSET).
  destruct (seq_alloc_bound ef el bs) as [H1 H2].
  pose proof (seq_alloc_slices phys ef el bs phys_slice_closed Hp) as Hs.
  set (m := N.max (ufactor k) (ufactor v)).
  pose proof (sum_lin _ m _ (fun s Hps => lin_entry k v s Hk Hv Hps) Hs) as H3.
  assert (A : m * sumN (map len (snd (seq_alloc ef el bs))) <= m * len bs)
    by (apply N.mul_le_mono_l; exact H2).
  rewrite N.mul_add_distr_r. lia.
Qed.

(** ** C06: the account is linear in the input length *)
Theorem units_lin t : lin t.
Proof.
  induction t using ty_ind'; try (intros bs Hp; cbn [units ufactor]; lia).
  - (* TList *) intros bs Hp. cbn [units ufactor]. apply lin_seq; assumption.
  - (* TSet *) intros bs Hp. cbn [units ufactor]. apply lin_seq; assumption.
  - (* TMap *) apply lin_map; assumption.
  - (* TOption *) intros bs Hp. cbn [units ufactor]. destruct bs as [|s body]; [lia|].
    destruct (s =? 1); [|lia].
    pose proof (IHt body (phys_tail _ _ Hp)) as H. rewrite len_cons.
    rewrite N.mul_add_distr_l. lia.
  - (* TContainer *) apply lin_container; assumption.
  - (* TUnion *) apply lin_union; assumption.
  - (* TTransEnum *) apply lin_trans; assumption.
  - (* TWrap *) intros bs Hp. cbn [units ufactor]. apply IHt; assumption.
  - (* TLegacyOpt *) intros bs Hp. cbn [units ufactor].
    pose proof (IHt _ (phys_drop BYTES_PER_LENGTH_OFFSET bs Hp)) as H.
    etransitivity; [exact H|]. apply N.mul_le_mono_l. rewrite len_drop. lia.
Qed.

Theorem units_linear t bs : wfb bs -> len bs <= usize_max -> units t bs <= ufactor t * len bs.
Proof. intros Hw Hm. apply units_lin. split; assumption. Qed.

