(** * Encodings are byte strings. *)
From SSZ Require Import Base BaseFacts Offsets OffsetsFacts Encoder EncoderFacts Layout LayoutFacts
     Bitfield Types Codec Spec CodecUnfold MetaFacts AppendFacts LeafIface SizeFacts.
From Coq Require Import ZArith ZifyN ZifyNat ZifyBool.
Open Scope N_scope.

Definition wfb_ok (t : ty) : Prop := forall v, has_ty t v = true -> wfb (enc t v).

Lemma wfb_cons b bs : b < 256 -> wfb bs -> wfb (b :: bs).
Proof. intros. constructor; auto. Qed.

Lemma wfb_seq_enc f encs : Forall wfb encs -> wfb (seq_enc f encs).
Proof.
  intros H. unfold seq_enc. destruct f; [now apply wfb_concat|].
  apply wfb_asm. apply Forall_forall. intros p Hp. apply in_map_iff in Hp as (e & <- & He).
  cbn [snd]. rewrite Forall_forall in H. auto.
Qed.

Lemma wfb_seq t vs : wfb_ok t -> forallb (has_ty t) vs = true -> wfb (seq_enc (e_is_fixed t) (map (enc t) vs)).
Proof.
  intros Ht Hvs. apply wfb_seq_enc. apply Forall_forall. intros e He.
  apply in_map_iff in He as (x & <- & Hx). rewrite forallb_forall in Hvs. auto.
Qed.

Lemma wfb_container d fs : Forall wfb_ok fs -> wfb_ok (TContainer d fs).
Proof.
  intros HF v Hv. destruct v; try discriminate. rewrite has_ty_container in Hv.
  rewrite enc_container. apply wfb_asm. unfold cont_parts. revert vs Hv.
  induction HF as [|f fs Hf _ IH]; intros [|x vs] Hv; try discriminate; cbn [combine map]; [constructor|].
  rewrite has_ty_fields_cons in Hv. apply andb_prop in Hv as [Hx Hv].
  constructor; [cbn [snd fst]; auto|auto].
Qed.

Lemma pick_has_ty_lt ts i v : pick_has_ty ts i v = true -> (i < length ts)%nat.
Proof.
  unfold pick_has_ty. destruct (nth_error ts i) eqn:E; [|discriminate].
  intros _. apply nth_error_Some. congruence.
Qed.

Theorem wfb_facts (L : LeafFacts) t : wfb_ok t.
Proof.
  induction t using ty_ind'; intros v Hv.
  - destruct v; try discriminate. unfold enc. cbn [append app]. apply wfb_le_bytes.
  - destruct v; try discriminate. unfold enc. cbn [append app]. apply wfb_le_bytes.
  - destruct v; try discriminate. unfold enc. cbn [append app]. apply wfb_le_bytes.
  - destruct v; try discriminate. cbn [has_ty] in Hv. apply andb_prop in Hv as [Hw _].
    unfold enc. cbn [append app]. now apply wfbb_wfb.
  - destruct v; try discriminate. cbn [has_ty] in Hv. unfold enc. cbn [append app]. now apply wfbb_wfb.
  - destruct v; try discriminate. cbn [has_ty] in Hv. rewrite enc_list. now apply wfb_seq.
  - destruct v; try discriminate. cbn [has_ty] in Hv. apply andb_prop in Hv as [Hv _].
    rewrite enc_set. now apply wfb_seq.
  - destruct v as [| | |es| | | | | |]; try discriminate.
    cbn [has_ty] in Hv. apply andb_prop in Hv as [Hes _].
    assert (Hshape : Forall (fun e => exists a c, e = VCont [a; c]) es).
    { apply Forall_forall. intros e He. rewrite forallb_forall in Hes. specialize (Hes e He).
      destruct e; try discriminate. destruct vs as [|a [|c [|? ?]]]; try discriminate. eauto. }
    assert (Hty : forallb (has_ty (TContainer false [t1; t2])) es = true).
    { apply forallb_forall. intros e He. rewrite forallb_forall in Hes. specialize (Hes e He).
      destruct e; try discriminate. destruct vs as [|a [|c [|? ?]]]; try discriminate.
      rewrite has_ty_container. unfold has_ty_fields. cbn [length Nat.eqb combine forallb fst snd andb].
      now rewrite andb_true_r. }
    rewrite (enc_map t1 t2 es Hshape), enc_list. apply wfb_seq; [|exact Hty].
    apply wfb_container. constructor; [exact IHt1|constructor; [exact IHt2|constructor]].
  - destruct v; try discriminate.
    + unfold enc. cbn. apply wfb_cons; [lia|constructor].
    + cbn [has_ty] in Hv. rewrite enc_option_some. apply wfb_cons; [lia|auto].
  - now apply wfb_container.
  - destruct v; try discriminate. rewrite has_ty_union in Hv. apply andb_prop in Hv as [Hn Hv].
    pose proof (pick_has_ty_lt _ _ _ Hv) as Hi. apply Nat.leb_le in Hn.
    unfold pick_has_ty in Hv. rewrite enc_union.
    destruct (nth_error vs i) as [t|] eqn:E; [|constructor].
    rewrite Forall_forall in H. apply wfb_cons; [lia|]. exact (H t (nth_error_In _ _ E) v Hv).
  - destruct v; try discriminate. cbn [has_ty] in Hv. apply andb_prop in Hv as [Hi Hn].
    apply Nat.ltb_lt in Hi. apply Nat.leb_le in Hn.
    unfold enc. cbn [append app]. apply wfb_cons; [lia|constructor].
  - destruct v; try discriminate. rewrite has_ty_trans in Hv. unfold pick_has_ty in Hv. rewrite enc_trans.
    destruct (nth_error vs i) as [t|] eqn:E; [|constructor].
    rewrite Forall_forall in H. exact (H t (nth_error_In _ _ E) v Hv).
  - exact (IHt v Hv).
  - destruct v; try discriminate. unfold enc. cbn [append app]. apply (lf_bv_wfb L).
  - destruct v; try discriminate. unfold enc. cbn [append app]. apply (lf_bl_wfb L).
  - destruct v; try discriminate. unfold enc. cbn [append app]. apply (lf_bd_wfb L).
  - destruct v; try discriminate.
    + unfold enc. cbn [append app]. apply wfb_encode_length.
    + cbn [has_ty] in Hv. rewrite enc_legacy_some. apply wfb_app. split; [apply wfb_encode_length|auto].
Qed.
