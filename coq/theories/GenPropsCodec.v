(** * GenPropsCodec: properties C01 C02 C05 C07 C09 C15 C16 stated directly about the codec
    definitions that [rs2v] derives from the Rust text ([Generated.v]): the list decoder, [Vec<T>],
    [Option<T>] and the leaf types.  Each statement composes a model-equals-source theorem of
    [GenEquivDec.v] / [GenEquivEnc.v] with the model theorem of the property; its subject is the
    source-derived term. *)
From SSZ Require Import Base RustSem Offsets Encoder Builder Types Codec BaseFacts OffsetsFacts
     Layout ListDecFacts AppendFacts NoPanic Canon OrderFacts RoundTrip LeafIface LeafProof Strict Generated GenEquiv GenEquivDec GenEquivEnc.
From Coq Require Import ZArith ZifyN ZifyBool ZifyNat Lia.
Open Scope N_scope.

(** ** C09: the list decoder of the source accepts exactly the tilings *)
Theorem Src_C09_list_tiles (d : bytes -> outcome val) bs vs :
  wfb bs -> len bs <= usize_max ->
  (Gen.decode_list_of_variable_length_items d vec_try_from_iter bs None = Ok vs <->
   (bs = [] /\ vs = []) \/ (exists slices, TilesList bs slices /\ mapM d slices = Ok vs)).
Proof. intros Hw Hl. rewrite gen_decode_list_vec_eq by exact Hl. apply decode_list_var_tiles. exact Hw. Qed.

(** ** C16: the limit is enforced before any item is looked at; within the limit nothing changes *)
Theorem Src_C16_over_limit (d : bytes -> outcome val) bs n max :
  len bs <= usize_max -> announced bs n -> max < n ->
  Gen.decode_list_of_variable_length_items d vec_try_from_iter bs (Some max) = Err.
Proof.
  intros Hl Ha Hm. rewrite gen_decode_list_vec_eq by exact Hl. unfold decode_list_var.
  rewrite (lv_over_limit d CVec bs n max Ha Hm). reflexivity.
Qed.

Theorem Src_C16_within_limit (d : bytes -> outcome val) bs n max :
  len bs <= usize_max -> announced bs n -> n <= max ->
  Gen.decode_list_of_variable_length_items d vec_try_from_iter bs (Some max)
  = Gen.decode_list_of_variable_length_items d vec_try_from_iter bs None.
Proof.
  intros Hl Ha Hm. rewrite !gen_decode_list_vec_eq by exact Hl. unfold decode_list_var.
  rewrite (lv_within_limit d CVec bs n max Ha Hm). reflexivity.
Qed.

Theorem Src_C16_empty (d : bytes -> outcome val) max :
  Gen.decode_list_of_variable_length_items d vec_try_from_iter [] max = Ok [].
Proof. reflexivity. Qed.

(** ** C05: no panic, for every limit, as long as the item decoder does not panic *)
Theorem Src_C05_list_decoder (d : bytes -> outcome val) bs max :
  phys bs -> (forall s, phys s -> d s <> Panic) ->
  Gen.decode_list_of_variable_length_items d vec_try_from_iter bs max <> Panic.
Proof.
  intros Hp Hd. rewrite gen_decode_list_vec_eq by (apply Hp).
  exact (decode_list_var_no_panic_rel phys d CVec bs max phys_slice_closed Hp Hd).
Qed.

(** the leaf decoders and the generic wrappers of the source never panic on physical inputs *)
Theorem Src_C05_decoders_no_panic bs :
  phys bs ->
  Gen.u8_from_ssz_bytes bs <> Panic /\ Gen.u16_from_ssz_bytes bs <> Panic /\ Gen.u32_from_ssz_bytes bs <> Panic /\
  Gen.u64_from_ssz_bytes bs <> Panic /\ Gen.u128_from_ssz_bytes bs <> Panic /\ Gen.usize_from_ssz_bytes bs <> Panic /\
  Gen.bool_from_ssz_bytes bs <> Panic /\ Gen.nonzero_from_ssz_bytes bs <> Panic /\
  Gen.u256_from_ssz_bytes bs <> Panic /\ Gen.alloy_u128_from_ssz_bytes bs <> Panic /\
  Gen.address_from_ssz_bytes bs <> Panic /\ Gen.bloom_from_ssz_bytes bs <> Panic /\
  (forall n, Gen.array_from_ssz_bytes (N.of_nat n) bs <> Panic) /\
  (forall n, Gen.fixedbytes_from_ssz_bytes (N.of_nat n) bs <> Panic) /\
  (forall t, Gen.option_from_ssz_bytes (dec t) bs <> Panic) /\
  (forall t, Gen.arc_from_ssz_bytes (dec t) bs <> Panic) /\
  (forall t, Gen.vec_from_ssz_bytes (d_is_fixed t) (d_fixed_len t) (dec t) bs <> Panic).
Proof.
  intro Hp. destruct Hp as (Hw & Hl).
  assert (NP : forall t, dec t bs <> Panic) by (intro t; apply (nopanic_facts leaf_facts t bs); split; assumption).
  assert (T : forall {A B} (f : A -> B) (g : outcome A) (m : outcome B), omap f g = m -> m <> Panic -> g <> Panic).
  { intros A B f g m E Hm Hg. apply Hm. rewrite <- E, Hg. reflexivity. }
  repeat split.
  - exact (T _ _ _ _ _ (gen_u8_from_ssz_bytes_eq bs) (NP (TUint 1))).
  - exact (T _ _ _ _ _ (gen_u16_from_ssz_bytes_eq bs) (NP (TUint 2))).
  - exact (T _ _ _ _ _ (gen_u32_from_ssz_bytes_eq bs) (NP (TUint 4))).
  - exact (T _ _ _ _ _ (gen_u64_from_ssz_bytes_eq bs) (NP (TUint 8))).
  - exact (T _ _ _ _ _ (gen_u128_from_ssz_bytes_eq bs) (NP (TUint 16))).
  - exact (T _ _ _ _ _ (gen_usize_from_ssz_bytes_eq bs) (NP (TUint 8))).
  - exact (T _ _ _ _ _ (gen_bool_from_ssz_bytes_eq bs) (NP TBool)).
  - exact (T _ _ _ _ _ (gen_nonzero_from_ssz_bytes_eq bs) (NP TNonZero)).
  - exact (T _ _ _ _ _ (gen_u256_from_ssz_bytes_eq bs Hw) (NP (TUint 32))).
  - exact (T _ _ _ _ _ (gen_alloy_u128_from_ssz_bytes_eq bs Hw) (NP (TUint 16))).
  - exact (T _ _ _ _ _ (gen_address_from_ssz_bytes_eq bs) (NP (TBytesN 20))).
  - exact (T _ _ _ _ _ (gen_bloom_from_ssz_bytes_eq bs) (NP (TBytesN 256))).
  - intro n. exact (T _ _ _ _ _ (gen_array_from_ssz_bytes_eq n bs) (NP (TBytesN n))).
  - intro n. exact (T _ _ _ _ _ (gen_fixedbytes_from_ssz_bytes_eq n bs) (NP (TBytesN n))).
  - intro t. exact (T _ _ _ _ _ (gen_option_from_ssz_bytes_eq t bs) (NP (TOption t))).
  - intro t. rewrite gen_arc_from_ssz_bytes_eq. apply NP.
  - intro t. exact (T _ _ _ _ _ (gen_vec_is_dec_TList t bs Hl) (NP (TList t))).
Qed.

(** ** C15: [Option<T>] as written in the source: selector 0 with an empty body, selector 1 with the
    payload, nothing else *)
Theorem Src_C15_option t bs :
  Gen.option_from_ssz_bytes (dec t) bs =
  match bs with
  | [] => Err
  | s :: body =>
      if 127 <? s then Err
      else if s =? 0 then (match body with [] => Ok None | _ => Err end)
      else if s =? 1 then omap Some (dec t body)
      else Err
  end.
Proof.
  unfold Gen.option_from_ssz_bytes. rewrite gen_split_union_bytes_eq, split_union_bytes_spec.
  destruct bs as [|s body]; [reflexivity|].
  destruct (s <=? 127) eqn:E.
  - replace (127 <? s) with false by (symmetry; apply N.ltb_ge; apply N.leb_le in E; lia). cbn [bind].
    destruct (s =? 0); cbn [andb].
    + destruct body as [|x r]; [reflexivity|]. unfold llen. cbn [length].
      replace (N.of_nat (S (length r)) =? 0) with false by (symmetry; apply N.eqb_neq; lia). reflexivity.
    + destruct (s =? 1); reflexivity.
  - replace (127 <? s) with true by (symmetry; apply N.ltb_lt; apply N.leb_gt in E; lia). reflexivity.
Qed.

Theorem Src_C15_option_encode t x buf :
  Gen.option_ssz_append (app_of t) (Some x) buf = Ok (buf ++ 1 :: enc t x) /\
  Gen.option_ssz_append (app_of t) None buf = Ok (buf ++ [0]).
Proof.
  split; [|reflexivity]. unfold Gen.option_ssz_append, app_of. cbn [bind]. rewrite append_spec, <- app_assoc. reflexivity.
Qed.

(** ** C02 / C01 / C07 on the source-derived [Vec<T>] codec, for every canonical item type *)

(** what is accepted re-encodes to itself *)
Theorem Src_C02_vec_canonical t bs vs :
  canon_type (TList t) = true -> phys bs ->
  Gen.vec_from_ssz_bytes (d_is_fixed t) (d_fixed_len t) (dec t) bs = Ok vs ->
  enc (TList t) (VList vs) = bs.
Proof.
  intros Hc Hp Hd. refine (proj1 (canon_facts leaf_facts (TList t) Hc bs (VList vs) Hp _)).
  rewrite <- (gen_vec_is_dec_TList t bs) by apply Hp. rewrite Hd. reflexivity.
Qed.

(** every offset the encoder writes for a list of total encoded length below 2^32 fits *)
Lemma fits_run_append t : forall vs off var,
  off + len var + sumN (map (fun v => len (enc t v)) vs) <= usize_max -> fits_run (append t) off var vs.
Proof.
  induction vs as [|v r IH]; intros off var H; cbn [fits_run]; [exact I|].
  cbn [map sumN] in H. split; [lia|]. apply IH. rewrite append_spec, len_app. lia.
Qed.

(** decoding what the source's encoder produced returns the value (C01), and the size function of the
    source predicts the length (C07) *)
Theorem Src_C01_vec_round_trip t vs :
  rt_type (TList t) = true -> has_ty (TList t) (VList vs) = true ->
  len (enc (TList t) (VList vs)) < 4294967296 ->
  4 * llen vs + sumN (map (fun v => len (enc t v)) vs) <= usize_max ->
  e_fixed_len t * llen vs <= usize_max ->
  (do bs <- Gen.vec_ssz_append (e_is_fixed t) (e_fixed_len t) (app_of t) vs [];
   omap VList (Gen.vec_from_ssz_bytes (d_is_fixed t) (d_fixed_len t) (dec t) bs)) = Ok (VList vs).
Proof.
  intros Hrt Hty Hlen Hfit Hfix.
  rewrite gen_vec_ssz_append_eq.
  2:{ destruct (e_is_fixed t); [exact Hfix|]. split; [lia|]. apply fits_run_append. cbn [len length N.of_nat]. lia. }
  cbn [bind]. change (append (TList t) (VList vs) []) with (enc (TList t) (VList vs)).
  rewrite gen_vec_is_dec_TList by (assert (usize_max = 18446744073709551615) by reflexivity; lia).
  assert (C : CollectSorted).
  { intros kt m l Hk Hkeys Hs. exact (OrderFacts.collect_sorted kt m l Hk Hkeys Hs). }
  exact (rt_facts leaf_facts C (TList t) Hrt (VList vs) Hty Hlen).
Qed.

(** ** C19 on the source-derived [BTreeSet<T>] codec: decoding is the list decoder followed by collection
    (ascending, a later equal element wins); encoding is the element list *)
Theorem Src_C19_set_decodes_by_collection t bs :
  phys bs ->
  omap VList (Gen.btreeset_from_ssz_bytes (d_is_fixed t) (d_fixed_len t) (dec t) val_cmp bs) =
  match Gen.vec_from_ssz_bytes (d_is_fixed t) (d_fixed_len t) (dec t) bs with
  | Ok es => Ok (VList (collect_entries false es))
  | Err => Err | Panic => Panic
  end.
Proof.
  intro Hp. rewrite gen_btreeset_is_dec_TSet by apply Hp.
  pose proof (gen_vec_is_dec_TList t bs ltac:(apply Hp)) as E.
  rewrite Strict.dec_set_is_collect, <- E.
  destruct (Gen.vec_from_ssz_bytes (d_is_fixed t) (d_fixed_len t) (dec t) bs); reflexivity.
Qed.

Theorem Src_C19_set_result_sorted kt bs es :
  key_type kt = true -> phys bs ->
  Gen.vec_from_ssz_bytes (d_is_fixed kt) (d_fixed_len kt) (dec kt) bs = Ok es -> keys_typed kt false es ->
  exists vs, Gen.btreeset_from_ssz_bytes (d_is_fixed kt) (d_fixed_len kt) (dec kt) val_cmp bs = Ok vs /\
    strictly_sorted false vs = true /\ (forall e, In e vs -> In e es).
Proof.
  intros Hk Hp Hv Hty.
  pose proof (Src_C19_set_decodes_by_collection kt bs Hp) as E. rewrite Hv in E.
  destruct (Gen.btreeset_from_ssz_bytes (d_is_fixed kt) (d_fixed_len kt) (dec kt) val_cmp bs) as [vs| |]; cbn [omap] in E; try discriminate.
  injection E as ->. exists (collect_entries false es). split; [reflexivity|].
  split; [exact (collect_is_sorted kt false es Hk Hty) | intros e; apply collect_incl].
Qed.

Theorem Src_C19_set_encodes_as_list t vs buf :
  Gen.btreeset_ssz_append (e_is_fixed t) (e_fixed_len t) (app_of t) vs buf
  = Gen.vec_ssz_append (e_is_fixed t) (e_fixed_len t) (app_of t) vs buf.
Proof. reflexivity. Qed.

Print Assumptions Src_C09_list_tiles.
Print Assumptions Src_C16_over_limit.
Print Assumptions Src_C16_within_limit.
Print Assumptions Src_C05_list_decoder.
Print Assumptions Src_C05_decoders_no_panic.
Print Assumptions Src_C15_option.
Print Assumptions Src_C02_vec_canonical.
Print Assumptions Src_C01_vec_round_trip.
Print Assumptions Src_C19_set_decodes_by_collection.
Print Assumptions Src_C19_set_result_sorted.
Print Assumptions Src_C19_set_encodes_as_list.
