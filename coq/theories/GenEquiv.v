(** * GenEquiv: the definitions that [rs2v] derives from the Rust text of /repo ([Generated.v],
    regenerated on every run) are equal to the hand-written model definitions the theorems are
    about.  For these functions the tie between model and code is therefore not a sample: it
    holds for every input, as far as the translator's rules ([RustSem.v], rs2v/src/main.rs) are
    the meaning of the Rust text. *)
From SSZ Require Import Base RustSem Offsets Encoder Builder Bitfield BaseFacts Generated.
From Coq Require Import ZArith ZifyN ZifyBool ZifyNat Lia.
Open Scope N_scope.

Lemma llen_len (bs : bytes) : llen bs = len bs. Proof. reflexivity. Qed.

(** ** Constants *)
Lemma gen_BYTES_PER_LENGTH_OFFSET : Gen.BYTES_PER_LENGTH_OFFSET = BYTES_PER_LENGTH_OFFSET. Proof. reflexivity. Qed.
Lemma gen_BYTES_PER_UNION_SELECTOR : Gen.BYTES_PER_UNION_SELECTOR = BYTES_PER_UNION_SELECTOR. Proof. reflexivity. Qed.
Lemma gen_MAX_UNION_SELECTOR : Gen.MAX_UNION_SELECTOR = MAX_UNION_SELECTOR. Proof. reflexivity. Qed.

(** Case analysis on every [if] / [match] scrutinee of the goal, then arithmetic. *)
Ltac split_all :=
  repeat match goal with
         | |- context [match ?o with Some _ => _ | None => _ end] => destruct o eqn:?; cbn [is_some_and is_none opt_filter option_map ok_or bind negb andb orb] in *
         | |- context [if ?c then _ else _] => destruct c eqn:?; cbn [is_some_and is_none opt_filter option_map ok_or bind negb andb orb] in *
         end.
Ltac gen_solve := try reflexivity; try congruence; try lia.

(** ** [sanitize_offset] *)
Theorem gen_sanitize_offset_eq offset prev num_bytes num_fixed :
  Gen.sanitize_offset offset prev num_bytes num_fixed = sanitize_offset offset prev num_bytes num_fixed.
Proof.
  unfold Gen.sanitize_offset, sanitize_offset.
  destruct prev, num_fixed; cbn [is_some_and is_none andb]; split_all; gen_solve.
Qed.

(** ** [decode_offset], [read_offset] *)
Theorem gen_decode_offset_eq bs : Gen.decode_offset bs = decode_offset bs.
Proof.
  unfold Gen.decode_offset, decode_offset. rewrite !llen_len, gen_BYTES_PER_LENGTH_OFFSET.
  unfold BYTES_PER_LENGTH_OFFSET. destruct (len bs =? 4) eqn:E; cbn [negb]; reflexivity.
Qed.

Theorem gen_read_offset_eq bs : Gen.read_offset bs = read_offset bs.
Proof.
  unfold Gen.read_offset, read_offset. rewrite gen_BYTES_PER_LENGTH_OFFSET. unfold BYTES_PER_LENGTH_OFFSET.
  destruct (get_range bs 0 4); cbn [ok_or bind]; [apply gen_decode_offset_eq | reflexivity].
Qed.

(** ** [UnionSelector::new], [split_union_bytes] *)
Theorem gen_union_selector_new_eq s : Gen.union_selector_new s = union_selector_new s.
Proof.
  unfold Gen.union_selector_new, union_selector_new. rewrite gen_MAX_UNION_SELECTOR.
  cbn [opt_filter]. destruct (s <=? MAX_UNION_SELECTOR); reflexivity.
Qed.

Theorem gen_split_union_bytes_eq bs : Gen.split_union_bytes bs = split_union_bytes bs.
Proof.
  unfold Gen.split_union_bytes, split_union_bytes.
  destruct bs as [|s r]; cbn [hd_error ok_or bind]; [reflexivity|].
  rewrite gen_union_selector_new_eq. destruct (union_selector_new s); cbn [bind]; reflexivity.
Qed.

(** ** [encode_length]: [len.to_le_bytes()[0..4]] is the 4-byte word of [len mod 2^32]. *)
Lemma le_bytes_mod k n : le_bytes k (n mod 256 ^ N.of_nat k) = le_bytes k n.
Proof.
  revert n. induction k as [|k IH]; intro n; [reflexivity|].
  cbn [le_bytes]. replace (N.of_nat (S k)) with (N.succ (N.of_nat k)) by lia.
  rewrite N.pow_succ_r'.
  assert (HP : 256 ^ N.of_nat k <> 0) by (apply N.pow_nonzero; lia).
  rewrite N.mod_mul_r by (try exact HP; lia).
  set (X := (n / 256) mod 256 ^ N.of_nat k).
  assert (H1 : (n mod 256 + 256 * X) mod 256 = n mod 256).
  { rewrite N.add_mod by lia. rewrite (N.mul_comm 256 X), N.mod_mul by lia.
    rewrite N.add_0_r, N.mod_mod by lia. apply N.mod_mod. lia. }
  assert (H2 : (n mod 256 + 256 * X) / 256 = X).
  { rewrite (N.mul_comm 256 X), N.div_add by lia.
    rewrite (N.div_small (n mod 256) 256) by (apply N.mod_lt; lia). reflexivity. }
  rewrite H1, H2. f_equal. unfold X. apply IH.
Qed.

Lemma firstn_le_bytes k j n : firstn k (le_bytes (k + j) n) = le_bytes k n.
Proof.
  revert n. induction k as [|k IH]; intro n; [reflexivity|].
  cbn [Nat.add le_bytes firstn]. f_equal. apply IH.
Qed.

Lemma len_le_bytes_8 n : len (le_bytes 8 n) = 8.
Proof. unfold len. rewrite le_bytes_length. reflexivity. Qed.

Theorem gen_encode_length_eq n : Gen.encode_length n = Ok (encode_length n).
Proof.
  unfold Gen.encode_length, encode_length. rewrite gen_BYTES_PER_LENGTH_OFFSET. unfold BYTES_PER_LENGTH_OFFSET.
  unfold index_range, get_range. rewrite len_le_bytes_8.
  change ((0 <=? 4) && (4 <=? 8)) with true. cbv iota.
  unfold take, drop. change (N.to_nat (4 - 0)) with 4%nat. change (N.to_nat 0) with 0%nat.
  cbn [skipn bind]. change 8%nat with (4 + 4)%nat. rewrite firstn_le_bytes.
  unfold llen. rewrite le_bytes_length. change (N.of_nat 4 =? 4) with true. cbv iota.
  change 4294967296 with (256 ^ N.of_nat 4). rewrite le_bytes_mod. reflexivity.
Qed.

(** ** legacy four-byte selector helpers *)
Theorem gen_encode_four_byte_union_selector_eq n :
  Gen.encode_four_byte_union_selector n = Ok (encode_length n).
Proof. apply gen_encode_length_eq. Qed.
Theorem gen_read_four_byte_union_selector_eq bs :
  Gen.read_four_byte_union_selector bs = read_offset bs.
Proof. apply gen_read_offset_eq. Qed.

(** ** [bytes_for_bit_len] *)
Ltac Zify.zify_post_hook ::= Z.div_mod_to_equations.
Theorem gen_bytes_for_bit_len_eq n : Gen.bytes_for_bit_len n = Ok (bytes_for_bit_len n).
Proof.
  unfold Gen.bytes_for_bit_len, bytes_for_bit_len, div_ceil. f_equal. f_equal.
  destruct (n mod 8 =? 0) eqn:E; lia.
Qed.

(** ** [SszDecoderBuilder]: the generated record against the model's state *)
Definition off_abs (o : Gen.Offset) : boffset :=
  {| o_position := N.to_nat (Gen.Offset_position o); o_offset := Gen.Offset_offset o |}.
Definition st_abs (s : Gen.SszDecoderBuilder) : bstate :=
  {| b_items := Gen.SszDecoderBuilder_items s;
     b_offsets := map off_abs (Gen.SszDecoderBuilder_offsets s);
     b_index := Gen.SszDecoderBuilder_items_index s |}.

Lemma last_offset_abs os :
  option_map (fun o => Gen.Offset_offset o) (last_error os) = last_offset (map off_abs os).
Proof.
  unfold last_error, last_offset. rewrite <- map_rev. destruct (rev os); reflexivity.
Qed.

(** [register_type_parameterized]: same outcome, same new state, the input bytes untouched. *)
Theorem gen_builder_register_eq s f l :
  omap (fun s' => (Gen.SszDecoderBuilder_bytes s', st_abs s')) (Gen.builder_register s f l)
  = omap (fun st => (Gen.SszDecoderBuilder_bytes s, st)) (register (Gen.SszDecoderBuilder_bytes s) (st_abs s) f l).
Proof.
  unfold Gen.builder_register, register. destruct s as [bs items offs idx]; cbn [Gen.SszDecoderBuilder_bytes Gen.SszDecoderBuilder_items Gen.SszDecoderBuilder_offsets Gen.SszDecoderBuilder_items_index st_abs b_items b_offsets b_index].
  destruct f.
  - destruct (checked_add idx l) as [idx'|]; cbn [ok_or bind omap]; [|reflexivity].
    unfold Gen.set_SszDecoderBuilder_items_index; cbn [Gen.SszDecoderBuilder_bytes Gen.SszDecoderBuilder_items Gen.SszDecoderBuilder_offsets Gen.SszDecoderBuilder_items_index].
    destruct (get_range bs idx idx') as [sl|]; cbn [ok_or bind omap]; reflexivity.
  - destruct (index_from bs idx) as [rest| |]; cbn [bind omap]; try reflexivity.
    rewrite gen_read_offset_eq. destruct (read_offset rest) as [off| |]; cbn [bind omap]; try reflexivity.
    rewrite gen_sanitize_offset_eq, last_offset_abs, llen_len.
    destruct (sanitize_offset off (last_offset (map off_abs offs)) (len bs) None) as [off'| |]; cbn [bind omap]; try reflexivity.
    unfold Gen.set_SszDecoderBuilder_offsets, Gen.set_SszDecoderBuilder_items, Gen.set_SszDecoderBuilder_items_index;
      cbn [Gen.SszDecoderBuilder_bytes Gen.SszDecoderBuilder_items Gen.SszDecoderBuilder_offsets Gen.SszDecoderBuilder_items_index].
    rewrite gen_BYTES_PER_LENGTH_OFFSET.
    destruct (usize_add idx BYTES_PER_LENGTH_OFFSET) as [idx'| |]; cbn [bind omap]; try reflexivity.
    unfold st_abs; cbn [Gen.SszDecoderBuilder_bytes Gen.SszDecoderBuilder_items Gen.SszDecoderBuilder_offsets Gen.SszDecoderBuilder_items_index].
    rewrite map_app. cbn [map]. unfold off_abs at 2; cbn [Gen.Offset_position Gen.Offset_offset].
    unfold llen. rewrite Nnat.Nat2N.id. reflexivity.
Qed.

Lemma set_at_set_nth {A} (l : list A) p x : set_at_nat l p x = set_nth l p x.
Proof.
  (* the two fixpoints have the same body: convertible *)
  reflexivity.
Qed.

Lemma fold_windows_fill_pairs bs offs idx os items :
  fold_m (fun self pair =>
            do a <- index_at pair 0;
            do b <- index_at pair 1;
            do t <- index_range (Gen.SszDecoderBuilder_bytes self) (Gen.Offset_offset a) (Gen.Offset_offset b);
            do upd <- set_at (Gen.SszDecoderBuilder_items self) (Gen.Offset_position a) t;
            Ok (Gen.set_SszDecoderBuilder_items self upd))
         (windows2 os)
         {| Gen.SszDecoderBuilder_bytes := bs; Gen.SszDecoderBuilder_items := items;
            Gen.SszDecoderBuilder_offsets := offs; Gen.SszDecoderBuilder_items_index := idx |}
  = omap (fun it => {| Gen.SszDecoderBuilder_bytes := bs; Gen.SszDecoderBuilder_items := it;
                       Gen.SszDecoderBuilder_offsets := offs; Gen.SszDecoderBuilder_items_index := idx |})
         (fill_pairs bs (map off_abs os) items).
Proof.
  revert items. induction os as [|a r IH]; intro items; [reflexivity|].
  destruct r as [|b r']; [reflexivity|].
  change (windows2 (a :: b :: r')) with ([a; b] :: windows2 (b :: r')).
  cbn [fold_m map fill_pairs].
  unfold index_at at 1 2. change (N.to_nat 0) with 0%nat. change (N.to_nat 1) with 1%nat. cbn [nth_error bind].
  cbn [Gen.SszDecoderBuilder_bytes Gen.SszDecoderBuilder_items off_abs o_offset o_position].
  destruct (index_range bs (Gen.Offset_offset a) (Gen.Offset_offset b)) as [t| |]; cbn [bind omap]; try reflexivity.
  unfold set_at. change (@set_at_nat bytes) with (@set_nth bytes).
  destruct (set_nth items (N.to_nat (Gen.Offset_position a)) t) as [items'| |]; cbn [bind omap]; try reflexivity.
  unfold Gen.set_SszDecoderBuilder_items; cbn [Gen.SszDecoderBuilder_bytes Gen.SszDecoderBuilder_items Gen.SszDecoderBuilder_offsets Gen.SszDecoderBuilder_items_index].
  exact (IH items').
Qed.

(** [finalize]: the items handed to the decoder are the model's. *)
Theorem gen_builder_finalize_eq s :
  omap Gen.SszDecoderBuilder_items (Gen.builder_finalize s)
  = finalize (Gen.SszDecoderBuilder_bytes s) (st_abs s).
Proof.
  unfold Gen.builder_finalize, finalize. destruct s as [bs items offs idx].
  cbn [Gen.SszDecoderBuilder_bytes Gen.SszDecoderBuilder_items Gen.SszDecoderBuilder_offsets Gen.SszDecoderBuilder_items_index st_abs b_items b_offsets b_index].
  destruct offs as [|first rest].
  - cbn [hd_error option_map map]. rewrite llen_len.
    destruct (idx =? len bs); cbn [negb omap]; reflexivity.
  - cbn [hd_error option_map map off_abs o_offset].
    destruct (N.compare_spec (Gen.Offset_offset first) idx) as [E|L|G].
    + subst idx. rewrite N.ltb_irrefl.
      pose proof (fold_windows_fill_pairs bs (first :: rest) (Gen.Offset_offset first) (first :: rest) items) as F.
      cbn [map off_abs] in F. rewrite F. clear F.
      destruct (fill_pairs bs _ items) as [items'| |]; cbn [omap bind]; try reflexivity.
      cbn [Gen.SszDecoderBuilder_bytes Gen.SszDecoderBuilder_items Gen.SszDecoderBuilder_offsets].
      unfold last_error. change (off_abs first :: map off_abs rest) with (map off_abs (first :: rest)).
      rewrite <- map_rev. destruct (rev (first :: rest)) as [|lst ?]; cbn [map omap]; [reflexivity|].
      cbn [off_abs o_offset o_position].
      destruct (index_from bs (Gen.Offset_offset lst)) as [t| |]; cbn [bind omap]; try reflexivity.
      unfold set_at. change (@set_at_nat bytes) with (@set_nth bytes).
      destruct (set_nth items' (N.to_nat (Gen.Offset_position lst)) t); cbn [bind omap]; reflexivity.
    + apply N.ltb_lt in L. rewrite L. reflexivity.
    + assert (H1 : (Gen.Offset_offset first <? idx) = false) by (apply N.ltb_ge; lia).
      apply N.ltb_lt in G. rewrite H1, G. reflexivity.
Qed.

(** ** [SszEncoder] *)
Definition enc_abs (s : Gen.SszEncoder) : enc_state :=
  {| e_offset := Gen.SszEncoder_offset s; e_buf := Gen.SszEncoder_buf s; e_var := Gen.SszEncoder_variable_bytes s |}.

(** [append_parameterized]: equal to the model whenever the offset written fits a [usize]
    (the model states encoder facts for encodings shorter than 2^32 bytes) and the item's
    [ssz_append] closure returns ([Fn(&mut Vec<u8>)] closures are fallible in the translation: an
    item encoder that panics is a panic of the whole call). *)
Theorem gen_encoder_append_eq s f (app : bytes -> bytes) :
  Gen.SszEncoder_offset s + len (Gen.SszEncoder_variable_bytes s) <= usize_max ->
  omap enc_abs (Gen.encoder_append s f (fun b => Ok (app b))) = Ok (enc_append (enc_abs s) f app).
Proof.
  intro H. unfold Gen.encoder_append, enc_append. destruct s as [off buf var].
  cbn [Gen.SszEncoder_offset Gen.SszEncoder_buf Gen.SszEncoder_variable_bytes enc_abs e_offset e_buf e_var] in *.
  destruct f; [reflexivity|].
  unfold usize_add. rewrite llen_len.
  destruct (off + len var <=? usize_max) eqn:E; [|apply N.leb_gt in E; lia].
  cbn [bind]. rewrite gen_encode_length_eq. reflexivity.
Qed.

(** a panicking or failing item encoder is propagated, in either branch *)
Theorem gen_encoder_append_item_fails s f (app : bytes -> outcome bytes) :
  (forall b, app b = Panic) -> Gen.encoder_append s f app = Panic \/ (f = false /\ Gen.SszEncoder_offset s + len (Gen.SszEncoder_variable_bytes s) > usize_max).
Proof.
  intro H. unfold Gen.encoder_append. destruct f.
  - left. rewrite H. reflexivity.
  - unfold usize_add. rewrite llen_len.
    destruct (Gen.SszEncoder_offset s + len (Gen.SszEncoder_variable_bytes s) <=? usize_max) eqn:E.
    + left. cbn [bind]. rewrite gen_encode_length_eq. cbn [bind]. rewrite H. reflexivity.
    + right. split; [reflexivity|]. apply N.leb_gt in E. lia.
Qed.

(** [finalize]: the buffer is [buf ++ variable_bytes]. *)
Theorem gen_encoder_finalize_eq s :
  omap Gen.SszEncoder_buf (Gen.encoder_finalize s) = Ok (enc_finalize (enc_abs s)).
Proof. destruct s; reflexivity. Qed.

(** ** [Bitfield<T>]: the generic accessors and [from_raw_bytes] *)
Definition bf_abs (b : Gen.Bitfield) : bf := {| bf_bytes := Gen.Bitfield_bytes b; bf_len := Gen.Bitfield_len b |}.

Lemma get_at_nthN (l : bytes) i : get_at l i = nthN l i.
Proof.
  unfold get_at. revert i. induction l as [|x r IH]; intro i.
  - destruct (N.to_nat i); reflexivity.
  - cbn [nthN]. destruct (i =? 0) eqn:E.
    + apply N.eqb_eq in E. subst i. reflexivity.
    + apply N.eqb_neq in E. rewrite <- IH.
      replace (N.to_nat i) with (S (N.to_nat (i - 1))) by lia. reflexivity.
Qed.

Theorem gen_bitfield_len_eq b : Gen.bitfield_len b = Ok (bf_len (bf_abs b)).
Proof. reflexivity. Qed.
Theorem gen_bitfield_is_empty_eq b : Gen.bitfield_is_empty b = Ok (bf_len (bf_abs b) =? 0).
Proof. reflexivity. Qed.

Theorem gen_bitfield_get_eq b i : Gen.bitfield_get b i = bf_get (bf_abs b) i.
Proof.
  unfold Gen.bitfield_get, bf_get. destruct b as [bs l]; cbn [Gen.Bitfield_bytes Gen.Bitfield_len bf_abs bf_bytes bf_len].
  destruct (i <? l); [|reflexivity]. rewrite get_at_nthN.
  destruct (nthN bs (i / 8)); reflexivity.
Qed.

Theorem gen_bitfield_set_eq b i v : omap bf_abs (Gen.bitfield_set b i v) = bf_set (bf_abs b) i v.
Proof.
  unfold Gen.bitfield_set, bf_set. destruct b as [bs l]; cbn [Gen.Bitfield_bytes Gen.Bitfield_len bf_abs bf_bytes bf_len].
  destruct (i <? l); [|reflexivity]. rewrite get_at_nthN.
  destruct (nthN bs (i / 8)) as [byte|]; cbn [ok_or bind omap]; [|reflexivity].
  destruct v; reflexivity.
Qed.

Theorem gen_bitfield_from_raw_bytes_eq bs n :
  omap bf_abs (Gen.bitfield_from_raw_bytes bs n) = from_raw_bytes bs n.
Proof.
  unfold Gen.bitfield_from_raw_bytes, from_raw_bytes.
  destruct (n =? 0) eqn:E0.
  - destruct bs as [|b0 [|b1 r]].
    + reflexivity.
    + unfold llen, index_at. cbn [length N.of_nat N.eqb Pos.eqb Pos.of_succ_nat N.to_nat nth_error bind].
      destruct (b0 =? 0); reflexivity.
    + unfold llen. cbn [length]. replace (N.of_nat (S (S (length r))) =? 1) with false by (symmetry; apply N.eqb_neq; lia).
      reflexivity.
  - rewrite gen_bytes_for_bit_len_eq. cbn [bind]. rewrite llen_len.
    destruct (len bs =? bytes_for_bit_len n); cbn [negb omap]; [|reflexivity].
    unfold usize_sub.
    assert (H8 : ((n mod 4294967296) mod 8 <=? 8) = true) by (apply N.leb_le; pose proof (N.mod_lt (n mod 4294967296) 8); lia).
    rewrite H8. cbn [bind]. unfold last_error, unwrap_or_panic.
    destruct (rev bs) as [|lst ?]; cbn [bind omap]; [reflexivity|].
    destruct (N.land lst (not8 (overflowing_shr8 255 (8 - (n mod 4294967296) mod 8))) =? 0); reflexivity.
Qed.

(** ** [shift_up] and [difference_inplace]: loops over index ranges *)

(** A fold in the outcome monad commutes with an abstraction function that the body respects. *)
Lemma fold_m_abs {S T X} (abs : S -> T) (F : S -> X -> outcome S) (f : T -> X -> outcome T) l :
  (forall s x, omap abs (F s x) = f (abs s) x) ->
  forall s, omap abs (fold_m F l s) = fold_m f l (abs s).
Proof.
  intro H. induction l as [|x r IH]; intro s; [reflexivity|].
  cbn [fold_m]. specialize (H s x).
  destruct (F s x) as [s'| |]; destruct (f (abs s) x) as [t'| |]; cbn [omap bind] in *; try discriminate; try reflexivity.
  injection H as H. rewrite IH, H. reflexivity.
Qed.

(** The model writes its loops as [fold_left] over an [outcome] accumulator. *)
Lemma fold_left_outcome {T X} (f : T -> X -> outcome T) l : forall acc,
  fold_left (fun acc i => do cur <- acc; f cur i) l acc = bind acc (fold_m f l).
Proof.
  induction l as [|x r IH]; intro acc; cbn [fold_left fold_m].
  - destruct acc; reflexivity.
  - rewrite IH. destruct acc; reflexivity.
Qed.

Lemma rev_range_up lo hi : rev (range_up lo hi) = range_down lo hi.
Proof. unfold range_up, range_down. rewrite map_rev. reflexivity. Qed.

Lemma shift_up_fold b n :
  shift_up b n =
  if n <=? bf_len b then
    do b1 <- fold_m (fun cur i => do x <- bf_get cur (i - n); bf_set cur i x) (range_down n (bf_len b)) b;
    fold_m (fun cur i => match bf_set cur i false with Ok c => Ok c | _ => Panic end) (range_up 0 n) b1
  else Err.
Proof.
  unfold shift_up. destruct (n <=? bf_len b); [|reflexivity].
  rewrite (fold_left_outcome (fun cur i => do x <- bf_get cur (i - n); bf_set cur i x)). cbn [bind].
  destruct (fold_m _ (range_down n (bf_len b)) b); cbn [bind]; try reflexivity.
  rewrite (fold_left_outcome (fun cur i => match bf_set cur i false with Ok c => Ok c | _ => Panic end)).
  reflexivity.
Qed.

Theorem gen_bitfield_shift_up_eq b n :
  omap bf_abs (Gen.bitfield_shift_up b n) = shift_up (bf_abs b) n.
Proof.
  rewrite shift_up_fold. unfold Gen.bitfield_shift_up. rewrite gen_bitfield_len_eq. cbn [bind].
  destruct (n <=? bf_len (bf_abs b)) eqn:E; [|reflexivity].
  rewrite rev_range_up.
  change (Gen.Bitfield_len b) with (bf_len (bf_abs b)).
  set (F1 := fun (self : Gen.Bitfield) (i : N) =>
               do t <- usize_sub i n; do q <- Gen.bitfield_get self t; do st <- Gen.bitfield_set self i q; Ok st).
  set (F2 := fun (self : Gen.Bitfield) (i : N) => do st <- unwrap_res (Gen.bitfield_set self i false); Ok st).
  assert (H1 : forall l s, (forall i, In i l -> n <= i) ->
            omap bf_abs (fold_m F1 l s) = fold_m (fun cur i => do x <- bf_get cur (i - n); bf_set cur i x) l (bf_abs s)).
  { induction l as [|i r IH]; intros s Hin; [reflexivity|]. cbn [fold_m]. unfold F1 at 1.
    unfold usize_sub. assert (Hi : (n <=? i) = true) by (apply N.leb_le, Hin; left; reflexivity).
    rewrite Hi. cbn [bind]. rewrite gen_bitfield_get_eq.
    destruct (bf_get (bf_abs s) (i - n)) as [x| |]; cbn [bind omap]; try reflexivity.
    pose proof (gen_bitfield_set_eq s i x) as Es.
    destruct (Gen.bitfield_set s i x) as [s'| |]; destruct (bf_set (bf_abs s) i x) as [t'| |];
      cbn [omap bind] in *; try discriminate; try reflexivity.
    injection Es as Es. rewrite <- Es. apply IH. intros j Hj. apply Hin. right. exact Hj. }
  assert (H2 : forall l s,
            omap bf_abs (fold_m F2 l s) = fold_m (fun cur i => match bf_set cur i false with Ok c => Ok c | _ => Panic end) l (bf_abs s)).
  { intro l. apply fold_m_abs. intros s i. unfold F2.
    pose proof (gen_bitfield_set_eq s i false) as Es.
    destruct (Gen.bitfield_set s i false) as [s'| |]; destruct (bf_set (bf_abs s) i false) as [t'| |];
      cbn [omap bind unwrap_res] in *; try discriminate; try reflexivity.
    injection Es as Es. rewrite Es. reflexivity. }
  specialize (H1 (range_down n (bf_len (bf_abs b))) b).
  assert (Hr : forall i, In i (range_down n (bf_len (bf_abs b))) -> n <= i).
  { intros i Hi. unfold range_down in Hi. apply in_map_iff in Hi. destruct Hi as (k & Hk & _). lia. }
  specialize (H1 Hr).
  destruct (fold_m F1 (range_down n (bf_len (bf_abs b))) b) as [s1| |];
    destruct (fold_m (fun cur i => do x <- bf_get cur (i - n); bf_set cur i x) (range_down n (bf_len (bf_abs b))) (bf_abs b)) as [t1| |];
    cbn [omap bind] in *; try discriminate; try reflexivity.
  injection H1 as H1. rewrite <- H1.
  specialize (H2 (range_up 0 n) s1).
  destruct (fold_m F2 (range_up 0 n) s1) as [s2| |]; cbn [omap bind] in *; rewrite <- H2; reflexivity.
Qed.

(** [difference_inplace]: the index loop over the common byte prefix is the pointwise [a & !o]. *)
Lemma range_up_S k : range_up 0 (N.succ k) = range_up 0 k ++ [k].
Proof.
  unfold range_up. rewrite !N.sub_0_r. rewrite Nnat.N2Nat.inj_succ, seq_S, map_app.
  cbn [map Nat.add]. rewrite Nnat.N2Nat.id. reflexivity.
Qed.

Lemma fold_m_app {S X} (F : S -> X -> outcome S) l1 l2 s :
  fold_m F (l1 ++ l2) s = do s' <- fold_m F l1 s; fold_m F l2 s'.
Proof.
  revert s. induction l1 as [|x r IH]; intro s; cbn [app fold_m bind]; [reflexivity|].
  destruct (F s x); cbn [bind]; [apply IH | reflexivity | reflexivity].
Qed.

Lemma diff_bytes_step (a o : bytes) k x y :
  nth_error a k = Some x -> nth_error o k = Some y ->
  set_at_nat (diff_bytes (firstn k a) (firstn k o) ++ skipn k a) k (N.land x (not8 y))
  = Ok (diff_bytes (firstn (S k) a) (firstn (S k) o) ++ skipn (S k) a)
  /\ nth_error (diff_bytes (firstn k a) (firstn k o) ++ skipn k a) k = Some x.
Proof.
  revert a o. induction k as [|k IH]; intros a o Ha Ho.
  - destruct a as [|a0 ar]; [discriminate|]. destruct o as [|o0 or]; [discriminate|].
    cbn in Ha, Ho. injection Ha as ->. injection Ho as ->. split; reflexivity.
  - destruct a as [|a0 ar]; [discriminate|]. destruct o as [|o0 or]; [discriminate|].
    cbn [nth_error] in Ha, Ho. destruct (IH ar or Ha Ho) as (H1 & H2).
    cbn [firstn skipn diff_bytes app set_at_nat nth_error]. rewrite H1. split; [reflexivity | exact H2].
Qed.

Lemma diff_bytes_prefix (a o : bytes) :
  diff_bytes (firstn (Nat.min (length a) (length o)) a) (firstn (Nat.min (length a) (length o)) o)
  ++ skipn (Nat.min (length a) (length o)) a = diff_bytes a o.
Proof.
  revert o. induction a as [|x ar IH]; intro o; [reflexivity|].
  destruct o as [|y or]; [reflexivity|]. cbn [length Nat.min firstn skipn diff_bytes app]. f_equal. apply IH.
Qed.

Theorem gen_bitfield_difference_inplace_eq a o :
  omap bf_abs (Gen.bitfield_difference_inplace a o) = Ok (difference_inplace (bf_abs a) (bf_abs o)).
Proof.
  unfold Gen.bitfield_difference_inplace, difference_inplace.
  destruct a as [ab al], o as [ob ol]; cbn [Gen.Bitfield_bytes Gen.Bitfield_len bf_abs bf_bytes bf_len].
  set (F := fun (self : Gen.Bitfield) (i : N) =>
              do t1 <- index_at (Gen.Bitfield_bytes self) i;
              do t2 <- index_at ob i;
              do upd <- set_at (Gen.Bitfield_bytes self) i (N.land t1 (not8 t2));
              Ok (Gen.set_Bitfield_bytes self upd)).
  assert (H : forall k, (k <= length ab)%nat -> (k <= length ob)%nat ->
            fold_m F (range_up 0 (N.of_nat k)) {| Gen.Bitfield_bytes := ab; Gen.Bitfield_len := al |}
            = Ok {| Gen.Bitfield_bytes := diff_bytes (firstn k ab) (firstn k ob) ++ skipn k ab; Gen.Bitfield_len := al |}).
  { induction k as [|k IH]; intros Ha Ho; [reflexivity|].
    rewrite Nnat.Nat2N.inj_succ, range_up_S, fold_m_app, IH by lia. cbn [bind fold_m].
    destruct (nth_error ab k) as [x|] eqn:Ex; [|apply nth_error_None in Ex; lia].
    destruct (nth_error ob k) as [y|] eqn:Ey; [|apply nth_error_None in Ey; lia].
    destruct (diff_bytes_step ab ob k x y Ex Ey) as (H1 & H2).
    unfold F at 1. cbn [Gen.Bitfield_bytes]. unfold index_at, set_at. rewrite Nnat.Nat2N.id, H2, Ey. cbn [bind].
    rewrite H1. reflexivity. }
  set (k := Nat.min (length ab) (length ob)).
  replace (N.min (llen ab) (llen ob)) with (N.of_nat k) by (unfold llen, k; lia).
  change (fold_m _ (range_up 0 (N.of_nat k)) _) with (fold_m F (range_up 0 (N.of_nat k)) {| Gen.Bitfield_bytes := ab; Gen.Bitfield_len := al |}).
  rewrite H by (unfold k; lia). cbn [bind omap bf_abs Gen.Bitfield_bytes Gen.Bitfield_len].
  unfold k. rewrite diff_bytes_prefix. reflexivity.
Qed.

(** The equivalences rest on no axioms. *)
Print Assumptions gen_sanitize_offset_eq.
Print Assumptions gen_read_offset_eq.
Print Assumptions gen_split_union_bytes_eq.
Print Assumptions gen_encode_length_eq.
Print Assumptions gen_bytes_for_bit_len_eq.
Print Assumptions gen_builder_register_eq.
Print Assumptions gen_builder_finalize_eq.
Print Assumptions gen_encoder_append_eq.
Print Assumptions gen_encoder_finalize_eq.
Print Assumptions gen_bitfield_get_eq.
Print Assumptions gen_bitfield_set_eq.
Print Assumptions gen_bitfield_from_raw_bytes_eq.
Print Assumptions gen_bitfield_shift_up_eq.
Print Assumptions gen_bitfield_difference_inplace_eq.
