(** * Hex: model of [ethereum_serde_utils::hex::{encode, PrefixedHexVisitor}] and of the serde
    impls of the bitfield types (ssz/src/bitfield.rs:648-690, bitvector_dynamic.rs:120-138).
    Strings are lists of character codes.  The hex crate is third-party: its behaviour is
    assumed here and tied by the C18 correspondence.  Definitions only. *)
From SSZ Require Export BitfieldOps.

(* [str], [hex_encode], [prefixed_hex_decode] and their helpers are in RustSem.v: the translated serde impls
   of the crate name them as primitives. *)

(** [Serialize]: [serialize_str(&hex_encode(self.as_ssz_bytes()))] *)
Definition serde_ser (fl : flavour) (b : bf) : str := hex_encode (i_ssz fl b).
(** [Deserialize]: [PrefixedHexVisitor] then [from_ssz_bytes] *)
Definition serde_de (fl : flavour) (s : str) : outcome bf :=
  match prefixed_hex_decode s with
  | Some bs => i_decode fl bs
  | None => Err
  end.
