(** * Hex: model of [ethereum_serde_utils::hex::{encode, PrefixedHexVisitor}] and of the serde
    impls of the bitfield types (ssz/src/bitfield.rs:648-690, bitvector_dynamic.rs:120-138).
    Strings are lists of character codes.  The hex crate is third-party: its behaviour is
    assumed here and tied by the C18 correspondence.  Definitions only. *)
From SSZ Require Export BitfieldOps.

Definition str := list N.

Definition hex_digit (d : N) : N := if d <? 10 then 48 + d else 87 + d.     (* '0'..'9', 'a'..'f' *)
Definition hex_of_bytes (bs : bytes) : str :=
  concat (map (fun b => [hex_digit (b / 16); hex_digit (b mod 16)]) bs).
(** [hex::encode]: "0x" followed by lowercase hex *)
Definition hex_encode (bs : bytes) : str := 48 :: 120 :: hex_of_bytes bs.

Definition digit_val (c : N) : option N :=
  if (48 <=? c) && (c <=? 57) then Some (c - 48)
  else if (97 <=? c) && (c <=? 102) then Some (c - 87)
  else if (65 <=? c) && (c <=? 70) then Some (c - 55)
  else None.
(** even-length strings over [0-9a-fA-F] *)
Fixpoint bytes_of_hex (s : str) : option bytes :=
  match s with
  | [] => Some []
  | [_] => None
  | a :: b :: r =>
      match digit_val a, digit_val b, bytes_of_hex r with
      | Some x, Some y, Some bs => Some (16 * x + y :: bs)
      | _, _, _ => None
      end
  end.
(** [PrefixedHexVisitor]: the string must start with "0x" *)
Definition prefixed_hex_decode (s : str) : option bytes :=
  match s with
  | 48 :: 120 :: r => bytes_of_hex r
  | _ => None
  end.

(** [Serialize]: [serialize_str(&hex_encode(self.as_ssz_bytes()))] *)
Definition serde_ser (fl : flavour) (b : bf) : str := hex_encode (i_ssz fl b).
(** [Deserialize]: [PrefixedHexVisitor] then [from_ssz_bytes] *)
Definition serde_de (fl : flavour) (s : str) : outcome bf :=
  match prefixed_hex_decode s with
  | Some bs => i_decode fl bs
  | None => Err
  end.
