(** * Size metadata: the Encode side and the Decode side agree (C07, static part). *)
From SSZ Require Import Base BaseFacts Offsets Types Codec Spec CodecUnfold.
Open Scope N_scope.

Lemma forallb_ext_Forall {A} (f g : A -> bool) l :
  Forall (fun x => f x = g x) l -> forallb f l = forallb g l.
Proof. induction 1 as [|x l Hx _ IH]; cbn [forallb]; [reflexivity|]. now rewrite Hx, IH. Qed.
Lemma map_ext_Forall {A B} (f g : A -> B) l :
  Forall (fun x => f x = g x) l -> map f l = map g l.
Proof. induction 1 as [|x l Hx _ IH]; cbn [map]; [reflexivity|]. now rewrite Hx, IH. Qed.

Lemma is_fixed_agree t : e_is_fixed t = d_is_fixed t.
Proof.
  (* the two functions are separate definitions mirroring separate trait impls; they are
     structurally identical, which the kernel sees by conversion *)
  reflexivity.
Qed.

Lemma fixed_len_agree t : e_fixed_len t = d_fixed_len t.
Proof.
  reflexivity.
Qed.

Lemma variable_fixed_len t : e_is_fixed t = false -> e_fixed_len t = 4.
Proof.
  induction t using ty_ind'; try discriminate; try reflexivity; try assumption.
  rewrite e_is_fixed_container, e_fixed_len_container. now intros ->.
Qed.

Lemma is_variable_spec t : is_variable t = negb (e_is_fixed t).
Proof.
  induction t using ty_ind'; try reflexivity; try assumption.
  rewrite is_variable_container, e_is_fixed_container.
  induction H as [|f fs Hf _ IH]; cbn [existsb forallb]; [reflexivity|].
  rewrite Hf, IH. now destruct (e_is_fixed f), (forallb e_is_fixed fs).
Qed.
