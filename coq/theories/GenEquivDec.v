(** * GenEquivDec: the [Decode] impls that [rs2v] derives from the Rust text of
    ssz/src/decode/impls.rs ([Generated.v]: the unsigned integers (from the [impl_decodable_for_uint!]
    macro, expanded), [bool], [NonZeroUsize], [Option<T>], [Arc<T>], [[u8; N]], the alloy types,
    [Vec<T>] and [decode_list_of_variable_length_items]) are the corresponding cases of the
    type-generic model decoder [Codec.dec].

    Trait-generic code is translated in dictionary-passing style: [impl<T: Decode> Decode for
    Option<T>] becomes a definition taking [T::from_ssz_bytes] (and [T::is_ssz_fixed_len],
    [T::ssz_fixed_len] when used) as parameters.  Instantiating the dictionary with the model's
    own [dec t] / [d_is_fixed t] / [d_fixed_len t] gives the recursive case of [dec]: the model's
    recursion over type expressions is the source's trait resolution. *)
From SSZ Require Import Base RustSem Offsets Bitfield Types Builder Codec BaseFacts OffsetsFacts Generated GenEquiv.
From Coq Require Import ZArith ZifyN ZifyBool ZifyNat Lia.
Open Scope N_scope.
Ltac Zify.zify_post_hook ::= Z.div_mod_to_equations.

(** ** unsigned integers: the expanded [impl_decodable_for_uint!] instances *)
Lemma uint_shape (k : N) (bs : bytes) :
  (let len_ := llen bs in
   do t <- Ok k;
   let expected := t in
   if negb (len_ =? expected) then Err
   else if llen bs =? k then let array := bs in Ok (le_val array) else Panic)
  = if len bs =? k then Ok (le_val bs) else Err.
Proof. cbn [bind]. rewrite llen_len. destruct (len bs =? k); reflexivity. Qed.

Theorem gen_u8_from_ssz_bytes_eq bs : omap VUint (Gen.u8_from_ssz_bytes bs) = dec (TUint 1) bs.
Proof. unfold Gen.u8_from_ssz_bytes, Gen.u8_dec_ssz_fixed_len. rewrite (uint_shape (8 / 8)). cbn [dec]. change (N.of_nat 1) with (8 / 8). destruct (len bs =? 8 / 8); reflexivity. Qed.
Theorem gen_u16_from_ssz_bytes_eq bs : omap VUint (Gen.u16_from_ssz_bytes bs) = dec (TUint 2) bs.
Proof. unfold Gen.u16_from_ssz_bytes, Gen.u16_dec_ssz_fixed_len. rewrite (uint_shape (16 / 8)). cbn [dec]. change (N.of_nat 2) with (16 / 8). destruct (len bs =? 16 / 8); reflexivity. Qed.
Theorem gen_u32_from_ssz_bytes_eq bs : omap VUint (Gen.u32_from_ssz_bytes bs) = dec (TUint 4) bs.
Proof. unfold Gen.u32_from_ssz_bytes, Gen.u32_dec_ssz_fixed_len. rewrite (uint_shape (32 / 8)). cbn [dec]. change (N.of_nat 4) with (32 / 8). destruct (len bs =? 32 / 8); reflexivity. Qed.
Theorem gen_u64_from_ssz_bytes_eq bs : omap VUint (Gen.u64_from_ssz_bytes bs) = dec (TUint 8) bs.
Proof. unfold Gen.u64_from_ssz_bytes, Gen.u64_dec_ssz_fixed_len. rewrite (uint_shape (64 / 8)). cbn [dec]. change (N.of_nat 8) with (64 / 8). destruct (len bs =? 64 / 8); reflexivity. Qed.
Theorem gen_u128_from_ssz_bytes_eq bs : omap VUint (Gen.u128_from_ssz_bytes bs) = dec (TUint 16) bs.
Proof. unfold Gen.u128_from_ssz_bytes, Gen.u128_dec_ssz_fixed_len. rewrite (uint_shape (128 / 8)). cbn [dec]. change (N.of_nat 16) with (128 / 8). destruct (len bs =? 128 / 8); reflexivity. Qed.
Theorem gen_usize_from_ssz_bytes_eq bs : omap VUint (Gen.usize_from_ssz_bytes bs) = dec (TUint 8) bs.
Proof. unfold Gen.usize_from_ssz_bytes, Gen.usize_dec_ssz_fixed_len. rewrite (uint_shape (64 / 8)). cbn [dec]. change (N.of_nat 8) with (64 / 8). destruct (len bs =? 64 / 8); reflexivity. Qed.

(** the metadata of the same impls *)
Theorem gen_uint_metadata :
  Gen.u8_dec_is_ssz_fixed_len = Ok (d_is_fixed (TUint 1)) /\ Gen.u8_dec_ssz_fixed_len = Ok (d_fixed_len (TUint 1)) /\
  Gen.u16_dec_is_ssz_fixed_len = Ok (d_is_fixed (TUint 2)) /\ Gen.u16_dec_ssz_fixed_len = Ok (d_fixed_len (TUint 2)) /\
  Gen.u32_dec_is_ssz_fixed_len = Ok (d_is_fixed (TUint 4)) /\ Gen.u32_dec_ssz_fixed_len = Ok (d_fixed_len (TUint 4)) /\
  Gen.u64_dec_is_ssz_fixed_len = Ok (d_is_fixed (TUint 8)) /\ Gen.u64_dec_ssz_fixed_len = Ok (d_fixed_len (TUint 8)) /\
  Gen.u128_dec_is_ssz_fixed_len = Ok (d_is_fixed (TUint 16)) /\ Gen.u128_dec_ssz_fixed_len = Ok (d_fixed_len (TUint 16)) /\
  Gen.usize_dec_is_ssz_fixed_len = Ok (d_is_fixed (TUint 8)) /\ Gen.usize_dec_ssz_fixed_len = Ok (d_fixed_len (TUint 8)).
Proof. repeat split; reflexivity. Qed.

(** ** [bool], [NonZeroUsize] *)
Theorem gen_bool_from_ssz_bytes_eq bs : omap VBool (Gen.bool_from_ssz_bytes bs) = dec TBool bs.
Proof.
  unfold Gen.bool_from_ssz_bytes, Gen.bool_dec_ssz_fixed_len. cbn [bind dec]. unfold dec_bool.
  destruct bs as [|b [|c r]].
  - reflexivity.
  - unfold llen, index_at. cbn [length N.of_nat N.eqb Pos.eqb Pos.of_succ_nat negb N.to_nat nth_error bind].
    destruct (b =? 0); [reflexivity|]. destruct (b =? 1); reflexivity.
  - unfold llen. cbn [length]. replace (N.of_nat (S (S (length r))) =? 1) with false by (symmetry; apply N.eqb_neq; lia).
    reflexivity.
Qed.
Theorem gen_bool_metadata :
  Gen.bool_dec_is_ssz_fixed_len = Ok (d_is_fixed TBool) /\ Gen.bool_dec_ssz_fixed_len = Ok (d_fixed_len TBool).
Proof. split; reflexivity. Qed.

Theorem gen_nonzero_from_ssz_bytes_eq bs : omap VUint (Gen.nonzero_from_ssz_bytes bs) = dec TNonZero bs.
Proof.
  unfold Gen.nonzero_from_ssz_bytes. pose proof (gen_usize_from_ssz_bytes_eq bs) as H. cbn [dec] in *.
  change (N.of_nat 8) with 8 in H.
  destruct (Gen.usize_from_ssz_bytes bs) as [x| |]; destruct (len bs =? 8); cbn [omap bind] in *; try discriminate; try reflexivity.
  injection H as ->. unfold nonzero_new. destruct (le_val bs =? 0); reflexivity.
Qed.
Theorem gen_nonzero_metadata :
  Gen.nonzero_dec_is_ssz_fixed_len = Ok (d_is_fixed TNonZero) /\ Gen.nonzero_dec_ssz_fixed_len = Ok (d_fixed_len TNonZero).
Proof. split; reflexivity. Qed.

(** ** [Option<T>], [Arc<T>]: the dictionary is the model decoder of the parameter *)
Definition opt_val (o : option val) : val := match o with Some v => VSome v | None => VNone end.

Theorem gen_option_from_ssz_bytes_eq t bs :
  omap opt_val (Gen.option_from_ssz_bytes (dec t) bs) = dec (TOption t) bs.
Proof.
  unfold Gen.option_from_ssz_bytes. cbn [dec]. rewrite gen_split_union_bytes_eq.
  destruct (split_union_bytes bs) as [[sel body]| |]; cbn [bind omap]; try reflexivity.
  destruct (sel =? 0) eqn:E0; cbn [andb].
  - destruct body as [|x r]; [reflexivity|]. unfold llen. cbn [length].
    replace (N.of_nat (S (length r)) =? 0) with false by (symmetry; apply N.eqb_neq; lia). reflexivity.
  - destruct (sel =? 1); [|reflexivity]. destruct (dec t body); reflexivity.
Qed.
Theorem gen_option_metadata : Gen.option_dec_is_ssz_fixed_len = Ok false. Proof. reflexivity. Qed.

Theorem gen_arc_from_ssz_bytes_eq t bs : Gen.arc_from_ssz_bytes (dec t) bs = dec (TWrap t) bs.
Proof. unfold Gen.arc_from_ssz_bytes. cbn [dec]. destruct (dec t bs); reflexivity. Qed.
Theorem gen_arc_metadata t :
  Gen.arc_dec_is_ssz_fixed_len (d_is_fixed t) = Ok (d_is_fixed (TWrap t)) /\
  Gen.arc_dec_ssz_fixed_len (d_fixed_len t) = Ok (d_fixed_len (TWrap t)).
Proof. split; reflexivity. Qed.

(** ** byte arrays and the alloy types *)
Lemma array_shape (k : N) (bs : bytes) :
  (let len_ := llen bs in
   do t <- Ok k;
   let expected := t in
   if negb (len_ =? expected) then Err
   else if llen bs =? k then let array := bs in Ok array else Panic)
  = if len bs =? k then Ok bs else Err.
Proof. cbn [bind]. rewrite llen_len. destruct (len bs =? k); reflexivity. Qed.

Theorem gen_array_from_ssz_bytes_eq n bs :
  omap VBytes (Gen.array_from_ssz_bytes (N.of_nat n) bs) = dec (TBytesN n) bs.
Proof.
  unfold Gen.array_from_ssz_bytes, Gen.array_dec_ssz_fixed_len. rewrite (array_shape (N.of_nat n)). cbn [dec].
  destruct (len bs =? N.of_nat n); reflexivity.
Qed.
Theorem gen_fixedbytes_from_ssz_bytes_eq n bs :
  omap VBytes (Gen.fixedbytes_from_ssz_bytes (N.of_nat n) bs) = dec (TBytesN n) bs.
Proof.
  unfold Gen.fixedbytes_from_ssz_bytes. cbn [dec]. rewrite llen_len.
  destruct (len bs =? N.of_nat n); reflexivity.
Qed.
Theorem gen_address_from_ssz_bytes_eq bs : omap VBytes (Gen.address_from_ssz_bytes bs) = dec (TBytesN 20) bs.
Proof.
  unfold Gen.address_from_ssz_bytes, Gen.address_dec_ssz_fixed_len, from_slice_exact. cbn [bind dec]. rewrite llen_len.
  change (N.of_nat 20) with 20. destruct (len bs =? 20); reflexivity.
Qed.
Theorem gen_bloom_from_ssz_bytes_eq bs : omap VBytes (Gen.bloom_from_ssz_bytes bs) = dec (TBytesN 256) bs.
Proof.
  unfold Gen.bloom_from_ssz_bytes, Gen.bloom_dec_ssz_fixed_len, from_slice_exact. cbn [bind dec]. rewrite llen_len.
  change (N.of_nat 256) with 256. destruct (len bs =? 256); reflexivity.
Qed.
Theorem gen_alloy_bytes_from_ssz_bytes_eq bs : omap VBytes (Gen.alloy_bytes_from_ssz_bytes bs) = dec TByteList bs.
Proof. reflexivity. Qed.

(** ruint's [from_le_slice] panics when the value does not fit; after the length check it always fits,
    because the slice consists of bytes *)
Theorem gen_u256_from_ssz_bytes_eq bs : wfb bs -> omap VUint (Gen.u256_from_ssz_bytes bs) = dec (TUint 32) bs.
Proof.
  intro Hw. unfold Gen.u256_from_ssz_bytes, Gen.u256_dec_ssz_fixed_len, uint_from_le_slice. cbn [bind dec]. rewrite llen_len.
  change (N.of_nat 32) with 32. destruct (len bs =? 32) eqn:E; cbn [negb]; [|reflexivity].
  apply N.eqb_eq in E. pose proof (le_val_bound bs Hw) as Hb.
  assert (Hl : N.of_nat (length bs) = 32) by exact E. rewrite Hl in Hb.
  destruct (le_val bs <? 256 ^ 32) eqn:E2; [reflexivity | apply N.ltb_ge in E2; lia].
Qed.
Theorem gen_alloy_u128_from_ssz_bytes_eq bs : wfb bs -> omap VUint (Gen.alloy_u128_from_ssz_bytes bs) = dec (TUint 16) bs.
Proof.
  intro Hw. unfold Gen.alloy_u128_from_ssz_bytes, Gen.alloy_u128_dec_ssz_fixed_len, uint_from_le_slice. cbn [bind dec]. rewrite llen_len.
  change (N.of_nat 16) with 16. destruct (len bs =? 16) eqn:E; cbn [negb]; [|reflexivity].
  apply N.eqb_eq in E. pose proof (le_val_bound bs Hw) as Hb.
  assert (Hl : N.of_nat (length bs) = 16) by exact E. rewrite Hl in Hb.
  destruct (le_val bs <? 256 ^ 16) eqn:E2; [reflexivity | apply N.ltb_ge in E2; lia].
Qed.

(** ** [decode_list_of_variable_length_items] into a [Vec]: the stateful closure of the source is the
    model's item iterator *)
Lemma range_up_cons i hi : i < hi -> range_up i hi = i :: range_up (i + 1) hi.
Proof.
  intro H. unfold range_up. replace (N.to_nat (hi - i)) with (S (N.to_nat (hi - (i + 1)))) by lia.
  rewrite <- cons_seq, <- seq_shift, map_cons, map_map. f_equal; [lia|]. apply map_ext. intro k. lia.
Qed.
Lemma range_up_nil i hi : hi <= i -> range_up i hi = [].
Proof. intro H. unfold range_up. replace (N.to_nat (hi - i)) with O by lia. reflexivity. Qed.

Section ListDecoder.
  Context {A : Type} (d : bytes -> outcome A) (bs : bytes) (first num : N).

  (** the closure [|i| { .. }] of the source with its captured [offset] as an explicit state *)
  Definition item_closure (offset i : N) : outcome (A * N) :=
    if i =? num then
      let slice_option := get_from bs offset in
      do q <- ok_or slice_option; let slice := q in do r <- d slice; Ok (r, offset)
    else
      let start := offset in
      do t7 <- usize_mul i Gen.BYTES_PER_LENGTH_OFFSET;
      do t8 <- index_from bs t7;
      do q9 <- Gen.read_offset t8;
      let next_offset := q9 in
      do q10 <- Gen.sanitize_offset next_offset (Some offset) (llen bs) (Some first);
      let offset := q10 in
      let slice_option := get_range bs start offset in
      do q11 <- ok_or slice_option; let slice := q11 in do r <- d slice; Ok (r, offset).

  Lemma items_eq : 4 * num <= usize_max -> forall fuel i offset,
    N.of_nat fuel + i = num + 1 -> 1 <= i ->
    omap fst (map_state item_closure (range_up i (num + 1)) offset)
    = fst (lv_items d bs first num fuel i offset).
  Proof.
    intros Hmax. induction fuel as [|fuel IH]; intros i offset Hf Hi.
    - rewrite range_up_nil by lia. reflexivity.
    - rewrite range_up_cons by lia. cbn [map_state lv_items]. unfold item_closure at 1.
      destruct (i =? num) eqn:E.
      + destruct (get_from bs offset) as [s|]; cbn [ok_or bind]; [|reflexivity].
        destruct (d s) as [x| |]; cbn [bind snd fst]; try reflexivity.
        apply N.eqb_eq in E. assert (fuel = O) by lia. subst fuel.
        rewrite range_up_nil by lia. reflexivity.
      + apply N.eqb_neq in E. rewrite gen_BYTES_PER_LENGTH_OFFSET. unfold BYTES_PER_LENGTH_OFFSET at 1.
        unfold usize_mul. destruct (i * 4 <=? usize_max) eqn:Em; [|apply N.leb_gt in Em; lia]. cbn [bind].
        unfold BYTES_PER_LENGTH_OFFSET.
        destruct (index_from bs (i * 4)) as [rest| |]; cbn [bind]; try reflexivity.
        rewrite gen_read_offset_eq. destruct (read_offset rest) as [next| |]; cbn [bind]; try reflexivity.
        rewrite gen_sanitize_offset_eq, llen_len.
        destruct (sanitize_offset next (Some offset) (len bs) (Some first)) as [off'| |]; cbn [bind]; try reflexivity.
        destruct (get_range bs offset off') as [s|]; cbn [ok_or bind]; [|reflexivity].
        destruct (d s) as [x| |]; cbn [bind snd fst]; try reflexivity.
        specialize (IH (i + 1) off' ltac:(lia) ltac:(lia)).
        destruct (map_state item_closure (range_up (i + 1) (num + 1)) off') as [[xs o2]| |];
          destruct (lv_items d bs first num fuel (i + 1) off') as [[ys| |] cnt];
          cbn [omap fst snd bind] in *; try discriminate; try reflexivity.
        injection IH as <-. reflexivity.
  Qed.
End ListDecoder.

Theorem gen_decode_list_vec_eq {A} (d : bytes -> outcome A) bs max_len :
  len bs <= usize_max ->
  Gen.decode_list_of_variable_length_items d vec_try_from_iter bs max_len = decode_list_var d CVec bs max_len.
Proof.
  intro Hphys. unfold Gen.decode_list_of_variable_length_items, decode_list_var, decode_list_var_full.
  rewrite llen_len. destruct bs as [|b0 br] eqn:Ebs; [reflexivity|]. rewrite <- Ebs in *.
  replace (len bs =? 0) with false by (symmetry; apply N.eqb_neq; subst bs; unfold len; cbn [length]; lia).
  rewrite gen_read_offset_eq. destruct (read_offset bs) as [first| |] eqn:Er; cbn [bind fst]; try reflexivity.
  rewrite gen_sanitize_offset_eq.
  destruct (sanitize_offset first None (len bs) (Some first)) as [x| |] eqn:Es; cbn [bind fst]; try reflexivity.
  rewrite gen_BYTES_PER_LENGTH_OFFSET. unfold BYTES_PER_LENGTH_OFFSET.
  unfold usize_rem, usize_div. change (4 =? 0) with false. cbv iota. cbn [bind].
  destruct (negb (first mod 4 =? 0) || (first <? 4)) eqn:Ec; [reflexivity|]. cbn [fst]. cbv zeta.
  destruct (is_some_and max_len (fun m => m <? first / 4)) eqn:Em.
  - reflexivity.
  - cbn [fst].
    (* first <= len bs: from sanitize_offset *)
    assert (Hfirst : first <= len bs).
    { unfold sanitize_offset in Es. cbn [is_some_and is_none] in Es.
      destruct (first <? first); [discriminate|]. cbn [andb] in Es.
      destruct (negb (first =? first)); [discriminate|].
      destruct (len bs <? first) eqn:El; [discriminate|]. apply N.ltb_ge in El. exact El. }
    apply Bool.orb_false_iff in Ec. destruct Ec as (Ec1 & Ec2).
    apply Bool.negb_false_iff, N.eqb_eq in Ec1. apply N.ltb_ge in Ec2.
    set (num := first / 4).
    assert (Hnum : 4 * num <= usize_max) by (unfold num; lia).
    assert (Hnum1 : 1 <= num) by (unfold num; lia).
    change (map_state _ (range_incl 1 num) first) with (map_state (item_closure d bs first num) (range_up 1 (num + 1)) first).
    pose proof (items_eq d bs first num Hnum (N.to_nat num) 1 first ltac:(lia) ltac:(lia)) as HI.
    destruct (map_state (item_closure d bs first num) (range_up 1 (num + 1)) first) as [[xs o2]| |];
      destruct (lv_items d bs first num (N.to_nat num) 1 first) as [[ys| |] cnt];
      cbn [omap fst snd bind] in *; try discriminate; try reflexivity.
    injection HI as <-. reflexivity.
Qed.

(** ** [Vec<T>] *)
Lemma mapM_chunks_eq {A} (d : bytes -> outcome A) bs n : mapM d (chunks_n bs n) = mapM d (chunks (N.to_nat n) bs).
Proof. reflexivity. Qed.

Theorem gen_vec_from_ssz_bytes_eq {A} (f : bool) (l : N) (d : bytes -> outcome A) bs :
  len bs <= usize_max ->
  Gen.vec_from_ssz_bytes f l d bs = dec_seq f l d bs.
Proof.
  intro H. unfold Gen.vec_from_ssz_bytes, dec_seq. rewrite llen_len.
  destruct bs as [|b0 br] eqn:Ebs; [reflexivity|]. rewrite <- Ebs in *.
  replace (len bs =? 0) with false by (symmetry; apply N.eqb_neq; subst bs; unfold len; cbn [length]; lia).
  destruct f; [destruct (l =? 0); reflexivity|].
  apply gen_decode_list_vec_eq. exact H.
Qed.

Theorem gen_vec_is_dec_TList t bs :
  len bs <= usize_max ->
  omap VList (Gen.vec_from_ssz_bytes (d_is_fixed t) (d_fixed_len t) (dec t) bs) = dec (TList t) bs.
Proof. intro H. rewrite gen_vec_from_ssz_bytes_eq by exact H. reflexivity. Qed.

Theorem gen_vec_metadata : Gen.vec_dec_is_ssz_fixed_len = Ok false. Proof. reflexivity. Qed.


Theorem gen_decode_list_container_eq {A B} (d : bytes -> outcome A) (c : list A -> outcome B) bs max_len :
  len bs <= usize_max ->
  Gen.decode_list_of_variable_length_items d c bs max_len
  = match bs with [] => c [] | _ => bind (decode_list_var d CVec bs max_len) c end.
Proof.
  intro Hphys. unfold Gen.decode_list_of_variable_length_items, decode_list_var, decode_list_var_full.
  rewrite llen_len. destruct bs as [|b0 br] eqn:Ebs; [reflexivity|]. rewrite <- Ebs in *.
  replace (len bs =? 0) with false by (symmetry; apply N.eqb_neq; subst bs; unfold len; cbn [length]; lia).
  rewrite gen_read_offset_eq. destruct (read_offset bs) as [first| |] eqn:Er; cbn [bind fst]; try reflexivity.
  rewrite gen_sanitize_offset_eq.
  destruct (sanitize_offset first None (len bs) (Some first)) as [x| |] eqn:Es; cbn [bind fst]; try reflexivity.
  rewrite gen_BYTES_PER_LENGTH_OFFSET. unfold BYTES_PER_LENGTH_OFFSET.
  unfold usize_rem, usize_div. change (4 =? 0) with false. cbv iota. cbn [bind].
  destruct (negb (first mod 4 =? 0) || (first <? 4)) eqn:Ec; [reflexivity|]. cbn [fst]. cbv zeta.
  destruct (is_some_and max_len (fun m => m <? first / 4)) eqn:Em.
  - reflexivity.
  - cbn [fst].
    (* first <= len bs: from sanitize_offset *)
    assert (Hfirst : first <= len bs).
    { unfold sanitize_offset in Es. cbn [is_some_and is_none] in Es.
      destruct (first <? first); [discriminate|]. cbn [andb] in Es.
      destruct (negb (first =? first)); [discriminate|].
      destruct (len bs <? first) eqn:El; [discriminate|]. apply N.ltb_ge in El. exact El. }
    apply Bool.orb_false_iff in Ec. destruct Ec as (Ec1 & Ec2).
    apply Bool.negb_false_iff, N.eqb_eq in Ec1. apply N.ltb_ge in Ec2.
    set (num := first / 4).
    assert (Hnum : 4 * num <= usize_max) by (unfold num; lia).
    assert (Hnum1 : 1 <= num) by (unfold num; lia).
    change (map_state _ (range_incl 1 num) first) with (map_state (item_closure d bs first num) (range_up 1 (num + 1)) first).
    pose proof (items_eq d bs first num Hnum (N.to_nat num) 1 first ltac:(lia) ltac:(lia)) as HI.
    destruct (map_state (item_closure d bs first num) (range_up 1 (num + 1)) first) as [[xs o2]| |];
      destruct (lv_items d bs first num (N.to_nat num) 1 first) as [[ys| |] cnt];
      cbn [omap fst snd bind] in *; try discriminate; try reflexivity.
    injection HI as <-. reflexivity.
Qed.


(** ** [TryFromIter] / [TryCollect] (decode/try_from_iter.rs): the four impls are std's [from_iter] of the
    collection (for [Vec]: [with_capacity] of the iterator's upper size hint, then [extend]) and never fail;
    [try_collect] hands the iterator to the container's impl *)
Theorem gen_tfi_vec_try_from_iter_eq {A} (l : list A) : Gen.tfi_vec_try_from_iter l = vec_try_from_iter l.
Proof. reflexivity. Qed.
Theorem gen_tfi_smallvec_try_from_iter_eq {A} n (l : list A) : Gen.tfi_smallvec_try_from_iter n l = smallvec_try_from_iter l.
Proof. reflexivity. Qed.
Theorem gen_tfi_btreeset_try_from_iter_eq {A} cmp (l : list A) : Gen.tfi_btreeset_try_from_iter cmp l = btreeset_try_from_iter cmp l.
Proof. reflexivity. Qed.
Theorem gen_tfi_btreemap_try_from_iter_eq {K V} cmp (l : list (K * V)) : Gen.tfi_btreemap_try_from_iter cmp l = btreemap_try_from_iter cmp l.
Proof. reflexivity. Qed.
Theorem gen_try_collect_eq {A C} (f : list A -> outcome C) l : Gen.try_collect f l = f l.
Proof. reflexivity. Qed.
(** what the model's collection kinds are: [Vec] and [SmallVec] keep every item in order, the ordered set is
    the sorted duplicate-free list *)
Theorem gen_tfi_vec_is_identity {A} (l : list A) : Gen.tfi_vec_try_from_iter l = Ok l.
Proof. unfold Gen.tfi_vec_try_from_iter. cbn [app]. reflexivity. Qed.
Theorem gen_tfi_smallvec_is_identity {A} n (l : list A) : Gen.tfi_smallvec_try_from_iter n l = Ok l.
Proof. reflexivity. Qed.

(** ** [SmallVec<[T; N]>] and [BTreeSet<T>]: the list decoder followed by the collection's [from_iter] *)
Theorem gen_smallvec_from_ssz_bytes_eq {A} n (f : bool) (l : N) (d : bytes -> outcome A) bs :
  len bs <= usize_max ->
  Gen.smallvec_from_ssz_bytes n f l d bs = dec_seq f l d bs.
Proof.
  intro H. unfold Gen.smallvec_from_ssz_bytes, dec_seq. rewrite llen_len.
  destruct bs as [|b0 br] eqn:Ebs; [reflexivity|]. rewrite <- Ebs in *.
  replace (len bs =? 0) with false by (symmetry; apply N.eqb_neq; subst bs; unfold len; cbn [length]; lia).
  destruct f; [destruct (l =? 0); reflexivity|].
  rewrite gen_decode_list_container_eq by exact H. subst bs. unfold Gen.tfi_smallvec_try_from_iter, smallvec_from_iter.
  destruct (decode_list_var d CVec (b0 :: br) None); reflexivity.
Qed.

Theorem gen_smallvec_is_dec_TList n t bs :
  len bs <= usize_max ->
  omap VList (Gen.smallvec_from_ssz_bytes n (d_is_fixed t) (d_fixed_len t) (dec t) bs) = dec (TList t) bs.
Proof. intro H. rewrite gen_smallvec_from_ssz_bytes_eq by exact H. reflexivity. Qed.

Lemma ord_insert_is_insert_entry e l : ord_insert val_cmp e l = insert_entry false e l.
Proof. induction l as [|x r IH]; [reflexivity|]. cbn [ord_insert insert_entry entry_key]. rewrite IH. reflexivity. Qed.

Lemma btreeset_from_iter_is_collect l : btreeset_from_iter val_cmp l = collect_entries false l.
Proof.
  unfold btreeset_from_iter, collect_entries. generalize (@nil val).
  induction l as [|x r IH]; intro acc; cbn [fold_left]; [reflexivity|]. rewrite ord_insert_is_insert_entry. apply IH.
Qed.

Theorem gen_btreeset_is_dec_TSet t bs :
  len bs <= usize_max ->
  omap VList (Gen.btreeset_from_ssz_bytes (d_is_fixed t) (d_fixed_len t) (dec t) val_cmp bs) = dec (TSet t) bs.
Proof.
  intro H. unfold Gen.btreeset_from_ssz_bytes. cbn [dec]. unfold dec_seq. rewrite llen_len.
  destruct bs as [|b0 br] eqn:Ebs; [reflexivity|]. rewrite <- Ebs in *.
  replace (len bs =? 0) with false by (symmetry; apply N.eqb_neq; subst bs; unfold len; cbn [length]; lia).
  destruct (d_is_fixed t).
  - destruct (d_fixed_len t =? 0); [reflexivity|]. rewrite mapM_chunks_eq.
    destruct (mapM (dec t) (chunks (N.to_nat (d_fixed_len t)) bs)) as [l| |]; cbn [omap]; try reflexivity.
    rewrite btreeset_from_iter_is_collect. reflexivity.
  - rewrite gen_decode_list_container_eq by exact H. subst bs. unfold Gen.tfi_btreeset_try_from_iter.
    destruct (decode_list_var (dec t) CVec (b0 :: br) None) as [l| |]; cbn [bind omap]; try reflexivity.
    rewrite btreeset_from_iter_is_collect. reflexivity.
Qed.

(** ** the rest of [SszDecoderBuilder] and [SszDecoder] *)
Theorem gen_builder_new_eq bs :
  omap (fun s => (Gen.SszDecoderBuilder_bytes s, st_abs s)) (Gen.builder_new bs) = Ok (bs, builder_new).
Proof. reflexivity. Qed.

Theorem gen_builder_register_type_eq s f l :
  omap (fun s' => (Gen.SszDecoderBuilder_bytes s', st_abs s')) (Gen.builder_register_type f l s)
  = omap (fun st => (Gen.SszDecoderBuilder_bytes s, st)) (register (Gen.SszDecoderBuilder_bytes s) (st_abs s) f l).
Proof.
  unfold Gen.builder_register_type. rewrite <- gen_builder_register_eq.
  destruct (Gen.builder_register s f l); reflexivity.
Qed.

Theorem gen_builder_build_eq s :
  omap Gen.SszDecoder_items (Gen.builder_build s) = finalize (Gen.SszDecoderBuilder_bytes s) (st_abs s).
Proof.
  unfold Gen.builder_build. rewrite <- gen_builder_finalize_eq.
  destruct (Gen.builder_finalize s); reflexivity.
Qed.

(** [decode_next_with(f)]: [f(self.items.remove(0))]; the slices are handed out in order *)
Theorem gen_decoder_decode_next_with_eq {A} items (f : bytes -> outcome A) :
  omap (fun p => (fst p, Gen.SszDecoder_items (snd p))) (Gen.decoder_decode_next_with {| Gen.SszDecoder_items := items |} f)
  = decode_next items f.
Proof.
  unfold Gen.decoder_decode_next_with, decode_next, vec_remove. cbn [Gen.SszDecoder_items].
  destruct items as [|s r]; [reflexivity|]. cbn [N.to_nat nth_error firstn skipn app bind fst snd].
  destruct (f s); reflexivity.
Qed.

Theorem gen_decoder_decode_next_eq {A} items (d : bytes -> outcome A) :
  omap (fun p => (fst p, Gen.SszDecoder_items (snd p))) (Gen.decoder_decode_next d {| Gen.SszDecoder_items := items |})
  = decode_next items d.
Proof.
  unfold Gen.decoder_decode_next. rewrite <- gen_decoder_decode_next_with_eq.
  destruct (Gen.decoder_decode_next_with _ _) as [[x s']| |]; reflexivity.
Qed.

(** The equivalences rest on no axioms. *)
Print Assumptions gen_u64_from_ssz_bytes_eq.
Print Assumptions gen_bool_from_ssz_bytes_eq.
Print Assumptions gen_nonzero_from_ssz_bytes_eq.
Print Assumptions gen_option_from_ssz_bytes_eq.
Print Assumptions gen_arc_from_ssz_bytes_eq.
Print Assumptions gen_array_from_ssz_bytes_eq.
Print Assumptions gen_u256_from_ssz_bytes_eq.
Print Assumptions gen_decode_list_vec_eq.
Print Assumptions gen_decode_list_container_eq.
Print Assumptions gen_smallvec_is_dec_TList.
Print Assumptions gen_btreeset_is_dec_TSet.
Print Assumptions gen_tfi_vec_try_from_iter_eq.
Print Assumptions gen_tfi_btreeset_try_from_iter_eq.
Print Assumptions gen_tfi_btreemap_try_from_iter_eq.
Print Assumptions gen_try_collect_eq.
Print Assumptions gen_vec_is_dec_TList.
Print Assumptions gen_builder_build_eq.
Print Assumptions gen_decoder_decode_next_eq.

(** [register_anonymous_variable_length_item]: a function-local type whose impl says "variable" *)
Theorem gen_builder_register_anonymous_eq s :
  omap (fun s' => (Gen.SszDecoderBuilder_bytes s', st_abs s')) (Gen.builder_register_anonymous s)
  = omap (fun st => (Gen.SszDecoderBuilder_bytes s, st)) (register (Gen.SszDecoderBuilder_bytes s) (st_abs s) false BYTES_PER_LENGTH_OFFSET).
Proof.
  unfold Gen.builder_register_anonymous. change Gen.decode_default_ssz_fixed_len with (Ok BYTES_PER_LENGTH_OFFSET : outcome N). cbn [bind].
  rewrite <- (gen_builder_register_type_eq s false BYTES_PER_LENGTH_OFFSET).
  destruct (Gen.builder_register_type false BYTES_PER_LENGTH_OFFSET s); reflexivity.
Qed.
Print Assumptions gen_builder_register_anonymous_eq.
