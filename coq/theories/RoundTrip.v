(** * Round trip: decoding an encoding returns the original value (C01). *)
From SSZ Require Import Base BaseFacts Offsets OffsetsFacts Encoder EncoderFacts Builder BuilderFacts
     Layout LayoutFacts Bitfield Types Codec Spec CodecUnfold MetaFacts AppendFacts LeafIface SizeFacts
     ListDecFacts SpecFacts WfbFacts.
From Coq Require Import ZArith ZifyN ZifyNat ZifyBool.
Ltac Zify.zify_post_hook ::= Z.div_mod_to_equations.
Open Scope N_scope.

Definition two32 : N := 4294967296.

(** What the round trip of ordered collections needs from [OrderFacts.v]. *)
Definition CollectSorted : Prop :=
  forall kt is_map l, key_type kt = true ->
    Forall (fun e => has_ty kt (entry_key is_map e) = true) l ->
    strictly_sorted is_map l = true -> collect_entries is_map l = l.

Definition rt_ok (t : ty) : Prop :=
  rt_type t = true ->
  forall v, has_ty t v = true -> len (enc t v) < two32 -> dec t (enc t v) = Ok v.

Lemma pow2_8k k : 2 ^ (8 * N.of_nat k) = 256 ^ N.of_nat k.
Proof. rewrite N.pow_mul_r. reflexivity. Qed.

Lemma mapM_map_ok {A B} (f : B -> outcome A) (g : A -> B) l :
  (forall x, In x l -> f (g x) = Ok x) -> mapM f (map g l) = Ok l.
Proof.
  induction l as [|x l IH]; intros H; cbn [map mapM]; [reflexivity|].
  rewrite (H x (or_introl eq_refl)). cbn [bind]. rewrite IH by (intros y Hy; apply H; now right).
  reflexivity.
Qed.

Lemma offsets_fit_bound parts : forall off,
  off + len (var_concat parts) < two32 -> offsets_fit off parts.
Proof.
  induction parts as [|[[|] b] r IH]; intros off H; cbn [offsets_fit]; [exact I| |].
  - apply IH. rewrite var_concat_true in H. exact H.
  - rewrite var_concat_false, len_app in H. split; [unfold two32 in *; lia|]. apply IH. lia.
Qed.

Lemma part_le_assemble nf parts p : In p parts -> len (snd p) <= len (assemble nf parts).
Proof.
  intros HI. rewrite asm_len. induction parts as [|q r IH]; [destruct HI|].
  cbn [map sumN]. destruct HI as [->|HI].
  - destruct (fst p); lia.
  - specialize (IH HI). lia.
Qed.

Lemma all_fixed_var_concat parts :
  forallb (fun p : part => fst p) parts = true -> var_concat parts = [].
Proof.
  induction parts as [|[[|] b] r IH]; cbn [forallb fst andb]; intros H; try discriminate; [reflexivity|].
  rewrite var_concat_true. auto.
Qed.
Lemma all_fixed_assemble_fixed parts : forall off,
  forallb (fun p : part => fst p) parts = true -> assemble_fixed off parts = concat (map snd parts).
Proof.
  induction parts as [|[[|] b] r IH]; cbn [forallb fst andb]; intros off H; try discriminate; [reflexivity|].
  cbn [assemble_fixed map concat snd]. now rewrite IH.
Qed.
Lemma all_fixed_assemble nf parts :
  forallb (fun p : part => fst p) parts = true -> assemble nf parts = concat (map snd parts).
Proof.
  intros H. unfold assemble. rewrite all_fixed_var_concat, app_nil_r by exact H.
  now apply all_fixed_assemble_fixed.
Qed.

Lemma split_dec_concat (ds : list (N * (bytes -> outcome val))) : forall (pieces : list bytes),
  Forall2 (fun (d : N * (bytes -> outcome val)) p => fst d = len p) ds pieces ->
  split_dec ds (concat pieces) =
  mapM (fun dp : (N * (bytes -> outcome val)) * bytes => snd (fst dp) (snd dp)) (combine ds pieces).
Proof.
  induction ds as [|[l d] ds IH]; intros pieces H; inversion H as [|? p ? pieces' Hl Hr]; subst; [reflexivity|].
  cbn [split_dec concat combine mapM fst snd] in *. subst l.
  unfold split_at. rewrite len_app.
  replace (len p <=? len p + len (concat pieces')) with true by lia.
  cbn [bind fst snd]. rewrite take_app_exact, drop_app_exact.
  destruct (d p); cbn [bind]; try reflexivity. rewrite (IH pieces' Hr). reflexivity.
Qed.

(** ty_all unfolding *)
Lemma ty_all_1 p t a :
  (t = TList a \/ t = TSet a \/ t = TOption a \/ t = TWrap a \/ t = TLegacyOpt a) ->
  ty_all p t = p t && ty_all p a.
Proof. intros [->|[->|[->|[->| ->]]]]; reflexivity. Qed.
Lemma ty_all_container p d fs : ty_all p (TContainer d fs) = p (TContainer d fs) && forallb (ty_all p) fs.
Proof. cbn [ty_all]. now rewrite ty_all_list. Qed.
Lemma ty_all_union p fs : ty_all p (TUnion fs) = p (TUnion fs) && forallb (ty_all p) fs.
Proof. cbn [ty_all]. now rewrite ty_all_list. Qed.
Lemma ty_all_map p k v : ty_all p (TMap k v) = p (TMap k v) && (ty_all p k && ty_all p v).
Proof. reflexivity. Qed.

Lemma enc_nil_seq f : seq_enc f [] = [].
Proof. destruct f; reflexivity. Qed.

Lemma seq_enc_item_le f encs e : In e encs -> len e <= len (seq_enc f encs).
Proof.
  intros HI. rewrite seq_enc_len.
  assert (len e <= sumN (map len encs)).
  { induction encs as [|x r IH]; [destruct HI|]. cbn [map sumN]. destruct HI as [->|HI]; [lia|]. specialize (IH HI). lia. }
  destruct f; lia.
Qed.

Lemma seq_enc_var_nonempty encs : encs <> [] -> seq_enc false encs <> [].
Proof.
  intros H E. apply (f_equal len) in E. rewrite seq_enc_len in E.
  destruct encs; [congruence|]. cbn [length] in E. unfold len in E at 2. cbn in E. lia.
Qed.

Lemma dec_seq_var_nonempty {A} (d : bytes -> outcome A) k bs :
  bs <> [] -> dec_seq false k d bs = decode_list_var d CVec bs None.
Proof. destruct bs; [congruence|reflexivity]. Qed.

Lemma sum_var_parts (l : list bytes) :
  sumN (map (fun p : part => if fst p then len (snd p) else 4 + len (snd p)) (map (fun s => (false, s)) l))
  = 4 * N.of_nat (length l) + len (concat l).
Proof.
  induction l as [|x l IH]; cbn [map sumN length concat fst snd]; [reflexivity|].
  rewrite IH, len_app. lia.
Qed.

(** Lists: [dec_seq] inverts [seq_enc]. *)
Lemma rt_seq t vs :
  rt_ok t -> rt_type t = true -> zero_len_fixed t = false ->
  forallb (has_ty t) vs = true ->
  len (seq_enc (e_is_fixed t) (map (enc t) vs)) < two32 ->
  (forall v, has_ty t v = true -> e_is_fixed t = true -> len (enc t v) = e_fixed_len t) ->
  dec_seq (d_is_fixed t) (d_fixed_len t) (dec t) (seq_enc (e_is_fixed t) (map (enc t) vs)) = Ok vs.
Proof.
  intros Ht Hrt Hz Hvs Hlen Hsz.
  rewrite <- is_fixed_agree, <- fixed_len_agree.
  assert (Hitems : forall x, In x vs -> dec t (enc t x) = Ok x).
  { intros x Hx. rewrite forallb_forall in Hvs. apply Ht; auto.
    eapply N.le_lt_trans; [|exact Hlen]. apply seq_enc_item_le. now apply in_map. }
  destruct vs as [|v0 vs0]; [rewrite enc_nil_seq; reflexivity|].
  set (vs := v0 :: vs0) in *.
  destruct (e_is_fixed t) eqn:Ef.
  - (* fixed-size items: chunks *)
    unfold zero_len_fixed in Hz. rewrite Ef in Hz. cbn [andb] in Hz.
    unfold seq_enc. rewrite dec_seq_fixed_concat.
    + now apply mapM_map_ok.
    + lia.
    + apply Forall_forall. intros s Hs. apply in_map_iff in Hs as (x & <- & Hx).
      rewrite forallb_forall in Hvs. now apply Hsz; auto.
  - (* variable-size items: offset table *)
    assert (Hne : map (enc t) vs <> []) by (subst vs; discriminate).
    pose proof (seq_enc_var_nonempty _ Hne) as Hnn.
    rewrite dec_seq_var_nonempty by exact Hnn. unfold seq_enc.
    rewrite decode_list_var_assemble.
    + now apply mapM_map_ok.
    + exact Hne.
    + apply offsets_fit_bound. unfold seq_enc in Hlen. rewrite asm_len, sum_var_parts in Hlen.
      rewrite var_concat_var. exact Hlen.
Qed.

(** Containers *)
Lemma fields_mapM_builder fs : forall vs,
  has_ty_fields fs vs = true ->
  (forall f x, In (f, x) (combine fs vs) -> dec f (enc f x) = Ok x) ->
  mapM (fun p : (bytes -> outcome val) * bytes => fst p (snd p))
       (combine (map dec fs) (map snd (cont_parts fs vs))) = Ok vs.
Proof.
  unfold cont_parts.
  induction fs as [|f fs IH]; intros [|x vs] Hty H; try discriminate; [reflexivity|].
  rewrite has_ty_fields_cons in Hty. apply andb_prop in Hty as [_ Hty].
  cbn [combine map mapM fst snd]. rewrite (H f x (or_introl eq_refl)). cbn [bind].
  rewrite (IH vs Hty) by (intros g y Hg; apply H; now right). reflexivity.
Qed.
Lemma fields_mapM_split fs : forall vs,
  has_ty_fields fs vs = true ->
  (forall f x, In (f, x) (combine fs vs) -> dec f (enc f x) = Ok x) ->
  mapM (fun dp : (N * (bytes -> outcome val)) * bytes => snd (fst dp) (snd dp))
       (combine (map (fun f => (d_fixed_len f, dec f)) fs) (map snd (cont_parts fs vs))) = Ok vs.
Proof.
  unfold cont_parts.
  induction fs as [|f fs IH]; intros [|x vs] Hty H; try discriminate; [reflexivity|].
  rewrite has_ty_fields_cons in Hty. apply andb_prop in Hty as [_ Hty].
  cbn [combine map mapM fst snd]. rewrite (H f x (or_introl eq_refl)). cbn [bind].
  rewrite (IH vs Hty) by (intros g y Hg; apply H; now right). reflexivity.
Qed.

Lemma cont_parts_fst fs : forall vs,
  has_ty_fields fs vs = true -> map fst (cont_parts fs vs) = map e_is_fixed fs.
Proof.
  unfold cont_parts. induction fs as [|f fs IH]; intros [|x vs] Hty; try discriminate; [reflexivity|].
  rewrite has_ty_fields_cons in Hty. apply andb_prop in Hty as [_ Hty].
  cbn [combine map fst snd]. now rewrite (IH vs Hty).
Qed.
Lemma cont_parts_length fs : forall vs,
  has_ty_fields fs vs = true -> length (cont_parts fs vs) = length fs.
Proof.
  intros vs H. unfold cont_parts. rewrite map_length, combine_length.
  unfold has_ty_fields in H. apply andb_prop in H as [H _]. apply Nat.eqb_eq in H. lia.
Qed.

Lemma has_ty_fields_in fs : forall vs f x,
  has_ty_fields fs vs = true -> In (f, x) (combine fs vs) -> In f fs /\ has_ty f x = true.
Proof.
  induction fs as [|g fs IH]; intros [|y vs] f x Hty HI; try discriminate; try (now destruct HI).
  rewrite has_ty_fields_cons in Hty. apply andb_prop in Hty as [Hy Hty].
  cbn [combine] in HI. destruct HI as [[= <- <-]|HI].
  - split; [now left|exact Hy].
  - destruct (IH vs f x Hty HI). split; [now right|assumption].
Qed.

Lemma concat_len_regs (regs : list (bool * N)) (parts : list part) :
  Forall2 (fun (r : bool * N) (p : part) => fst r = true -> len (snd p) = snd r) regs parts ->
  forallb (fun r : bool * N => fst r) regs = true ->
  len (concat (map snd parts)) = sumN (map snd regs).
Proof.
  induction 1 as [|r p regs parts Hrp _ IH]; cbn [forallb map concat sumN]; intros Hall; [reflexivity|].
  apply andb_prop in Hall as [Hr Hall]. rewrite len_app, (Hrp Hr), (IH Hall). reflexivity.
Qed.

Lemma rt_container (L : LeafFacts) d fs : Forall rt_ok fs -> rt_ok (TContainer d fs).
Proof.
  intros HF Hrt v Hv Hlen. destruct v; try discriminate. rewrite has_ty_container in Hv.
  unfold rt_type in Hrt. rewrite ty_all_container in Hrt. apply andb_prop in Hrt as [_ Hrt].
  rewrite enc_container in *. rewrite dec_container.
  pose proof (fixed_size_cont_parts L fs vs Hv) as Hfs.
  assert (Hitem : forall f x, In (f, x) (combine fs vs) -> dec f (enc f x) = Ok x).
  { intros f x HI. destruct (has_ty_fields_in fs vs f x Hv HI) as [Hf Hx].
    rewrite Forall_forall in HF. apply (HF f Hf); auto.
    - rewrite forallb_forall in Hrt. now apply Hrt.
    - eapply N.le_lt_trans; [|exact Hlen].
      apply (part_le_assemble _ _ (e_is_fixed f, enc f x)). unfold cont_parts.
      apply in_map_iff. exists (f, x). split; [reflexivity|exact HI]. }
  assert (Hsz : Forall2 (fun (r : bool * N) (p : part) => fst r = true -> len (snd p) = snd r)
                        (regs_of fs) (cont_parts fs vs)).
  { clear Hitem Hlen Hfs Hrt HF. unfold regs_of, cont_parts. revert vs Hv.
    induction fs as [|f fs IH]; intros [|x vs] Hv; try discriminate; [constructor|].
    rewrite has_ty_fields_cons in Hv. apply andb_prop in Hv as [Hx Hv].
    cbn [combine map]. constructor; [|now apply IH].
    cbn [fst snd]. rewrite <- is_fixed_agree, <- fixed_len_agree. intros Ef.
    now apply (size_facts L f x Hx). }
  destruct (d && forallb d_is_fixed fs) eqn:Epath.
  - (* all fields fixed-size, derived: split_at path *)
    apply andb_prop in Epath as [_ Eall].
    assert (Hfst : forallb (fun p : part => fst p) (cont_parts fs vs) = true).
    { apply forallb_forall. intros p Hp.
      assert (In (fst p) (map fst (cont_parts fs vs))) as Hin by now apply in_map.
      rewrite (cont_parts_fst fs vs Hv) in Hin. apply in_map_iff in Hin as (f & <- & Hf).
      rewrite is_fixed_agree. rewrite forallb_forall in Eall. now apply Eall. }
    rewrite all_fixed_assemble by exact Hfst.
    assert (Hl : len (concat (map snd (cont_parts fs vs))) = sumN (map d_fixed_len fs)).
    { rewrite (concat_len_regs (regs_of fs) _ Hsz).
      - unfold regs_of. rewrite map_map. reflexivity.
      - unfold regs_of. rewrite forallb_forall in *. intros r Hr.
        apply in_map_iff in Hr as (f & <- & Hf). cbn [fst]. now apply Eall. }
    rewrite Hl, N.eqb_refl. cbn [negb].
    rewrite split_dec_concat.
    + rewrite (fields_mapM_split fs vs Hv Hitem). reflexivity.
    + clear -Hsz Hfst Eall. unfold regs_of in Hsz.
      revert Hsz Hfst. generalize (cont_parts fs vs) as parts.
      induction fs as [|f fs IH]; intros parts Hsz Hfst; inversion Hsz as [|? p ? parts' Hp Hr]; subst; cbn [map]; constructor.
      * cbn [fst snd] in *. cbn [forallb] in Hfst, Eall. apply andb_prop in Eall as [Ef _].
        symmetry. now apply Hp.
      * cbn [forallb] in Hfst, Eall. apply andb_prop in Eall as [_ Eall]. apply andb_prop in Hfst as [_ Hfst].
        now apply IH.
  - (* builder path *)
    rewrite Hfs.
    rewrite (builder_build_assemble (cont_parts fs vs) (regs_of fs)).
    + cbn [bind]. rewrite decode_all_mapM.
      * rewrite (fields_mapM_builder fs vs Hv Hitem). reflexivity.
      * rewrite !map_length. now apply cont_parts_length.
    + unfold regs_of. rewrite map_map. cbn [fst]. rewrite (cont_parts_fst fs vs Hv).
      apply map_ext. intros f. symmetry. apply is_fixed_agree.
    + exact Hsz.
    + apply offsets_fit_bound. rewrite Hfs, assemble_len in Hlen. exact Hlen.
    + rewrite <- Hfs, <- (enc_container d). apply (wfb_facts L). now rewrite has_ty_container.
    + rewrite <- Hfs. unfold two32, usize_max in *. lia.
Qed.

Lemma rt_type_1 t a :
  (t = TList a \/ t = TSet a \/ t = TOption a \/ t = TWrap a \/ t = TLegacyOpt a) ->
  rt_type t = true -> node_rt t = true /\ rt_type a = true.
Proof.
  intros Ht H. unfold rt_type in *. rewrite (ty_all_1 _ t a Ht) in H. now apply andb_prop in H.
Qed.

Lemma enc_tag n i : enc (TTag n) (VTag i) = [N.of_nat i].
Proof. reflexivity. Qed.

Lemma split_union_cons s body : s <= 127 -> split_union_bytes (s :: body) = Ok (s, body).
Proof. intros H. rewrite split_union_bytes_spec. now replace (s <=? 127) with true by lia. Qed.

(** Maps decode as lists of (key, value) tuples, then collect. *)
Lemma mapM_ext {A B} (f g : A -> outcome B) l : (forall x, f x = g x) -> mapM f l = mapM g l.
Proof. intros H. induction l as [|x l IH]; cbn [mapM]; [reflexivity|]. now rewrite H, IH. Qed.

Lemma lv_items_ext {A} (d1 d2 : bytes -> outcome A) bs first n fuel : forall i off,
  (forall s, d1 s = d2 s) -> lv_items d1 bs first n fuel i off = lv_items d2 bs first n fuel i off.
Proof.
  induction fuel as [|fuel IH]; intros i off H; [reflexivity|].
  cbn [lv_items]. destruct (if i =? n then _ else _) as [[s o']| |]; try reflexivity.
  rewrite H. destruct (d2 s); try reflexivity. now rewrite IH.
Qed.

Lemma dec_seq_ext {A} (d1 d2 : bytes -> outcome A) f k bs :
  (forall s, d1 s = d2 s) -> dec_seq f k d1 bs = dec_seq f k d2 bs.
Proof.
  intros H. unfold dec_seq. destruct bs as [|b bs]; [reflexivity|].
  destruct f.
  - destruct (k =? 0); [reflexivity|]. now apply mapM_ext.
  - unfold decode_list_var, decode_list_var_full.
    destruct (read_offset (b :: bs)); try reflexivity.
    destruct (sanitize_offset _ _ _ _); try reflexivity.
    destruct (_ || _); try reflexivity. cbn [is_some_and]. cbv zeta.
    now rewrite (lv_items_ext d1 d2 _ _ _ _ _ _ H).
Qed.

Lemma dec_map_eq k v bs :
  dec (TMap k v) bs =
  omap (fun l => VList (collect_entries true l))
       (dec_seq (d_is_fixed (TContainer false [k; v])) (d_fixed_len (TContainer false [k; v]))
                (dec (TContainer false [k; v])) bs).
Proof.
  remember (TContainer false [k; v]) as C eqn:EC. cbn [dec]. subst C. f_equal.
  rewrite d_is_fixed_container, d_fixed_len_container. cbn [forallb map sumN].
  rewrite !andb_true_r, N.add_0_r.
  apply dec_seq_ext. intros s. rewrite dec_container. cbn [andb].
  unfold regs_of. cbn [map]. destruct (builder_build _ s); cbn [bind]; try reflexivity.
  all: try (destruct (decode_all _ _); reflexivity).
Qed.

Theorem rt_facts (L : LeafFacts) (C : CollectSorted) t : rt_ok t.
Proof.
  induction t using ty_ind'; intros Hrt v Hv Hlen.
  - (* TUint *) destruct v; try discriminate. cbn [has_ty] in Hv. unfold enc. cbn [append app dec].
    unfold len. rewrite le_bytes_length, N.eqb_refl. rewrite le_val_le_bytes; [reflexivity|].
    rewrite <- pow2_8k. lia.
  - destruct v; try discriminate. destruct b; reflexivity.
  - (* TNonZero *) destruct v; try discriminate. cbn [has_ty] in Hv. apply andb_prop in Hv as [H0 H64].
    unfold enc. cbn [append app dec]. unfold len. rewrite le_bytes_length. cbn [N.of_nat N.eqb Pos.eqb Pos.of_succ_nat Pos.succ].
    rewrite le_val_le_bytes by (change (256 ^ N.of_nat 8) with (2 ^ 64); lia).
    replace (n =? 0) with false by lia. reflexivity.
  - (* TBytesN *) destruct v; try discriminate. cbn [has_ty] in Hv. apply andb_prop in Hv as [_ Hl].
    apply Nat.eqb_eq in Hl. unfold enc. cbn [append app dec]. unfold len. rewrite Hl, N.eqb_refl. reflexivity.
  - destruct v; try discriminate. reflexivity.
  - (* TList *) destruct v; try discriminate. cbn [has_ty] in Hv.
    destruct (rt_type_1 (TList t) t ltac:(auto) Hrt) as [Hn Hrt'].
    unfold node_rt in Hn. apply andb_prop in Hn as [_ Hn]. apply negb_true_iff in Hn.
    rewrite enc_list in *. cbn [dec]. rewrite (rt_seq t vs IHt Hrt' Hn Hv Hlen); [reflexivity|].
    intros x Hx Ef. now apply (size_facts L t x Hx).
  - (* TSet *) destruct v; try discriminate. cbn [has_ty] in Hv. apply andb_prop in Hv as [Hv Hs].
    destruct (rt_type_1 (TSet t) t ltac:(auto) Hrt) as [Hn Hrt'].
    unfold node_rt in Hn. apply andb_prop in Hn as [Hk Hn]. apply negb_true_iff in Hn. cbn [node_wf] in Hk.
    rewrite enc_set in *. cbn [dec]. rewrite (rt_seq t vs IHt Hrt' Hn Hv Hlen).
    + cbn [omap]. rewrite (C t false vs Hk); [reflexivity| |exact Hs].
      apply Forall_forall. intros e He. cbn [entry_key]. rewrite forallb_forall in Hv. auto.
    + intros x Hx Ef. now apply (size_facts L t x Hx).
  - (* TMap *) destruct v as [| | |es| | | | | |]; try discriminate.
    cbn [has_ty] in Hv. apply andb_prop in Hv as [Hes Hs].
    unfold rt_type in Hrt. rewrite ty_all_map in Hrt. apply andb_prop in Hrt as [Hn Hrt].
    apply andb_prop in Hrt as [Hrt1 Hrt2].
    unfold node_rt in Hn. apply andb_prop in Hn as [Hk Hn]. apply negb_true_iff in Hn. cbn [node_wf] in Hk.
    assert (Hshape : Forall (fun e => exists a c, e = VCont [a; c]) es).
    { apply Forall_forall. intros e He. rewrite forallb_forall in Hes. specialize (Hes e He).
      destruct e; try discriminate. destruct vs as [|a [|c [|? ?]]]; try discriminate. eauto. }
    assert (Hty : forallb (has_ty (TContainer false [t1; t2])) es = true).
    { apply forallb_forall. intros e He. rewrite forallb_forall in Hes. specialize (Hes e He).
      destruct e; try discriminate. destruct vs as [|a [|c [|? ?]]]; try discriminate.
      rewrite has_ty_container. unfold has_ty_fields. cbn [length Nat.eqb combine forallb fst snd andb].
      now rewrite andb_true_r. }
    assert (Hc : rt_ok (TContainer false [t1; t2])).
    { apply (rt_container L). constructor; [exact IHt1|constructor; [exact IHt2|constructor]]. }
    assert (Hrtc : rt_type (TContainer false [t1; t2]) = true).
    { unfold rt_type. rewrite ty_all_container. cbn [forallb]. rewrite Hrt1, Hrt2.
      unfold node_rt. reflexivity. }
    rewrite (enc_map t1 t2 es Hshape), enc_list in *. rewrite dec_map_eq.
    rewrite (rt_seq _ es Hc Hrtc Hn Hty Hlen).
    + cbn [omap]. rewrite (C t1 true es Hk); [reflexivity| |exact Hs].
      apply Forall_forall. intros e He. rewrite Forall_forall in Hshape.
      destruct (Hshape e He) as (a & c & ->). cbn [entry_key].
      rewrite forallb_forall in Hes. specialize (Hes _ He). cbn in Hes. now apply andb_prop in Hes as [Ha _].
    + intros x Hx Ef. now apply (size_facts L _ x Hx).
  - (* TOption *) destruct v; try discriminate; [reflexivity|]. cbn [has_ty] in Hv.
    destruct (rt_type_1 (TOption t) t ltac:(auto) Hrt) as [_ Hrt'].
    rewrite enc_option_some in *. cbn [dec]. rewrite split_union_cons by lia. cbn [bind N.eqb].
    rewrite len_cons in Hlen. rewrite (IHt Hrt' v Hv) by lia. reflexivity.
  - now apply (rt_container L d fs H).
  - (* TUnion *) destruct v; try discriminate. rewrite has_ty_union in Hv. apply andb_prop in Hv as [Hn Hv].
    pose proof (pick_has_ty_lt _ _ _ Hv) as Hi. apply Nat.leb_le in Hn. unfold pick_has_ty in Hv.
    unfold rt_type in Hrt. rewrite ty_all_union in Hrt. apply andb_prop in Hrt as [_ Hrt].
    rewrite enc_union in *. rewrite dec_union.
    destruct (nth_error vs i) as [t|] eqn:E; [|discriminate].
    rewrite split_union_cons by lia. cbn [bind fst snd]. rewrite Nat2N.id, E.
    rewrite Forall_forall in H. rewrite len_cons in Hlen.
    rewrite (H t (nth_error_In _ _ E)); [reflexivity| |exact Hv|lia].
    rewrite forallb_forall in Hrt. apply Hrt. eapply nth_error_In; eauto.
  - (* TTag *) destruct v; try discriminate. cbn [has_ty] in Hv. apply andb_prop in Hv as [Hi Hn].
    apply Nat.ltb_lt in Hi. rewrite enc_tag. cbn [dec].
    replace (N.of_nat i <? N.of_nat n) with true by lia. now rewrite Nat2N.id.
  - (* TTransEnum *) unfold rt_type in Hrt. cbn [ty_all] in Hrt. apply andb_prop in Hrt as [Hn _].
    unfold node_rt in Hn. cbn [node_wf andb] in Hn. discriminate.
  - (* TWrap *) destruct (rt_type_1 (TWrap t) t ltac:(auto) Hrt) as [_ Hrt']. exact (IHt Hrt' v Hv Hlen).
  - (* TBitVector *) destruct v; try discriminate. cbn [has_ty] in Hv. apply N.eqb_eq in Hv.
    unfold enc. cbn [append app dec]. destruct (lf_bv_rt L n bits Hv) as (b & Hb & Hi). rewrite Hb. cbn [omap]. now rewrite Hi.
  - destruct v; try discriminate. cbn [has_ty] in Hv. apply N.leb_le in Hv.
    unfold enc. cbn [append app dec]. destruct (lf_bl_rt L n bits Hv) as (b & Hb & Hi). rewrite Hb. cbn [omap]. now rewrite Hi.
  - destruct v; try discriminate. cbn [has_ty] in Hv. apply andb_prop in Hv as [H0 H8].
    unfold enc. cbn [append app dec].
    destruct (lf_bd_rt L bits ltac:(lia) ltac:(lia)) as (b & Hb & Hi). rewrite Hb. cbn [omap]. now rewrite Hi.
  - (* TLegacyOpt *) destruct v; try discriminate; [reflexivity|]. cbn [has_ty] in Hv.
    destruct (rt_type_1 (TLegacyOpt t) t ltac:(auto) Hrt) as [_ Hrt'].
    rewrite enc_legacy_some in *. cbn [dec]. rewrite len_app, encode_length_len in *.
    replace (4 + len (enc t v) <? BYTES_PER_LENGTH_OFFSET) with false by (unfold BYTES_PER_LENGTH_OFFSET; lia).
    unfold split_at. rewrite len_app, encode_length_len.
    replace (BYTES_PER_LENGTH_OFFSET <=? 4 + len (enc t v)) with true by (unfold BYTES_PER_LENGTH_OFFSET; lia).
    cbn [bind fst snd]. change BYTES_PER_LENGTH_OFFSET with (len (encode_length 1)).
    rewrite take_app_exact, drop_app_exact.
    rewrite <- (app_nil_r (encode_length 1)), read_offset_encode_length by lia. cbn [bind N.eqb Pos.eqb].
    rewrite (IHt Hrt' v Hv) by lia. reflexivity.
Qed.
