(** The leaf-type facts hold ([BitfieldFacts.v]). *)
From SSZ Require Import Base Bitfield Types Codec Spec LeafIface BitfieldFacts.

Lemma leaf_facts : LeafFacts.
Proof.
  constructor.
  - exact bitvector_rt.
  - exact bitvector_canon.
  - exact bitvector_no_panic.
  - exact bitvector_spec.
  - exact bitvector_len.
  - exact bitvector_wfb.
  - exact bitlist_rt.
  - exact bitlist_canon.
  - exact bitlist_no_panic.
  - exact bitlist_spec.
  - exact bitlist_wfb.
  - exact bitdyn_rt.
  - exact bitdyn_canon.
  - exact bitdyn_no_panic.
  - exact bitdyn_spec.
  - exact bitdyn_wfb.
Qed.
