(** * GenPropsDerive: properties C01 C02 C07 C08 stated about the functions the derive macros of
    /repo expand to (GeneratedDerive.v): each composes the model-equals-expansion theorems of
    [GenEquivDerive] / [GenEquivDerive2] with the model theorem of the property; the subject of every
    statement is the source-derived term. *)
From SSZ Require Import Base RustSem Offsets Encoder Builder Types Codec CodecUnfold BaseFacts OffsetsFacts
     ListDecFacts Canon OrderFacts RoundTrip LeafIface LeafProof MetaFacts SizeFacts Strict
     Generated GenEquiv GenEquivDec GenEquivEnc GenProps GeneratedDerive GenEquivDerive GenEquivDerive2 GenEquivDerive3.
From Coq Require Import ZArith ZifyN ZifyBool ZifyNat Lia.
Open Scope N_scope.

Lemma collect_sorted_holds : CollectSorted.
Proof. intros kt m l Hk Hkeys Hs. exact (OrderFacts.collect_sorted kt m l Hk Hkeys Hs). Qed.

(** ** the three generic compositions *)

(** C01: decoding what the expanded encoder produced returns the value *)
Lemma src_round_trip {R} (T : ty) (inj : R -> val) (app : R -> bytes -> outcome bytes) (from : bytes -> outcome R) r :
  (forall r', inj r' = inj r -> r' = r) ->
  rt_type T = true -> has_ty T (inj r) = true -> len (enc T (inj r)) < two32 ->
  app r [] = Ok (append T (inj r) []) -> (forall bs, omap inj (from bs) = dec T bs) ->
  (do bs <- app r []; from bs) = Ok r.
Proof.
  intros Hinj Hrt Hty Hlen Happ Hfrom. rewrite Happ. cbn [bind].
  pose proof (rt_facts leaf_facts collect_sorted_holds T Hrt (inj r) Hty Hlen) as H.
  unfold enc in H. rewrite <- Hfrom in H.
  destruct (from (append T (inj r) [])) as [r'| |]; cbn [omap] in H; try discriminate.
  f_equal. apply Hinj. congruence.
Qed.

(** C02: what the expanded decoder accepts is what the expanded encoder produces for the result *)
Lemma src_canonical {R} (T : ty) (inj : R -> val) (app : R -> bytes -> outcome bytes) (from : bytes -> outcome R) bs r :
  canon_type T = true -> phys bs ->
  (forall bs, omap inj (from bs) = dec T bs) -> from bs = Ok r ->
  (has_ty T (inj r) = true -> len (enc T (inj r)) <= usize_max -> app r [] = Ok (append T (inj r) [])) ->
  app r [] = Ok bs.
Proof.
  intros Hc Hp Hfrom Hr Happ.
  assert (Hd : dec T bs = Ok (inj r)) by (rewrite <- Hfrom, Hr; reflexivity).
  destruct (canon_facts leaf_facts T Hc bs (inj r) Hp Hd) as (He & Hty).
  rewrite (Happ Hty) by (rewrite He; apply Hp). f_equal. exact He.
Qed.

(** C07: the expanded [ssz_bytes_len] predicts the length of what the expanded [ssz_append] writes *)
Lemma src_predicted_size {R} (T : ty) (inj : R -> val) (app : R -> bytes -> outcome bytes) (blen : R -> outcome N) r :
  has_ty T (inj r) = true ->
  app r [] = Ok (append T (inj r) []) -> blen r = Ok (bytes_len T (inj r)) ->
  exists bs n, app r [] = Ok bs /\ blen r = Ok n /\ len bs = n.
Proof.
  intros Hty Ha Hb. exists (append T (inj r) []), (bytes_len T (inj r)). repeat split; try assumption.
  symmetry. exact (proj1 (size_facts leaf_facts T (inj r) Hty)).
Qed.

(** ** injectivity of the value injections *)
Lemma map_VUint_inj l l' : map VUint l = map VUint l' -> l = l'.
Proof.
  revert l'. induction l as [|x r IH]; destruct l' as [|y r']; cbn [map]; intro H; try discriminate; [reflexivity|].
  injection H as Hx Hr. subst. f_equal. apply IH. exact Hr.
Qed.
Lemma v_list_inj l l' : v_list l = v_list l' -> l = l'.
Proof. unfold v_list. intro H. injection H as H. apply map_VUint_inj. exact H. Qed.
Lemma v_FixedPair_inj r r' : v_FixedPair r' = v_FixedPair r -> r' = r.
Proof. destruct r, r'. unfold v_FixedPair. cbn. intro H. injection H as -> ->. reflexivity. Qed.
Lemma v_Mixed_inj r r' : v_Mixed r' = v_Mixed r -> r' = r.
Proof.
  destruct r, r'. unfold v_Mixed. cbn. intro H. injection H as -> Hb -> Hd.
  apply map_VUint_inj in Hb. apply map_VUint_inj in Hd. subst. reflexivity.
Qed.
Lemma v_U2_inj u u' : v_U2 u' = v_U2 u -> u' = u.
Proof.
  destruct u, u'; unfold v_U2; intro H; try discriminate.
  - injection H as ->. reflexivity.
  - injection H as H. apply map_VUint_inj in H. subst. reflexivity.
Qed.
Lemma v_Tag3_inj t t' : v_Tag3 t' = v_Tag3 t -> t' = t.
Proof. destruct t, t'; cbn; intro H; try discriminate; reflexivity. Qed.
Lemma v_Wrap_inj w w' : v_Wrap w' = v_Wrap w -> w' = w.
Proof. destruct w, w'. unfold v_Wrap. cbn. intro H. apply v_list_inj in H. subst. reflexivity. Qed.
Lemma v_Fixed3_inj r r' : v_Fixed3 r' = v_Fixed3 r -> r' = r.
Proof. destruct r, r'. unfold v_Fixed3. cbn. intro H. injection H as -> -> ->. reflexivity. Qed.
Lemma v_Outer_inj r r' : v_Outer r' = v_Outer r -> r' = r.
Proof.
  destruct r as [x y z], r' as [x' y' z']. unfold v_Outer. cbn [GenD.Outer_x GenD.Outer_y GenD.Outer_z]. intro H.
  assert (Hx : v_FixedPair x' = v_FixedPair x)
    by exact (f_equal (fun v => match v with VCont (a :: _) => a | _ => VNone end) H).
  assert (Hy : v_Mixed y' = v_Mixed y)
    by exact (f_equal (fun v => match v with VCont (_ :: a :: _) => a | _ => VNone end) H).
  assert (Hz : v_U2 z' = v_U2 z)
    by exact (f_equal (fun v => match v with VCont (_ :: _ :: a :: _) => a | _ => VNone end) H).
  apply v_FixedPair_inj in Hx. apply v_Mixed_inj in Hy. apply v_U2_inj in Hz. subst. reflexivity.
Qed.

(** ** encoded sizes of the samples with variable parts *)
Lemma size_Mixed r : has_ty T_Mixed (v_Mixed r) = true ->
  len (enc T_Mixed (v_Mixed r)) = 14 + llen (GenD.Mixed_b r) + 2 * llen (GenD.Mixed_d r).
Proof.
  intro Hty. rewrite <- (proj1 (size_facts leaf_facts _ _ Hty)). unfold T_Mixed, v_Mixed.
  rewrite bytes_len_container. cbn [forallb e_is_fixed andb]. cbv iota.
  cbn [combine map sumN fst snd]. unfold field_len. cbn [e_is_fixed e_fixed_len].
  rewrite bytes_len_list_u8, bytes_len_list_u16. unfold BYTES_PER_LENGTH_OFFSET.
  change (N.of_nat 2) with 2. change (N.of_nat 4) with 4. lia.
Qed.
Lemma size_U2 u : has_ty T_U2 (v_U2 u) = true ->
  len (enc T_U2 (v_U2 u)) = match u with GenD.U2_A _ => 2 | GenD.U2_B x => 1 + llen x end.
Proof.
  intro Hty. rewrite <- (proj1 (size_facts leaf_facts _ _ Hty)). destruct u as [x|x]; [reflexivity|].
  change (bytes_len T_U2 (v_U2 (GenD.U2_B x))) with (bytes_len (TList (TUint 1)) (v_list x) + 1).
  rewrite bytes_len_list_u8. lia.
Qed.
Lemma size_Skip r : has_ty T_Skip (v_Skip r) = true ->
  len (enc T_Skip (v_Skip r)) = 6 + llen (GenD.Skip_c r).
Proof.
  intro Hty. rewrite <- (proj1 (size_facts leaf_facts _ _ Hty)). unfold T_Skip, v_Skip.
  rewrite bytes_len_container. cbn [forallb e_is_fixed andb]. cbv iota.
  cbn [combine map sumN fst snd]. unfold field_len. cbn [e_is_fixed e_fixed_len].
  rewrite bytes_len_list_u8. unfold BYTES_PER_LENGTH_OFFSET. change (N.of_nat 2) with 2. lia.
Qed.
Lemma size_Wrap w : len (enc T_Wrap (v_Wrap w)) = llen (GenD.Wrap_f0 w).
Proof. unfold T_Wrap, v_Wrap. change (enc (TWrap (TList (TUint 1))) ?v) with (append (TList (TUint 1)) v []). apply len_enc_list_u8. Qed.

Lemma usize_max_val : usize_max = 18446744073709551615.
Proof. reflexivity. Qed.

(** ** C01 on the expanded code *)
Theorem Src_C01_FixedPair r :
  has_ty T_FixedPair (v_FixedPair r) = true ->
  (do bs <- GenD.FixedPair_ssz_append r []; GenD.FixedPair_from_ssz_bytes bs) = Ok r.
Proof.
  intro Hty. apply (src_round_trip T_FixedPair v_FixedPair); try assumption; try reflexivity.
  - intros r'. apply v_FixedPair_inj.
  - apply derive_FixedPair_from_ssz_bytes.
Qed.

Theorem Src_C01_Mixed r :
  has_ty T_Mixed (v_Mixed r) = true -> len (enc T_Mixed (v_Mixed r)) < two32 ->
  (do bs <- GenD.Mixed_ssz_append r []; GenD.Mixed_from_ssz_bytes bs) = Ok r.
Proof.
  intros Hty Hlen. apply (src_round_trip T_Mixed v_Mixed); try assumption; try reflexivity.
  - intros r'. apply v_Mixed_inj.
  - apply derive_Mixed_ssz_append. rewrite (size_Mixed r Hty) in Hlen. unfold two32 in Hlen. pose proof usize_max_val. lia.
  - apply derive_Mixed_from_ssz_bytes.
Qed.

Theorem Src_C01_U2 u :
  has_ty T_U2 (v_U2 u) = true -> len (enc T_U2 (v_U2 u)) < two32 ->
  (do bs <- GenD.U2_ssz_append u []; GenD.U2_from_ssz_bytes bs) = Ok u.
Proof.
  intros Hty Hlen. apply (src_round_trip T_U2 v_U2); try assumption; try reflexivity.
  - intros u'. apply v_U2_inj.
  - apply derive_U2_ssz_append. rewrite (size_U2 u Hty) in Hlen. unfold two32 in Hlen. pose proof usize_max_val.
    destruct u; [exact I | lia].
  - apply derive_U2_from_ssz_bytes.
Qed.

Theorem Src_C01_Tag3 t : (do bs <- GenD.Tag3_ssz_append t []; GenD.Tag3_from_ssz_bytes bs) = Ok t.
Proof. destruct t; reflexivity. Qed.

Theorem Src_C01_Wrap w :
  has_ty T_Wrap (v_Wrap w) = true -> len (enc T_Wrap (v_Wrap w)) < two32 ->
  (do bs <- GenD.Wrap_ssz_append w []; GenD.Wrap_from_ssz_bytes bs) = Ok w.
Proof.
  intros Hty Hlen. apply (src_round_trip T_Wrap v_Wrap); try assumption; try reflexivity.
  - intros w'. apply v_Wrap_inj.
  - apply derive_Wrap_ssz_append. rewrite size_Wrap in Hlen. unfold two32 in Hlen. pose proof usize_max_val. lia.
  - apply derive_Wrap_from_ssz_bytes.
Qed.

Theorem Src_C01_Fixed3 r :
  has_ty T_Fixed3 (v_Fixed3 r) = true ->
  (do bs <- GenD.Fixed3_ssz_append r []; GenD.Fixed3_from_ssz_bytes bs) = Ok r.
Proof.
  intro Hty. apply (src_round_trip T_Fixed3 v_Fixed3); try assumption; try reflexivity;
    try (intros r'; apply v_Fixed3_inj); try apply derive_Fixed3_ssz_append; try apply derive_Fixed3_from_ssz_bytes.
  all: try (rewrite <- (proj1 (size_facts leaf_facts _ _ Hty)); vm_compute; reflexivity).
Qed.

(** typing and size of a nested definition come apart into those of its fields *)
Lemma has_ty_Outer r : has_ty T_Outer (v_Outer r) = true ->
  has_ty T_FixedPair (v_FixedPair (GenD.Outer_x r)) = true /\ has_ty T_Mixed (v_Mixed (GenD.Outer_y r)) = true /\
  has_ty T_U2 (v_U2 (GenD.Outer_z r)) = true.
Proof.
  unfold T_Outer, v_Outer. intro H. rewrite has_ty_container, !has_ty_fields_cons in H.
  apply andb_prop in H. destruct H as (Hx & H). apply andb_prop in H. destruct H as (Hy & H).
  apply andb_prop in H. destruct H as (Hz & _). repeat split; assumption.
Qed.

Lemma size_Outer r : has_ty T_Outer (v_Outer r) = true ->
  len (enc T_Outer (v_Outer r)) = 11 + len (enc T_Mixed (v_Mixed (GenD.Outer_y r))) + len (enc T_U2 (v_U2 (GenD.Outer_z r))).
Proof.
  intro Hty. destruct (has_ty_Outer r Hty) as (Hx & Hy & Hz).
  rewrite <- (proj1 (size_facts leaf_facts _ _ Hty)), <- (proj1 (size_facts leaf_facts _ _ Hy)), <- (proj1 (size_facts leaf_facts _ _ Hz)).
  unfold T_Outer, v_Outer. rewrite bytes_len_container.
  change (forallb e_is_fixed [T_FixedPair; T_Mixed; T_U2]) with false. cbv iota.
  cbn [combine map sumN fst snd]. unfold field_len.
  change (e_is_fixed T_FixedPair) with true. change (e_is_fixed T_Mixed) with false. change (e_is_fixed T_U2) with false.
  change (e_fixed_len T_FixedPair) with 3. cbv iota. unfold BYTES_PER_LENGTH_OFFSET. lia.
Qed.

Lemma Outer_append_ok r : has_ty T_Outer (v_Outer r) = true -> len (enc T_Outer (v_Outer r)) <= usize_max ->
  GenD.Outer_ssz_append r [] = Ok (append T_Outer (v_Outer r) []).
Proof.
  intros Hty Hlen. destruct (has_ty_Outer r Hty) as (Hx & Hy & Hz).
  rewrite (size_Outer r Hty) in Hlen. pose proof (size_Mixed _ Hy) as SM. pose proof (size_U2 _ Hz) as SU.
  apply derive_Outer_ssz_append.
  - lia.
  - destruct (GenD.Outer_z r); [exact I | lia].
  - rewrite llen_len. change (append T_Mixed ?v []) with (enc T_Mixed v). lia.
Qed.

Theorem Src_C01_Outer r :
  has_ty T_Outer (v_Outer r) = true -> len (enc T_Outer (v_Outer r)) < two32 ->
  (do bs <- GenD.Outer_ssz_append r []; GenD.Outer_from_ssz_bytes bs) = Ok r.
Proof.
  intros Hty Hlen. apply (src_round_trip T_Outer v_Outer); try assumption; try reflexivity.
  - intros r'. apply v_Outer_inj.
  - apply Outer_append_ok; [exact Hty|]. unfold two32 in Hlen. pose proof usize_max_val. lia.
  - apply derive_Outer_from_ssz_bytes.
Qed.

(** a skipped field does not survive the round trip: it comes back as the type's default *)
Theorem Src_C01_Skip r :
  has_ty T_Skip (v_Skip r) = true -> len (enc T_Skip (v_Skip r)) < two32 ->
  (do bs <- GenD.Skip_ssz_append r []; GenD.Skip_from_ssz_bytes bs) = Ok (GenD.set_Skip_b r 0).
Proof.
  intros Hty Hlen.
  rewrite derive_Skip_ssz_append by (rewrite (size_Skip r Hty) in Hlen; unfold two32 in Hlen; pose proof usize_max_val; lia).
  cbn [bind].
  pose proof (rt_facts leaf_facts collect_sorted_holds T_Skip eq_refl (v_Skip r) Hty Hlen) as H. unfold enc in H.
  destruct (derive_Skip_from_ssz_bytes (append T_Skip (v_Skip r) [])) as (Hd & Hb). rewrite <- Hd in H.
  destruct (GenD.Skip_from_ssz_bytes (append T_Skip (v_Skip r) [])) as [r'| |]; cbn [omap] in H; try discriminate.
  specialize (Hb r' eq_refl). f_equal. destruct r as [a b c], r' as [a' b' c']. cbn [GenD.Skip_b] in Hb. subst b'.
  unfold v_Skip in H. cbn [GenD.Skip_a GenD.Skip_c] in H. injection H as Ha Hc. apply map_VUint_inj in Hc. subst. reflexivity.
Qed.

(** ** C02 on the expanded code: accepted inputs are canonical *)
Theorem Src_C02_FixedPair bs r : phys bs -> GenD.FixedPair_from_ssz_bytes bs = Ok r -> GenD.FixedPair_ssz_append r [] = Ok bs.
Proof.
  intros Hp Hr. apply (src_canonical T_FixedPair v_FixedPair _ GenD.FixedPair_from_ssz_bytes bs r eq_refl Hp derive_FixedPair_from_ssz_bytes Hr).
  intros _ _. apply derive_FixedPair_ssz_append.
Qed.
Theorem Src_C02_Fixed3 bs r : phys bs -> GenD.Fixed3_from_ssz_bytes bs = Ok r -> GenD.Fixed3_ssz_append r [] = Ok bs.
Proof.
  intros Hp Hr. apply (src_canonical T_Fixed3 v_Fixed3 _ GenD.Fixed3_from_ssz_bytes bs r eq_refl Hp derive_Fixed3_from_ssz_bytes Hr).
  intros _ _. apply derive_Fixed3_ssz_append.
Qed.
Theorem Src_C02_Mixed bs r : phys bs -> GenD.Mixed_from_ssz_bytes bs = Ok r -> GenD.Mixed_ssz_append r [] = Ok bs.
Proof.
  intros Hp Hr. apply (src_canonical T_Mixed v_Mixed _ GenD.Mixed_from_ssz_bytes bs r eq_refl Hp derive_Mixed_from_ssz_bytes Hr).
  intros Hty Hlen. apply derive_Mixed_ssz_append. rewrite (size_Mixed r Hty) in Hlen. exact Hlen.
Qed.
Theorem Src_C02_U2 bs u : phys bs -> GenD.U2_from_ssz_bytes bs = Ok u -> GenD.U2_ssz_append u [] = Ok bs.
Proof.
  intros Hp Hr. apply (src_canonical T_U2 v_U2 _ GenD.U2_from_ssz_bytes bs u eq_refl Hp derive_U2_from_ssz_bytes Hr).
  intros Hty Hlen. apply derive_U2_ssz_append. rewrite (size_U2 u Hty) in Hlen. destruct u; [exact I | lia].
Qed.
Theorem Src_C02_Tag3 bs t : phys bs -> GenD.Tag3_from_ssz_bytes bs = Ok t -> GenD.Tag3_ssz_append t [] = Ok bs.
Proof.
  intros Hp Hr. apply (src_canonical T_Tag3 v_Tag3 _ GenD.Tag3_from_ssz_bytes bs t eq_refl Hp derive_Tag3_from_ssz_bytes Hr).
  intros _ _. apply derive_Tag3_ssz_append.
Qed.
Theorem Src_C02_Wrap bs w : phys bs -> GenD.Wrap_from_ssz_bytes bs = Ok w -> GenD.Wrap_ssz_append w [] = Ok bs.
Proof.
  intros Hp Hr. apply (src_canonical T_Wrap v_Wrap _ GenD.Wrap_from_ssz_bytes bs w eq_refl Hp derive_Wrap_from_ssz_bytes Hr).
  intros _ Hlen. apply derive_Wrap_ssz_append. rewrite size_Wrap in Hlen. exact Hlen.
Qed.
Theorem Src_C02_Skip bs r : phys bs -> GenD.Skip_from_ssz_bytes bs = Ok r -> GenD.Skip_ssz_append r [] = Ok bs.
Proof.
  intros Hp Hr. apply (src_canonical T_Skip v_Skip _ GenD.Skip_from_ssz_bytes bs r eq_refl Hp (fun b => proj1 (derive_Skip_from_ssz_bytes b)) Hr).
  intros Hty Hlen. apply derive_Skip_ssz_append. rewrite (size_Skip r Hty) in Hlen. exact Hlen.
Qed.
Theorem Src_C02_Outer bs r : phys bs -> GenD.Outer_from_ssz_bytes bs = Ok r -> GenD.Outer_ssz_append r [] = Ok bs.
Proof.
  intros Hp Hr. apply (src_canonical T_Outer v_Outer _ GenD.Outer_from_ssz_bytes bs r eq_refl Hp derive_Outer_from_ssz_bytes Hr).
  apply Outer_append_ok.
Qed.

(** ** C07 on the expanded code: the expanded size function predicts what the expanded encoder writes *)
Theorem Src_C07_Mixed r :
  has_ty T_Mixed (v_Mixed r) = true -> len (enc T_Mixed (v_Mixed r)) <= usize_max ->
  exists bs n, GenD.Mixed_ssz_append r [] = Ok bs /\ GenD.Mixed_ssz_bytes_len r = Ok n /\ len bs = n.
Proof.
  intros Hty Hlen. rewrite (size_Mixed r Hty) in Hlen.
  apply (src_predicted_size T_Mixed v_Mixed); [exact Hty | apply derive_Mixed_ssz_append; exact Hlen | apply derive_Mixed_ssz_bytes_len; exact Hlen].
Qed.
Theorem Src_C07_Outer r :
  has_ty T_Outer (v_Outer r) = true -> len (enc T_Outer (v_Outer r)) <= usize_max ->
  exists bs n, GenD.Outer_ssz_append r [] = Ok bs /\ GenD.Outer_ssz_bytes_len r = Ok n /\ len bs = n.
Proof.
  intros Hty Hlen. apply (src_predicted_size T_Outer v_Outer); [exact Hty | apply Outer_append_ok; assumption |].
  destruct (has_ty_Outer r Hty) as (Hx & Hy & Hz).
  rewrite (size_Outer r Hty) in Hlen. pose proof (size_Mixed _ Hy) as SM. pose proof (size_U2 _ Hz) as SU.
  apply derive_Outer_ssz_bytes_len.
  - lia.
  - destruct (GenD.Outer_z r); [exact I | lia].
  - rewrite (proj1 (size_facts leaf_facts _ _ Hy)), (proj1 (size_facts leaf_facts _ _ Hz)). lia.
Qed.
Theorem Src_C07_Skip r :
  has_ty T_Skip (v_Skip r) = true -> len (enc T_Skip (v_Skip r)) <= usize_max ->
  exists bs n, GenD.Skip_ssz_append r [] = Ok bs /\ GenD.Skip_ssz_bytes_len r = Ok n /\ len bs = n.
Proof.
  intros Hty Hlen. rewrite (size_Skip r Hty) in Hlen.
  apply (src_predicted_size T_Skip v_Skip); [exact Hty | apply derive_Skip_ssz_append; exact Hlen | apply derive_Skip_ssz_bytes_len; exact Hlen].
Qed.

(** ** C15 on the expanded union: the selector is the declaration index, nothing above it is accepted *)
Theorem Src_C15_U2_selectors s body :
  GenD.U2_from_ssz_bytes (s :: body) <> Err -> s = 0 \/ s = 1.
Proof.
  intro H. pose proof (derive_U2_from_ssz_bytes (s :: body)) as E. unfold T_U2 in E. rewrite dec_union2 in E.
  rewrite split_union_bytes_spec in E.
  destruct (s <=? 127); cbn [bind] in E.
  - destruct (N.eq_dec s 0) as [->|H0]; [left; reflexivity|]. destruct (N.eq_dec s 1) as [->|H1]; [right; reflexivity|].
    replace (s =? 0) with false in E by (symmetry; apply N.eqb_neq; exact H0).
    replace (s =? 1) with false in E by (symmetry; apply N.eqb_neq; exact H1).
    destruct (GenD.U2_from_ssz_bytes (s :: body)); cbn [omap] in E; try discriminate. contradiction.
  - destruct (GenD.U2_from_ssz_bytes (s :: body)); cbn [omap] in E; try discriminate. contradiction.
Qed.

(** ** C17 on the expanded [four_byte_option_impl!] modules and on a container that uses them *)
Lemma v_opt_u64_inj o o' : v_opt_u64 o' = v_opt_u64 o -> o' = o.
Proof. destruct o, o'; cbn; intro H; try discriminate; [injection H as ->|]; reflexivity. Qed.
Lemma v_opt_vec_inj o o' : v_opt_vec o' = v_opt_vec o -> o' = o.
Proof.
  destruct o as [l|], o' as [l'|]; cbn; intro H; try discriminate; [|reflexivity].
  injection H as H. apply map_VUint_inj in H. subst. reflexivity.
Qed.

Theorem Src_C17_u64_encoding x :
  GenD.legacy_u64__encode__as_ssz_bytes None = Ok [0; 0; 0; 0] /\
  GenD.legacy_u64__encode__as_ssz_bytes (Some x) = Ok ([1; 0; 0; 0] ++ le_bytes 8 x) /\
  GenD.legacy_u64__encode__ssz_bytes_len None = Ok 4 /\ GenD.legacy_u64__encode__ssz_bytes_len (Some x) = Ok 12.
Proof. repeat split. Qed.

Theorem Src_C17_u64_round_trip o :
  has_ty T_Lu64 (v_opt_u64 o) = true ->
  (do bs <- GenD.legacy_u64__encode__ssz_append o []; GenD.legacy_u64__decode__from_ssz_bytes bs) = Ok o.
Proof.
  intro Hty. apply (src_round_trip T_Lu64 v_opt_u64); try assumption; try reflexivity;
    try (intros o'; apply v_opt_u64_inj); try apply derive_legacy_u64_ssz_append; try apply derive_legacy_u64_from_ssz_bytes.
  all: try (rewrite <- (proj1 (size_facts leaf_facts _ _ Hty)); destruct o; vm_compute; reflexivity).
Qed.

Theorem Src_C17_u64_strict bs :
  (len bs < 4 -> GenD.legacy_u64__decode__from_ssz_bytes bs = Err) /\
  (forall o, phys bs -> GenD.legacy_u64__decode__from_ssz_bytes bs = Ok o -> GenD.legacy_u64__encode__as_ssz_bytes o = Ok bs).
Proof.
  split.
  - intro H. pose proof (derive_legacy_u64_from_ssz_bytes bs) as E. unfold T_Lu64 in E. rewrite (legacy_short (TUint 8) bs H) in E.
    destruct (GenD.legacy_u64__decode__from_ssz_bytes bs); cbn [omap] in E; try discriminate. reflexivity.
  - intros o Hp Hr. rewrite derive_legacy_u64_as_ssz_bytes. f_equal.
    assert (Hd : dec T_Lu64 bs = Ok (v_opt_u64 o)) by (rewrite <- derive_legacy_u64_from_ssz_bytes, Hr; reflexivity).
    exact (proj1 (canon_facts leaf_facts T_Lu64 eq_refl bs _ Hp Hd)).
Qed.

Theorem Src_C17_vec_round_trip o :
  has_ty T_Lvec (v_opt_vec o) = true -> len (enc T_Lvec (v_opt_vec o)) < two32 ->
  (do bs <- GenD.legacy_vec__encode__ssz_append o []; GenD.legacy_vec__decode__from_ssz_bytes bs) = Ok o.
Proof.
  intros Hty Hlen. apply (src_round_trip T_Lvec v_opt_vec); try assumption; try reflexivity.
  - intros o'. apply v_opt_vec_inj.
  - apply derive_legacy_vec_ssz_append. destruct o as [l|]; [|exact I].
    rewrite <- (proj1 (size_facts leaf_facts _ _ Hty)) in Hlen.
    change (bytes_len T_Lvec (v_opt_vec (Some l))) with (bytes_len (TList (TUint 1)) (v_list l) + BYTES_PER_LENGTH_OFFSET) in Hlen.
    rewrite bytes_len_list_u8 in Hlen. unfold two32 in Hlen. pose proof usize_max_val. lia.
  - apply derive_legacy_vec_from_ssz_bytes.
Qed.

Theorem Src_C17_vec_strict bs o :
  phys bs -> GenD.legacy_vec__decode__from_ssz_bytes bs = Ok o -> GenD.legacy_vec__encode__ssz_append o [] = Ok bs.
Proof.
  intros Hp Hr. apply (src_canonical T_Lvec v_opt_vec _ GenD.legacy_vec__decode__from_ssz_bytes bs o eq_refl Hp derive_legacy_vec_from_ssz_bytes Hr).
  intros Hty Hlen. apply derive_legacy_vec_ssz_append. destruct o as [l|]; [|exact I].
  rewrite <- (proj1 (size_facts leaf_facts _ _ Hty)) in Hlen.
  change (bytes_len T_Lvec (v_opt_vec (Some l))) with (bytes_len (TList (TUint 1)) (v_list l) + BYTES_PER_LENGTH_OFFSET) in Hlen.
  rewrite bytes_len_list_u8 in Hlen. lia.
Qed.

(** as a field codec inside a derived container *)
Lemma v_WithLegacy_inj r r' : v_WithLegacy r' = v_WithLegacy r -> r' = r.
Proof.
  destruct r as [a b c], r' as [a' b' c']. unfold v_WithLegacy. cbn [GenD.WithLegacy_a GenD.WithLegacy_b GenD.WithLegacy_c]. intro H.
  assert (Ha : VUint a' = VUint a) by exact (f_equal (fun v => match v with VCont (x :: _) => x | _ => VNone end) H).
  assert (Hb : v_opt_u64 b' = v_opt_u64 b) by exact (f_equal (fun v => match v with VCont (_ :: x :: _) => x | _ => VNone end) H).
  assert (Hc : v_opt_vec c' = v_opt_vec c) by exact (f_equal (fun v => match v with VCont (_ :: _ :: x :: _) => x | _ => VNone end) H).
  injection Ha as ->. apply v_opt_u64_inj in Hb. apply v_opt_vec_inj in Hc. subst. reflexivity.
Qed.

Lemma size_WithLegacy r : has_ty T_WithLegacy (v_WithLegacy r) = true ->
  len (enc T_WithLegacy (v_WithLegacy r)) =
  10 + (match GenD.WithLegacy_b r with Some _ => 12 | None => 4 end) + (match GenD.WithLegacy_c r with Some l => llen l + 4 | None => 4 end).
Proof.
  intro Hty. rewrite <- (proj1 (size_facts leaf_facts _ _ Hty)). destruct r as [a b c]. unfold T_WithLegacy, v_WithLegacy.
  cbn [GenD.WithLegacy_a GenD.WithLegacy_b GenD.WithLegacy_c].
  rewrite bytes_len_container. change (forallb e_is_fixed [TUint 2; T_Lu64; T_Lvec]) with false. cbv iota.
  cbn [combine map sumN fst snd]. unfold field_len.
  change (e_is_fixed (TUint 2)) with true. change (e_is_fixed T_Lu64) with false. change (e_is_fixed T_Lvec) with false.
  change (e_fixed_len (TUint 2)) with 2. cbv iota. unfold BYTES_PER_LENGTH_OFFSET.
  assert (HB : bytes_len T_Lu64 (v_opt_u64 b) = match b with Some _ => 12 | None => 4 end) by (destruct b; reflexivity).
  assert (HC : bytes_len T_Lvec (v_opt_vec c) = match c with Some l => llen l + 4 | None => 4 end).
  { destruct c as [l|]; [|reflexivity].
    change (bytes_len T_Lvec (v_opt_vec (Some l))) with (bytes_len (TList (TUint 1)) (v_list l) + BYTES_PER_LENGTH_OFFSET).
    rewrite bytes_len_list_u8. reflexivity. }
  rewrite HB, HC. lia.
Qed.

Theorem Src_C17_round_trip_as_field r :
  has_ty T_WithLegacy (v_WithLegacy r) = true -> len (enc T_WithLegacy (v_WithLegacy r)) < two32 ->
  (do bs <- GenD.WithLegacy_ssz_append r []; GenD.WithLegacy_from_ssz_bytes bs) = Ok r.
Proof.
  intros Hty Hlen. apply (src_round_trip T_WithLegacy v_WithLegacy); try assumption; try reflexivity.
  - intros r'. apply v_WithLegacy_inj.
  - apply derive_WithLegacy_ssz_append. rewrite (size_WithLegacy r Hty) in Hlen. unfold two32 in Hlen. pose proof usize_max_val.
    destruct (GenD.WithLegacy_c r); [|exact I]. destruct (GenD.WithLegacy_b r); lia.
  - apply derive_WithLegacy_from_ssz_bytes.
Qed.

Theorem Src_C17_canonical_as_field bs r :
  phys bs -> GenD.WithLegacy_from_ssz_bytes bs = Ok r -> GenD.WithLegacy_ssz_append r [] = Ok bs.
Proof.
  intros Hp Hr. apply (src_canonical T_WithLegacy v_WithLegacy _ GenD.WithLegacy_from_ssz_bytes bs r eq_refl Hp derive_WithLegacy_from_ssz_bytes Hr).
  intros Hty Hlen. apply derive_WithLegacy_ssz_append. rewrite (size_WithLegacy r Hty) in Hlen.
  destruct (GenD.WithLegacy_c r); [|exact I]. destruct (GenD.WithLegacy_b r); lia.
Qed.

Example ex_WithLegacy :
  let r := {| GenD.WithLegacy_a := 258; GenD.WithLegacy_b := Some 5; GenD.WithLegacy_c := Some [9; 8] |} in
  has_ty T_WithLegacy (v_WithLegacy r) = true /\
  GenD.WithLegacy_ssz_append r [] = Ok [2; 1; 10; 0; 0; 0; 22; 0; 0; 0; 1; 0; 0; 0; 5; 0; 0; 0; 0; 0; 0; 0; 1; 0; 0; 0; 9; 8] /\
  (do bs <- GenD.WithLegacy_ssz_append r []; GenD.WithLegacy_from_ssz_bytes bs) = Ok r /\
  GenD.legacy_u64__decode__from_ssz_bytes [2; 0; 0; 0] = Err /\ GenD.legacy_u64__decode__from_ssz_bytes [0; 0; 0] = Err /\
  GenD.legacy_u64__decode__from_ssz_bytes [0; 0; 0; 0; 0] = Err.
Proof. vm_compute. repeat split. Qed.

(** ** the hypotheses are satisfiable: concrete values, evaluated by the kernel through the expanded code *)
Example ex_Mixed :
  let r := {| GenD.Mixed_a := 513; GenD.Mixed_b := [1; 2; 3]; GenD.Mixed_c := 70000; GenD.Mixed_d := [258; 65535] |} in
  has_ty T_Mixed (v_Mixed r) = true /\ len (enc T_Mixed (v_Mixed r)) <? two32 = true /\
  GenD.Mixed_ssz_append r [] = Ok [1; 2; 14; 0; 0; 0; 112; 17; 1; 0; 17; 0; 0; 0; 1; 2; 3; 2; 1; 255; 255] /\
  (do bs <- GenD.Mixed_ssz_append r []; GenD.Mixed_from_ssz_bytes bs) = Ok r.
Proof. vm_compute. repeat split. Qed.
Example ex_Outer :
  let r := {| GenD.Outer_x := {| GenD.FixedPair_a := 7; GenD.FixedPair_b := 9 |};
              GenD.Outer_y := {| GenD.Mixed_a := 1; GenD.Mixed_b := [5]; GenD.Mixed_c := 2; GenD.Mixed_d := [] |};
              GenD.Outer_z := GenD.U2_B [4; 4] |} in
  has_ty T_Outer (v_Outer r) = true /\
  (do bs <- GenD.Outer_ssz_append r []; GenD.Outer_from_ssz_bytes bs) = Ok r /\
  (do bs <- GenD.Outer_ssz_append r []; do n <- GenD.Outer_ssz_bytes_len r; Ok (len bs =? n)) = Ok true.
Proof. vm_compute. repeat split. Qed.
Example ex_Skip :
  let r := {| GenD.Skip_a := 300; GenD.Skip_b := 77; GenD.Skip_c := [1; 2] |} in
  has_ty T_Skip (v_Skip r) = true /\
  (do bs <- GenD.Skip_ssz_append r []; GenD.Skip_from_ssz_bytes bs) = Ok {| GenD.Skip_a := 300; GenD.Skip_b := 0; GenD.Skip_c := [1; 2] |}.
Proof. vm_compute. repeat split. Qed.
Example ex_U2_rejects_2 : GenD.U2_from_ssz_bytes [2; 0] = Err /\ GenD.U2_from_ssz_bytes [1; 9; 9] = Ok (GenD.U2_B [9; 9]).
Proof. vm_compute. repeat split. Qed.

Print Assumptions Src_C01_FixedPair.
Print Assumptions Src_C01_Mixed.
Print Assumptions Src_C01_U2.
Print Assumptions Src_C01_Tag3.
Print Assumptions Src_C01_Wrap.
Print Assumptions Src_C01_Fixed3.
Print Assumptions Src_C01_Outer.
Print Assumptions Src_C01_Skip.
Print Assumptions Src_C02_FixedPair.
Print Assumptions Src_C02_Fixed3.
Print Assumptions Src_C02_Mixed.
Print Assumptions Src_C02_U2.
Print Assumptions Src_C02_Tag3.
Print Assumptions Src_C02_Wrap.
Print Assumptions Src_C02_Skip.
Print Assumptions Src_C02_Outer.
Print Assumptions Src_C07_Mixed.
Print Assumptions Src_C07_Outer.
Print Assumptions Src_C07_Skip.
Print Assumptions Src_C15_U2_selectors.
Print Assumptions Src_C17_u64_encoding.
Print Assumptions Src_C17_u64_round_trip.
Print Assumptions Src_C17_u64_strict.
Print Assumptions Src_C17_vec_round_trip.
Print Assumptions Src_C17_vec_strict.
Print Assumptions Src_C17_round_trip_as_field.
Print Assumptions Src_C17_canonical_as_field.
