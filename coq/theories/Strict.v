(** * Exact accept sets (C04), fixed-size inputs (C07), union selectors (C15), legacy options
    (C17) and ordered collections (C19): corollaries of round trip, canonicity and the wire
    format. *)
From SSZ Require Import Base BaseFacts Offsets OffsetsFacts Encoder EncoderFacts Builder BuilderFacts
     Layout LayoutFacts Bitfield BitfieldFacts Types Codec Spec CodecUnfold MetaFacts AppendFacts
     LeafIface LeafProof SizeFacts ListDecFacts SpecFacts WfbFacts OrderFacts RoundTrip Canon NoPanic.
From Coq Require Import ZArith ZifyN ZifyNat ZifyBool.
Ltac Zify.zify_post_hook ::= Z.div_mod_to_equations.
Open Scope N_scope.

Lemma collect_sorted_holds : CollectSorted.
Proof. intros kt m l Hk Hkeys Hs. exact (collect_sorted kt m l Hk Hkeys Hs). Qed.

Lemma dec_list_eq t bs :
  dec (TList t) bs = omap VList (dec_seq (d_is_fixed t) (d_fixed_len t) (dec t) bs).
Proof. reflexivity. Qed.
Lemma dec_set_eq t bs :
  dec (TSet t) bs = omap (fun l => VList (collect_entries false l)) (dec_seq (d_is_fixed t) (d_fixed_len t) (dec t) bs).
Proof. reflexivity. Qed.

(** C04 for strict types: decoding succeeds exactly on the valid serializations and returns
    the value the specification assigns. *)
Definition strict_type (t : ty) : bool := canon_type t && rt_type t.

Theorem dec_iff_valid t bs v :
  strict_type t = true -> phys bs -> len bs < 4294967296 ->
  (dec t bs = Ok v <-> Valid t bs v).
Proof.
  intros Hs Hp Hl. unfold strict_type in Hs. apply andb_prop in Hs as [Hc Hr]. split.
  - intros Hd. destruct (canon_facts leaf_facts t Hc bs v Hp Hd) as [He Hty].
    split; [exact Hty|]. rewrite <- (spec_facts leaf_facts t v Hty). exact He.
  - intros [Hty Hsp]. rewrite <- (spec_facts leaf_facts t v Hty) in Hsp. subst bs.
    exact (rt_facts leaf_facts collect_sorted_holds t Hr v Hty Hl).
Qed.

(** Sets: whatever is accepted is a well-formed element list, and the result is the collection
    of its elements. *)
Theorem dec_set_forward t bs m :
  canon_type t = true -> phys bs -> dec (TSet t) bs = Ok m ->
  exists es, dec (TList t) bs = Ok (VList es) /\ Valid (TList t) bs (VList es) /\
             m = VList (collect_entries false es).
Proof.
  intros Hc Hp Hd. rewrite dec_set_eq in Hd. apply omap_ok in Hd as (es & Hd & ->).
  exists es. assert (Hl : dec (TList t) bs = Ok (VList es)) by (rewrite dec_list_eq; now rewrite Hd).
  split; [exact Hl|]. split; [|reflexivity].
  assert (Hcl : canon_type (TList t) = true).
  { unfold canon_type in *. cbn [ty_all]. now rewrite Hc. }
  destruct (canon_facts leaf_facts (TList t) Hcl bs _ Hp Hl) as [He Hty].
  split; [exact Hty|]. now rewrite <- (spec_facts leaf_facts _ _ Hty).
Qed.

Theorem dec_map_forward k v bs m :
  canon_type k = true -> canon_type v = true -> phys bs -> dec (TMap k v) bs = Ok m ->
  exists es, dec (TList (TContainer false [k; v])) bs = Ok (VList es) /\
             Valid (TList (TContainer false [k; v])) bs (VList es) /\
             m = VList (collect_entries true es).
Proof.
  intros Hk Hv Hp Hd. rewrite dec_map_eq in Hd. apply omap_ok in Hd as (es & Hd & ->).
  exists es. assert (Hl : dec (TList (TContainer false [k; v])) bs = Ok (VList es)) by (rewrite dec_list_eq; now rewrite Hd).
  split; [exact Hl|]. split; [|reflexivity].
  assert (Hcl : canon_type (TList (TContainer false [k; v])) = true).
  { unfold canon_type in *. cbn [ty_all]. now rewrite Hk, Hv. }
  destruct (canon_facts leaf_facts _ Hcl bs _ Hp Hl) as [He Hty].
  split; [exact Hty|]. now rewrite <- (spec_facts leaf_facts _ _ Hty).
Qed.

(** C07: a fixed-size type accepts only inputs of its fixed length. *)
Lemma tiles_all_fixed_len regs bs slices :
  Tiles regs bs slices -> forallb (fun r : bool * N => fst r) regs = true ->
  len bs = sumN (map snd regs).
Proof.
  intros (Hl & Hfix & _ & ->) Hall. cbv zeta in *. rewrite asm_len.
  revert slices Hl Hfix. induction regs as [|[f l] regs IH]; intros [|s slices] Hl Hfix; try discriminate; [reflexivity|].
  cbn [forallb fst] in Hall. apply andb_prop in Hall as [Hf Hall]. subst f.
  inversion Hfix as [|? ? ? ? Hs Hr]; subst. cbn [map combine sumN fst snd].
  rewrite (IH Hall slices ltac:(cbn [length] in Hl; lia) Hr). cbn [fst snd] in Hs. rewrite (Hs eq_refl). reflexivity.
Qed.

Theorem fixed_dec_len t : d_is_fixed t = true ->
  forall bs v, phys bs -> dec t bs = Ok v -> len bs = d_fixed_len t.
Proof.
  induction t using ty_ind'; intros Hf bs v Hp Hd; try discriminate.
  - cbn [dec] in Hd. destruct (len bs =? N.of_nat k) eqn:E; [|discriminate]. now apply N.eqb_eq in E.
  - cbn [dec] in Hd. unfold dec_bool in Hd. destruct bs as [|b [|? ?]]; try discriminate. reflexivity.
  - cbn [dec] in Hd. destruct (len bs =? 8) eqn:E; [|discriminate]. now apply N.eqb_eq in E.
  - cbn [dec] in Hd. destruct (len bs =? N.of_nat n) eqn:E; [|discriminate]. now apply N.eqb_eq in E.
  - (* TContainer *) rewrite d_is_fixed_container in Hf. rewrite d_fixed_len_container, Hf.
    rewrite dec_container in Hd. rewrite Hf, andb_true_r in Hd. destruct d.
    + destruct (negb (len bs =? sumN (map d_fixed_len fs))) eqn:E; [discriminate|].
      now apply negb_false_iff, N.eqb_eq in E.
    + apply bind_ok in Hd as (items & Hb & _).
      apply (builder_build_tiles _ _ _ (proj1 Hp) (proj2 Hp)) in Hb.
      rewrite (tiles_all_fixed_len _ _ _ Hb).
      * unfold regs_of. now rewrite map_map.
      * unfold regs_of. rewrite forallb_forall in *. intros r Hr. apply in_map_iff in Hr as (f & <- & Hin).
        cbn [fst]. now apply Hf.
  - cbn [dec] in Hd. destruct bs as [|b [|? ?]]; try discriminate. reflexivity.
  - exact (IHt Hf bs v Hp Hd).
  - cbn [dec] in Hd. apply omap_ok in Hd as (b & Hd & _).
    destruct (from_raw_bytes_Inv bs n b (proj1 Hp) Hd) as ((Hl & _) & Hb & Hn). now rewrite <- Hb, <- Hn.
Qed.

(** C15: the selector rules of derived unions, for every selector byte and body. *)
Theorem dec_union_selector ts s body :
  dec (TUnion ts) (s :: body) =
  if s <=? 127 then
    match nth_error ts (N.to_nat s) with
    | Some t => omap (VUnion (N.to_nat s)) (dec t body)
    | None => Err
    end
  else Err.
Proof.
  rewrite dec_union, split_union_bytes_spec. destruct (s <=? 127); reflexivity.
Qed.
Theorem dec_union_empty ts : dec (TUnion ts) [] = Err.
Proof. now rewrite dec_union. Qed.
Theorem dec_union_undeclared ts s body :
  (length ts <= N.to_nat s)%nat -> dec (TUnion ts) (s :: body) = Err.
Proof.
  intros H. rewrite dec_union_selector. destruct (s <=? 127); [|reflexivity].
  now rewrite (proj2 (nth_error_None ts (N.to_nat s)) H).
Qed.
Theorem dec_option_selector t s body :
  dec (TOption t) (s :: body) =
  if s =? 0 then (match body with [] => Ok VNone | _ => Err end)
  else if s =? 1 then omap VSome (dec t body) else Err.
Proof.
  cbn [dec]. rewrite split_union_bytes_spec. destruct (s <=? 127) eqn:E; cbn [bind]; [reflexivity|].
  replace (s =? 0) with false by lia. now replace (s =? 1) with false by lia.
Qed.

(** C17: the legacy four-byte option. *)
Theorem legacy_short t bs : len bs < 4 -> dec (TLegacyOpt t) bs = Err.
Proof. intros H. cbn [dec]. unfold BYTES_PER_LENGTH_OFFSET. now replace (len bs <? 4) with true by lia. Qed.
Theorem legacy_selector t w body :
  length w = 4%nat ->
  dec (TLegacyOpt t) (w ++ body) =
  if le_val w =? 0 then (match body with [] => Ok VNone | _ => Err end)
  else if le_val w =? 1 then omap VSome (dec t body) else Err.
Proof.
  intros Hw. cbn [dec]. unfold BYTES_PER_LENGTH_OFFSET, split_at.
  assert (Hl : len w = 4) by (unfold len; lia).
  rewrite len_app, Hl. replace (4 + len body <? 4) with false by lia.
  replace (4 <=? 4 + len body) with true by lia. cbn [bind fst snd].
  rewrite <- Hl, take_app_exact, drop_app_exact.
  rewrite <- (app_nil_r w) at 1. rewrite (read_offset_app w [] Hw). reflexivity.
Qed.

(** C19 *)
Theorem set_encodes_as_list t vs : enc (TSet t) (VList vs) = enc (TList t) (VList vs).
Proof. now rewrite enc_set, enc_list. Qed.
Theorem map_encodes_as_list k v es :
  has_ty (TMap k v) (VList es) = true ->
  enc (TMap k v) (VList es) = enc (TList (TContainer false [k; v])) (VList es).
Proof.
  intros H. apply enc_map. cbn [has_ty] in H. apply andb_prop in H as [Hes _].
  apply Forall_forall. intros e He. rewrite forallb_forall in Hes. specialize (Hes e He).
  destruct e; try discriminate. destruct vs as [|a [|c [|? ?]]]; try discriminate. eauto.
Qed.
Theorem dec_set_is_collect t bs :
  dec (TSet t) bs =
  match dec (TList t) bs with
  | Ok (VList es) => Ok (VList (collect_entries false es))
  | Ok _ => Err | Err => Err | Panic => Panic
  end.
Proof. rewrite dec_set_eq, dec_list_eq. destruct (dec_seq _ _ _ bs); reflexivity. Qed.
Theorem dec_map_is_collect k v bs :
  dec (TMap k v) bs =
  match dec (TList (TContainer false [k; v])) bs with
  | Ok (VList es) => Ok (VList (collect_entries true es))
  | Ok _ => Err | Err => Err | Panic => Panic
  end.
Proof. rewrite dec_map_eq, dec_list_eq. destruct (dec_seq _ _ _ bs); reflexivity. Qed.

(** what a set decoder returns is a typed, strictly ascending collection *)
Theorem dec_set_typed t bs m :
  canon_type t = true -> key_type t = true -> phys bs -> dec (TSet t) bs = Ok m -> has_ty (TSet t) m = true.
Proof.
  intros Hc Hk Hp Hd. destruct (dec_set_forward t bs m Hc Hp Hd) as (es & _ & [Hty _] & ->).
  cbn [has_ty] in *. apply andb_true_intro. split.
  - apply forallb_forall. intros e He. apply collect_incl in He. rewrite forallb_forall in Hty. auto.
  - apply (collect_is_sorted t); [exact Hk|]. apply Forall_forall. intros e He. cbn [entry_key].
    rewrite forallb_forall in Hty. auto.
Qed.
Theorem dec_set_fixed_point t bs m :
  canon_type t = true -> rt_type (TSet t) = true -> phys bs -> dec (TSet t) bs = Ok m ->
  len (enc (TSet t) m) < 4294967296 -> dec (TSet t) (enc (TSet t) m) = Ok m.
Proof.
  intros Hc Hr Hp Hd Hl. apply (rt_facts leaf_facts collect_sorted_holds (TSet t) Hr m); [|exact Hl].
  apply (dec_set_typed t bs m Hc); auto.
  unfold rt_type in Hr. cbn [ty_all] in Hr. apply andb_prop in Hr as [Hn _].
  unfold node_rt in Hn. apply andb_prop in Hn as [Hk _]. exact Hk.
Qed.
