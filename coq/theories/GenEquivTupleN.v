(** * GenEquivTupleN: the tuple impls of arity 5 to 12 (the same two macros at more repetitions), decoder,
    encoder, size metadata and [ssz_bytes_len], equal to the model's container codec for every component type.  This file is written by
    tools/gen_tuple_proofs.py: the arity-3 / arity-4 proofs of GenEquivTuple.v unrolled; no case split over the
    components' size classes, so the proofs are linear in the arity. *)
From SSZ Require Import Base RustSem Offsets Encoder Builder Types Codec CodecUnfold BaseFacts OffsetsFacts AppendFacts MetaFacts
     Generated GenEquiv GenEquivDec GenEquivEnc GenProps GeneratedDerive GenEquivDerive GenEquivDerive2 GenEquivTuple.
From Coq Require Import ZArith ZifyN ZifyBool ZifyNat Lia.
Open Scope N_scope.
Ltac Zify.zify_post_hook ::= Z.div_mod_to_equations.

(** one component of [ssz_bytes_len]'s running sum, whatever its size class *)
Lemma tuple_len_step {B} (I : bool) (F bl acc : N) (k : N -> outcome B) :
  acc + (if I then F else 4 + bl) <= usize_max ->
  (do t <- (if I then Ok F else usize_add 4 bl); do s <- usize_add acc t; k s)
  = k (acc + (if I then F else 4 + bl)).
Proof.
  intro H. destruct I; cbn [bind]; unfold usize_add.
  - destruct (acc + F <=? usize_max) eqn:E; [reflexivity | apply N.leb_gt in E; lia].
  - destruct (4 + bl <=? usize_max) eqn:E1; [|apply N.leb_gt in E1; lia]. cbn [bind].
    destruct (acc + (4 + bl) <=? usize_max) eqn:E2; [reflexivity | apply N.leb_gt in E2; lia].
Qed.

Theorem gen_tuple5_from_ssz_bytes tA tB tC tD tE bs :
  omap (fun p : val * val * val * val * val => VCont [(fst (fst (fst (fst p)))); (snd (fst (fst (fst p)))); (snd (fst (fst p))); (snd (fst p)); (snd p)])
    (GenD.tuple5_from_ssz_bytes (d_is_fixed tA) (d_fixed_len tA) (dec tA) (d_is_fixed tB) (d_fixed_len tB) (dec tB) (d_is_fixed tC) (d_fixed_len tC) (dec tC) (d_is_fixed tD) (d_fixed_len tD) (dec tD) (d_is_fixed tE) (d_fixed_len tE) (dec tE) bs)
  = dec (TContainer false [tA; tB; tC; tD; tE]) bs.
Proof.
  unfold GenD.tuple5_from_ssz_bytes. unfold Gen.builder_new. cbn [bind].
  rewrite dec_container. cbn [andb]. unfold regs_of. cbn [map]. unfold builder_build. cbn [register_all].
  set (s0 := {| Gen.SszDecoderBuilder_bytes := bs; Gen.SszDecoderBuilder_items := []; Gen.SszDecoderBuilder_offsets := []; Gen.SszDecoderBuilder_items_index := 0 |}).
  change builder_new with (st_abs s0).
  replace bs with (Gen.SszDecoderBuilder_bytes s0) by reflexivity.
  reg_step2 s0 (d_is_fixed tA) (d_fixed_len tA). rewrite <- Es, <- Eb.
  reg_step2 s (d_is_fixed tB) (d_fixed_len tB). rewrite <- Es0, <- Eb0.
  reg_step2 s1 (d_is_fixed tC) (d_fixed_len tC). rewrite <- Es1, <- Eb1.
  reg_step2 s2 (d_is_fixed tD) (d_fixed_len tD). rewrite <- Es2, <- Eb2.
  reg_step2 s3 (d_is_fixed tE) (d_fixed_len tE). rewrite <- Es3, <- Eb3.
  build_step s4.
  cbn [decode_all].
  dec_step0 its tA.
  dec_step0 itm tB.
  dec_step0 itm0 tC.
  dec_step0 itm1 tD.
  dec_step0 itm2 tE.
  reflexivity.
Qed.

Theorem gen_tuple5_ssz_append tA tB tC tD tE av bv cv dv ev buf :
  e_fixed_len tA + e_fixed_len tB + e_fixed_len tC + e_fixed_len tD + e_fixed_len tE + len (enc tA av) + len (enc tB bv) + len (enc tC cv) + len (enc tD dv) <= usize_max ->
  GenD.tuple5_ssz_append (e_is_fixed tA) (e_fixed_len tA) (app_of tA) (e_is_fixed tB) (e_fixed_len tB) (app_of tB) (e_is_fixed tC) (e_fixed_len tC) (app_of tC) (e_is_fixed tD) (e_fixed_len tD) (app_of tD) (e_is_fixed tE) (e_fixed_len tE) (app_of tE) (av, bv, cv, dv, ev) buf
  = Ok (append (TContainer false [tA; tB; tC; tD; tE]) (VCont [av; bv; cv; dv; ev]) buf).
Proof.
  intro H. unfold GenD.tuple5_ssz_append, app_of. cbn [fst snd].
  unfold usize_add at 1. destruct (e_fixed_len tA + e_fixed_len tB <=? usize_max) eqn:E1; [|apply N.leb_gt in E1; lia]. cbn [bind].
  unfold usize_add at 1. destruct (e_fixed_len tA + e_fixed_len tB + e_fixed_len tC <=? usize_max) eqn:E2; [|apply N.leb_gt in E2; lia]. cbn [bind].
  unfold usize_add at 1. destruct (e_fixed_len tA + e_fixed_len tB + e_fixed_len tC + e_fixed_len tD <=? usize_max) eqn:E3; [|apply N.leb_gt in E3; lia]. cbn [bind].
  unfold usize_add at 1. destruct (e_fixed_len tA + e_fixed_len tB + e_fixed_len tC + e_fixed_len tD + e_fixed_len tE <=? usize_max) eqn:E4; [|apply N.leb_gt in E4; lia]. cbn [bind].
  unfold usize_add at 1. destruct (e_fixed_len tA + e_fixed_len tB + e_fixed_len tC + e_fixed_len tD + e_fixed_len tE + 0 <=? usize_max) eqn:E5; [|apply N.leb_gt in E5; lia]. cbn [bind].
  unfold Gen.encoder_container. cbn [bind].
  set (F := e_fixed_len tA + e_fixed_len tB + e_fixed_len tC + e_fixed_len tD + e_fixed_len tE + 0).
  set (s0 := {| Gen.SszEncoder_offset := F; Gen.SszEncoder_buf := buf; Gen.SszEncoder_variable_bytes := [] |}).
  assert (V0 : len (e_var (enc_abs s0)) = 0) by reflexivity. assert (O0 : e_offset (enc_abs s0) = F) by reflexivity.
  destruct (append_item_ok (e_is_fixed tA) (append tA) s0 av) as (s1 & -> & A1); [unfold F in *; lia|]. cbn [bind].
  pose proof (enc_append_var_len (enc_abs s0) (e_is_fixed tA) tA av) as V1. rewrite <- A1 in V1.
  assert (O1 : e_offset (enc_abs s1) = F) by (rewrite A1, enc_append_offset; exact O0).
  destruct (append_item_ok (e_is_fixed tB) (append tB) s1 bv) as (s2 & -> & A2); [unfold F in *; lia|]. cbn [bind].
  pose proof (enc_append_var_len (enc_abs s1) (e_is_fixed tB) tB bv) as V2. rewrite <- A2 in V2.
  assert (O2 : e_offset (enc_abs s2) = F) by (rewrite A2, enc_append_offset; exact O1).
  destruct (append_item_ok (e_is_fixed tC) (append tC) s2 cv) as (s3 & -> & A3); [unfold F in *; lia|]. cbn [bind].
  pose proof (enc_append_var_len (enc_abs s2) (e_is_fixed tC) tC cv) as V3. rewrite <- A3 in V3.
  assert (O3 : e_offset (enc_abs s3) = F) by (rewrite A3, enc_append_offset; exact O2).
  destruct (append_item_ok (e_is_fixed tD) (append tD) s3 dv) as (s4 & -> & A4); [unfold F in *; lia|]. cbn [bind].
  pose proof (enc_append_var_len (enc_abs s3) (e_is_fixed tD) tD dv) as V4. rewrite <- A4 in V4.
  assert (O4 : e_offset (enc_abs s4) = F) by (rewrite A4, enc_append_offset; exact O3).
  destruct (append_item_ok (e_is_fixed tE) (append tE) s4 ev) as (s5 & -> & A5); [unfold F in *; lia|]. cbn [bind].
  rewrite finalize_bind, A5, A4, A3, A2, A1. f_equal.
  rewrite append_container. unfold enc_run, cont_items. cbn [combine map fold_left fst snd sumN].
  replace (e_fixed_len tA + (e_fixed_len tB + (e_fixed_len tC + (e_fixed_len tD + (e_fixed_len tE + 0))))) with F by (unfold F; lia).
  reflexivity.
Qed.

Print Assumptions gen_tuple5_from_ssz_bytes.
Print Assumptions gen_tuple5_ssz_append.

Theorem gen_tuple5_enc_metadata tA tB tC tD tE :
  e_fixed_len tA + e_fixed_len tB + e_fixed_len tC + e_fixed_len tD + e_fixed_len tE <= usize_max ->
  GenD.tuple5_enc_is_ssz_fixed_len (e_is_fixed tA) (e_is_fixed tB) (e_is_fixed tC) (e_is_fixed tD) (e_is_fixed tE) = Ok (e_is_fixed (TContainer false [tA; tB; tC; tD; tE])) /\
  GenD.tuple5_enc_ssz_fixed_len (e_is_fixed tA) (e_fixed_len tA) (e_is_fixed tB) (e_fixed_len tB) (e_is_fixed tC) (e_fixed_len tC) (e_is_fixed tD) (e_fixed_len tD) (e_is_fixed tE) (e_fixed_len tE)
    = Ok (e_fixed_len (TContainer false [tA; tB; tC; tD; tE])).
Proof.
  intro H. rewrite e_is_fixed_container, e_fixed_len_container. cbn [forallb map sumN].
  unfold GenD.tuple5_enc_ssz_fixed_len, GenD.tuple5_enc_is_ssz_fixed_len. cbn [bind].
  rewrite gen_BYTES_PER_LENGTH_OFFSET.
  replace (e_is_fixed tA && e_is_fixed tB && e_is_fixed tC && e_is_fixed tD && e_is_fixed tE && true) with (e_is_fixed tA && (e_is_fixed tB && (e_is_fixed tC && (e_is_fixed tD && (e_is_fixed tE && true))))) by (rewrite <- !andb_assoc; reflexivity).
  split; [reflexivity|].
  destruct (e_is_fixed tA && (e_is_fixed tB && (e_is_fixed tC && (e_is_fixed tD && (e_is_fixed tE && true))))); [|reflexivity].
  unfold usize_add. fits. f_equal. lia.
Qed.

Theorem gen_tuple5_dec_metadata tA tB tC tD tE :
  d_fixed_len tA + d_fixed_len tB + d_fixed_len tC + d_fixed_len tD + d_fixed_len tE <= usize_max ->
  GenD.tuple5_dec_is_ssz_fixed_len (d_is_fixed tA) (d_is_fixed tB) (d_is_fixed tC) (d_is_fixed tD) (d_is_fixed tE) = Ok (d_is_fixed (TContainer false [tA; tB; tC; tD; tE])) /\
  GenD.tuple5_dec_ssz_fixed_len (d_is_fixed tA) (d_fixed_len tA) (d_is_fixed tB) (d_fixed_len tB) (d_is_fixed tC) (d_fixed_len tC) (d_is_fixed tD) (d_fixed_len tD) (d_is_fixed tE) (d_fixed_len tE)
    = Ok (d_fixed_len (TContainer false [tA; tB; tC; tD; tE])).
Proof.
  intro H. rewrite d_is_fixed_container, d_fixed_len_container. cbn [forallb map sumN].
  unfold GenD.tuple5_dec_ssz_fixed_len, GenD.tuple5_dec_is_ssz_fixed_len. cbn [bind].
  rewrite gen_BYTES_PER_LENGTH_OFFSET.
  replace (d_is_fixed tA && d_is_fixed tB && d_is_fixed tC && d_is_fixed tD && d_is_fixed tE && true) with (d_is_fixed tA && (d_is_fixed tB && (d_is_fixed tC && (d_is_fixed tD && (d_is_fixed tE && true))))) by (rewrite <- !andb_assoc; reflexivity).
  split; [reflexivity|].
  destruct (d_is_fixed tA && (d_is_fixed tB && (d_is_fixed tC && (d_is_fixed tD && (d_is_fixed tE && true))))); [|reflexivity].
  unfold usize_add. fits. f_equal. lia.
Qed.

Theorem gen_tuple5_ssz_bytes_len tA tB tC tD tE av bv cv dv ev :
  e_fixed_len tA + e_fixed_len tB + e_fixed_len tC + e_fixed_len tD + e_fixed_len tE <= usize_max ->
  field_len tA av + field_len tB bv + field_len tC cv + field_len tD dv + field_len tE ev <= usize_max ->
  GenD.tuple5_ssz_bytes_len (e_is_fixed tA) (e_fixed_len tA) (len_of tA) (e_is_fixed tB) (e_fixed_len tB) (len_of tB) (e_is_fixed tC) (e_fixed_len tC) (len_of tC) (e_is_fixed tD) (e_fixed_len tD) (len_of tD) (e_is_fixed tE) (e_fixed_len tE) (len_of tE) (av, bv, cv, dv, ev)
  = Ok (bytes_len (TContainer false [tA; tB; tC; tD; tE]) (VCont [av; bv; cv; dv; ev])).
Proof.
  intros HF H. unfold GenD.tuple5_ssz_bytes_len, len_of. cbn [fst snd].
  rewrite bytes_len_container. cbn [forallb combine map sumN fst snd].
  destruct (gen_tuple5_enc_metadata tA tB tC tD tE HF) as (M1 & M2).
  rewrite M1. cbn [bind]. rewrite e_is_fixed_container. cbn [forallb].
  destruct (e_is_fixed tA && (e_is_fixed tB && (e_is_fixed tC && (e_is_fixed tD && (e_is_fixed tE && true))))) eqn:EF.
  - rewrite M2, e_fixed_len_container. cbn [map sumN forallb]. rewrite EF. reflexivity.
  - rewrite gen_BYTES_PER_LENGTH_OFFSET. unfold BYTES_PER_LENGTH_OFFSET. cbv zeta. unfold field_len, BYTES_PER_LENGTH_OFFSET in H.
    rewrite tuple_len_step by lia.
    rewrite tuple_len_step by lia.
    rewrite tuple_len_step by lia.
    rewrite tuple_len_step by lia.
    rewrite tuple_len_step by lia.
    f_equal. unfold field_len, BYTES_PER_LENGTH_OFFSET. lia.
Qed.

Print Assumptions gen_tuple5_enc_metadata.
Print Assumptions gen_tuple5_dec_metadata.
Print Assumptions gen_tuple5_ssz_bytes_len.

Theorem gen_tuple6_from_ssz_bytes tA tB tC tD tE tF bs :
  omap (fun p : val * val * val * val * val * val => VCont [(fst (fst (fst (fst (fst p))))); (snd (fst (fst (fst (fst p))))); (snd (fst (fst (fst p)))); (snd (fst (fst p))); (snd (fst p)); (snd p)])
    (GenD.tuple6_from_ssz_bytes (d_is_fixed tA) (d_fixed_len tA) (dec tA) (d_is_fixed tB) (d_fixed_len tB) (dec tB) (d_is_fixed tC) (d_fixed_len tC) (dec tC) (d_is_fixed tD) (d_fixed_len tD) (dec tD) (d_is_fixed tE) (d_fixed_len tE) (dec tE) (d_is_fixed tF) (d_fixed_len tF) (dec tF) bs)
  = dec (TContainer false [tA; tB; tC; tD; tE; tF]) bs.
Proof.
  unfold GenD.tuple6_from_ssz_bytes. unfold Gen.builder_new. cbn [bind].
  rewrite dec_container. cbn [andb]. unfold regs_of. cbn [map]. unfold builder_build. cbn [register_all].
  set (s0 := {| Gen.SszDecoderBuilder_bytes := bs; Gen.SszDecoderBuilder_items := []; Gen.SszDecoderBuilder_offsets := []; Gen.SszDecoderBuilder_items_index := 0 |}).
  change builder_new with (st_abs s0).
  replace bs with (Gen.SszDecoderBuilder_bytes s0) by reflexivity.
  reg_step2 s0 (d_is_fixed tA) (d_fixed_len tA). rewrite <- Es, <- Eb.
  reg_step2 s (d_is_fixed tB) (d_fixed_len tB). rewrite <- Es0, <- Eb0.
  reg_step2 s1 (d_is_fixed tC) (d_fixed_len tC). rewrite <- Es1, <- Eb1.
  reg_step2 s2 (d_is_fixed tD) (d_fixed_len tD). rewrite <- Es2, <- Eb2.
  reg_step2 s3 (d_is_fixed tE) (d_fixed_len tE). rewrite <- Es3, <- Eb3.
  reg_step2 s4 (d_is_fixed tF) (d_fixed_len tF). rewrite <- Es4, <- Eb4.
  build_step s5.
  cbn [decode_all].
  dec_step0 its tA.
  dec_step0 itm tB.
  dec_step0 itm0 tC.
  dec_step0 itm1 tD.
  dec_step0 itm2 tE.
  dec_step0 itm3 tF.
  reflexivity.
Qed.

Theorem gen_tuple6_ssz_append tA tB tC tD tE tF av bv cv dv ev fv buf :
  e_fixed_len tA + e_fixed_len tB + e_fixed_len tC + e_fixed_len tD + e_fixed_len tE + e_fixed_len tF + len (enc tA av) + len (enc tB bv) + len (enc tC cv) + len (enc tD dv) + len (enc tE ev) <= usize_max ->
  GenD.tuple6_ssz_append (e_is_fixed tA) (e_fixed_len tA) (app_of tA) (e_is_fixed tB) (e_fixed_len tB) (app_of tB) (e_is_fixed tC) (e_fixed_len tC) (app_of tC) (e_is_fixed tD) (e_fixed_len tD) (app_of tD) (e_is_fixed tE) (e_fixed_len tE) (app_of tE) (e_is_fixed tF) (e_fixed_len tF) (app_of tF) (av, bv, cv, dv, ev, fv) buf
  = Ok (append (TContainer false [tA; tB; tC; tD; tE; tF]) (VCont [av; bv; cv; dv; ev; fv]) buf).
Proof.
  intro H. unfold GenD.tuple6_ssz_append, app_of. cbn [fst snd].
  unfold usize_add at 1. destruct (e_fixed_len tA + e_fixed_len tB <=? usize_max) eqn:E1; [|apply N.leb_gt in E1; lia]. cbn [bind].
  unfold usize_add at 1. destruct (e_fixed_len tA + e_fixed_len tB + e_fixed_len tC <=? usize_max) eqn:E2; [|apply N.leb_gt in E2; lia]. cbn [bind].
  unfold usize_add at 1. destruct (e_fixed_len tA + e_fixed_len tB + e_fixed_len tC + e_fixed_len tD <=? usize_max) eqn:E3; [|apply N.leb_gt in E3; lia]. cbn [bind].
  unfold usize_add at 1. destruct (e_fixed_len tA + e_fixed_len tB + e_fixed_len tC + e_fixed_len tD + e_fixed_len tE <=? usize_max) eqn:E4; [|apply N.leb_gt in E4; lia]. cbn [bind].
  unfold usize_add at 1. destruct (e_fixed_len tA + e_fixed_len tB + e_fixed_len tC + e_fixed_len tD + e_fixed_len tE + e_fixed_len tF <=? usize_max) eqn:E5; [|apply N.leb_gt in E5; lia]. cbn [bind].
  unfold usize_add at 1. destruct (e_fixed_len tA + e_fixed_len tB + e_fixed_len tC + e_fixed_len tD + e_fixed_len tE + e_fixed_len tF + 0 <=? usize_max) eqn:E6; [|apply N.leb_gt in E6; lia]. cbn [bind].
  unfold Gen.encoder_container. cbn [bind].
  set (F := e_fixed_len tA + e_fixed_len tB + e_fixed_len tC + e_fixed_len tD + e_fixed_len tE + e_fixed_len tF + 0).
  set (s0 := {| Gen.SszEncoder_offset := F; Gen.SszEncoder_buf := buf; Gen.SszEncoder_variable_bytes := [] |}).
  assert (V0 : len (e_var (enc_abs s0)) = 0) by reflexivity. assert (O0 : e_offset (enc_abs s0) = F) by reflexivity.
  destruct (append_item_ok (e_is_fixed tA) (append tA) s0 av) as (s1 & -> & A1); [unfold F in *; lia|]. cbn [bind].
  pose proof (enc_append_var_len (enc_abs s0) (e_is_fixed tA) tA av) as V1. rewrite <- A1 in V1.
  assert (O1 : e_offset (enc_abs s1) = F) by (rewrite A1, enc_append_offset; exact O0).
  destruct (append_item_ok (e_is_fixed tB) (append tB) s1 bv) as (s2 & -> & A2); [unfold F in *; lia|]. cbn [bind].
  pose proof (enc_append_var_len (enc_abs s1) (e_is_fixed tB) tB bv) as V2. rewrite <- A2 in V2.
  assert (O2 : e_offset (enc_abs s2) = F) by (rewrite A2, enc_append_offset; exact O1).
  destruct (append_item_ok (e_is_fixed tC) (append tC) s2 cv) as (s3 & -> & A3); [unfold F in *; lia|]. cbn [bind].
  pose proof (enc_append_var_len (enc_abs s2) (e_is_fixed tC) tC cv) as V3. rewrite <- A3 in V3.
  assert (O3 : e_offset (enc_abs s3) = F) by (rewrite A3, enc_append_offset; exact O2).
  destruct (append_item_ok (e_is_fixed tD) (append tD) s3 dv) as (s4 & -> & A4); [unfold F in *; lia|]. cbn [bind].
  pose proof (enc_append_var_len (enc_abs s3) (e_is_fixed tD) tD dv) as V4. rewrite <- A4 in V4.
  assert (O4 : e_offset (enc_abs s4) = F) by (rewrite A4, enc_append_offset; exact O3).
  destruct (append_item_ok (e_is_fixed tE) (append tE) s4 ev) as (s5 & -> & A5); [unfold F in *; lia|]. cbn [bind].
  pose proof (enc_append_var_len (enc_abs s4) (e_is_fixed tE) tE ev) as V5. rewrite <- A5 in V5.
  assert (O5 : e_offset (enc_abs s5) = F) by (rewrite A5, enc_append_offset; exact O4).
  destruct (append_item_ok (e_is_fixed tF) (append tF) s5 fv) as (s6 & -> & A6); [unfold F in *; lia|]. cbn [bind].
  rewrite finalize_bind, A6, A5, A4, A3, A2, A1. f_equal.
  rewrite append_container. unfold enc_run, cont_items. cbn [combine map fold_left fst snd sumN].
  replace (e_fixed_len tA + (e_fixed_len tB + (e_fixed_len tC + (e_fixed_len tD + (e_fixed_len tE + (e_fixed_len tF + 0)))))) with F by (unfold F; lia).
  reflexivity.
Qed.

Print Assumptions gen_tuple6_from_ssz_bytes.
Print Assumptions gen_tuple6_ssz_append.

Theorem gen_tuple6_enc_metadata tA tB tC tD tE tF :
  e_fixed_len tA + e_fixed_len tB + e_fixed_len tC + e_fixed_len tD + e_fixed_len tE + e_fixed_len tF <= usize_max ->
  GenD.tuple6_enc_is_ssz_fixed_len (e_is_fixed tA) (e_is_fixed tB) (e_is_fixed tC) (e_is_fixed tD) (e_is_fixed tE) (e_is_fixed tF) = Ok (e_is_fixed (TContainer false [tA; tB; tC; tD; tE; tF])) /\
  GenD.tuple6_enc_ssz_fixed_len (e_is_fixed tA) (e_fixed_len tA) (e_is_fixed tB) (e_fixed_len tB) (e_is_fixed tC) (e_fixed_len tC) (e_is_fixed tD) (e_fixed_len tD) (e_is_fixed tE) (e_fixed_len tE) (e_is_fixed tF) (e_fixed_len tF)
    = Ok (e_fixed_len (TContainer false [tA; tB; tC; tD; tE; tF])).
Proof.
  intro H. rewrite e_is_fixed_container, e_fixed_len_container. cbn [forallb map sumN].
  unfold GenD.tuple6_enc_ssz_fixed_len, GenD.tuple6_enc_is_ssz_fixed_len. cbn [bind].
  rewrite gen_BYTES_PER_LENGTH_OFFSET.
  replace (e_is_fixed tA && e_is_fixed tB && e_is_fixed tC && e_is_fixed tD && e_is_fixed tE && e_is_fixed tF && true) with (e_is_fixed tA && (e_is_fixed tB && (e_is_fixed tC && (e_is_fixed tD && (e_is_fixed tE && (e_is_fixed tF && true)))))) by (rewrite <- !andb_assoc; reflexivity).
  split; [reflexivity|].
  destruct (e_is_fixed tA && (e_is_fixed tB && (e_is_fixed tC && (e_is_fixed tD && (e_is_fixed tE && (e_is_fixed tF && true)))))); [|reflexivity].
  unfold usize_add. fits. f_equal. lia.
Qed.

Theorem gen_tuple6_dec_metadata tA tB tC tD tE tF :
  d_fixed_len tA + d_fixed_len tB + d_fixed_len tC + d_fixed_len tD + d_fixed_len tE + d_fixed_len tF <= usize_max ->
  GenD.tuple6_dec_is_ssz_fixed_len (d_is_fixed tA) (d_is_fixed tB) (d_is_fixed tC) (d_is_fixed tD) (d_is_fixed tE) (d_is_fixed tF) = Ok (d_is_fixed (TContainer false [tA; tB; tC; tD; tE; tF])) /\
  GenD.tuple6_dec_ssz_fixed_len (d_is_fixed tA) (d_fixed_len tA) (d_is_fixed tB) (d_fixed_len tB) (d_is_fixed tC) (d_fixed_len tC) (d_is_fixed tD) (d_fixed_len tD) (d_is_fixed tE) (d_fixed_len tE) (d_is_fixed tF) (d_fixed_len tF)
    = Ok (d_fixed_len (TContainer false [tA; tB; tC; tD; tE; tF])).
Proof.
  intro H. rewrite d_is_fixed_container, d_fixed_len_container. cbn [forallb map sumN].
  unfold GenD.tuple6_dec_ssz_fixed_len, GenD.tuple6_dec_is_ssz_fixed_len. cbn [bind].
  rewrite gen_BYTES_PER_LENGTH_OFFSET.
  replace (d_is_fixed tA && d_is_fixed tB && d_is_fixed tC && d_is_fixed tD && d_is_fixed tE && d_is_fixed tF && true) with (d_is_fixed tA && (d_is_fixed tB && (d_is_fixed tC && (d_is_fixed tD && (d_is_fixed tE && (d_is_fixed tF && true)))))) by (rewrite <- !andb_assoc; reflexivity).
  split; [reflexivity|].
  destruct (d_is_fixed tA && (d_is_fixed tB && (d_is_fixed tC && (d_is_fixed tD && (d_is_fixed tE && (d_is_fixed tF && true)))))); [|reflexivity].
  unfold usize_add. fits. f_equal. lia.
Qed.

Theorem gen_tuple6_ssz_bytes_len tA tB tC tD tE tF av bv cv dv ev fv :
  e_fixed_len tA + e_fixed_len tB + e_fixed_len tC + e_fixed_len tD + e_fixed_len tE + e_fixed_len tF <= usize_max ->
  field_len tA av + field_len tB bv + field_len tC cv + field_len tD dv + field_len tE ev + field_len tF fv <= usize_max ->
  GenD.tuple6_ssz_bytes_len (e_is_fixed tA) (e_fixed_len tA) (len_of tA) (e_is_fixed tB) (e_fixed_len tB) (len_of tB) (e_is_fixed tC) (e_fixed_len tC) (len_of tC) (e_is_fixed tD) (e_fixed_len tD) (len_of tD) (e_is_fixed tE) (e_fixed_len tE) (len_of tE) (e_is_fixed tF) (e_fixed_len tF) (len_of tF) (av, bv, cv, dv, ev, fv)
  = Ok (bytes_len (TContainer false [tA; tB; tC; tD; tE; tF]) (VCont [av; bv; cv; dv; ev; fv])).
Proof.
  intros HF H. unfold GenD.tuple6_ssz_bytes_len, len_of. cbn [fst snd].
  rewrite bytes_len_container. cbn [forallb combine map sumN fst snd].
  destruct (gen_tuple6_enc_metadata tA tB tC tD tE tF HF) as (M1 & M2).
  rewrite M1. cbn [bind]. rewrite e_is_fixed_container. cbn [forallb].
  destruct (e_is_fixed tA && (e_is_fixed tB && (e_is_fixed tC && (e_is_fixed tD && (e_is_fixed tE && (e_is_fixed tF && true)))))) eqn:EF.
  - rewrite M2, e_fixed_len_container. cbn [map sumN forallb]. rewrite EF. reflexivity.
  - rewrite gen_BYTES_PER_LENGTH_OFFSET. unfold BYTES_PER_LENGTH_OFFSET. cbv zeta. unfold field_len, BYTES_PER_LENGTH_OFFSET in H.
    rewrite tuple_len_step by lia.
    rewrite tuple_len_step by lia.
    rewrite tuple_len_step by lia.
    rewrite tuple_len_step by lia.
    rewrite tuple_len_step by lia.
    rewrite tuple_len_step by lia.
    f_equal. unfold field_len, BYTES_PER_LENGTH_OFFSET. lia.
Qed.

Print Assumptions gen_tuple6_enc_metadata.
Print Assumptions gen_tuple6_dec_metadata.
Print Assumptions gen_tuple6_ssz_bytes_len.

Theorem gen_tuple7_from_ssz_bytes tA tB tC tD tE tF tG bs :
  omap (fun p : val * val * val * val * val * val * val => VCont [(fst (fst (fst (fst (fst (fst p)))))); (snd (fst (fst (fst (fst (fst p)))))); (snd (fst (fst (fst (fst p))))); (snd (fst (fst (fst p)))); (snd (fst (fst p))); (snd (fst p)); (snd p)])
    (GenD.tuple7_from_ssz_bytes (d_is_fixed tA) (d_fixed_len tA) (dec tA) (d_is_fixed tB) (d_fixed_len tB) (dec tB) (d_is_fixed tC) (d_fixed_len tC) (dec tC) (d_is_fixed tD) (d_fixed_len tD) (dec tD) (d_is_fixed tE) (d_fixed_len tE) (dec tE) (d_is_fixed tF) (d_fixed_len tF) (dec tF) (d_is_fixed tG) (d_fixed_len tG) (dec tG) bs)
  = dec (TContainer false [tA; tB; tC; tD; tE; tF; tG]) bs.
Proof.
  unfold GenD.tuple7_from_ssz_bytes. unfold Gen.builder_new. cbn [bind].
  rewrite dec_container. cbn [andb]. unfold regs_of. cbn [map]. unfold builder_build. cbn [register_all].
  set (s0 := {| Gen.SszDecoderBuilder_bytes := bs; Gen.SszDecoderBuilder_items := []; Gen.SszDecoderBuilder_offsets := []; Gen.SszDecoderBuilder_items_index := 0 |}).
  change builder_new with (st_abs s0).
  replace bs with (Gen.SszDecoderBuilder_bytes s0) by reflexivity.
  reg_step2 s0 (d_is_fixed tA) (d_fixed_len tA). rewrite <- Es, <- Eb.
  reg_step2 s (d_is_fixed tB) (d_fixed_len tB). rewrite <- Es0, <- Eb0.
  reg_step2 s1 (d_is_fixed tC) (d_fixed_len tC). rewrite <- Es1, <- Eb1.
  reg_step2 s2 (d_is_fixed tD) (d_fixed_len tD). rewrite <- Es2, <- Eb2.
  reg_step2 s3 (d_is_fixed tE) (d_fixed_len tE). rewrite <- Es3, <- Eb3.
  reg_step2 s4 (d_is_fixed tF) (d_fixed_len tF). rewrite <- Es4, <- Eb4.
  reg_step2 s5 (d_is_fixed tG) (d_fixed_len tG). rewrite <- Es5, <- Eb5.
  build_step s6.
  cbn [decode_all].
  dec_step0 its tA.
  dec_step0 itm tB.
  dec_step0 itm0 tC.
  dec_step0 itm1 tD.
  dec_step0 itm2 tE.
  dec_step0 itm3 tF.
  dec_step0 itm4 tG.
  reflexivity.
Qed.

Theorem gen_tuple7_ssz_append tA tB tC tD tE tF tG av bv cv dv ev fv gv buf :
  e_fixed_len tA + e_fixed_len tB + e_fixed_len tC + e_fixed_len tD + e_fixed_len tE + e_fixed_len tF + e_fixed_len tG + len (enc tA av) + len (enc tB bv) + len (enc tC cv) + len (enc tD dv) + len (enc tE ev) + len (enc tF fv) <= usize_max ->
  GenD.tuple7_ssz_append (e_is_fixed tA) (e_fixed_len tA) (app_of tA) (e_is_fixed tB) (e_fixed_len tB) (app_of tB) (e_is_fixed tC) (e_fixed_len tC) (app_of tC) (e_is_fixed tD) (e_fixed_len tD) (app_of tD) (e_is_fixed tE) (e_fixed_len tE) (app_of tE) (e_is_fixed tF) (e_fixed_len tF) (app_of tF) (e_is_fixed tG) (e_fixed_len tG) (app_of tG) (av, bv, cv, dv, ev, fv, gv) buf
  = Ok (append (TContainer false [tA; tB; tC; tD; tE; tF; tG]) (VCont [av; bv; cv; dv; ev; fv; gv]) buf).
Proof.
  intro H. unfold GenD.tuple7_ssz_append, app_of. cbn [fst snd].
  unfold usize_add at 1. destruct (e_fixed_len tA + e_fixed_len tB <=? usize_max) eqn:E1; [|apply N.leb_gt in E1; lia]. cbn [bind].
  unfold usize_add at 1. destruct (e_fixed_len tA + e_fixed_len tB + e_fixed_len tC <=? usize_max) eqn:E2; [|apply N.leb_gt in E2; lia]. cbn [bind].
  unfold usize_add at 1. destruct (e_fixed_len tA + e_fixed_len tB + e_fixed_len tC + e_fixed_len tD <=? usize_max) eqn:E3; [|apply N.leb_gt in E3; lia]. cbn [bind].
  unfold usize_add at 1. destruct (e_fixed_len tA + e_fixed_len tB + e_fixed_len tC + e_fixed_len tD + e_fixed_len tE <=? usize_max) eqn:E4; [|apply N.leb_gt in E4; lia]. cbn [bind].
  unfold usize_add at 1. destruct (e_fixed_len tA + e_fixed_len tB + e_fixed_len tC + e_fixed_len tD + e_fixed_len tE + e_fixed_len tF <=? usize_max) eqn:E5; [|apply N.leb_gt in E5; lia]. cbn [bind].
  unfold usize_add at 1. destruct (e_fixed_len tA + e_fixed_len tB + e_fixed_len tC + e_fixed_len tD + e_fixed_len tE + e_fixed_len tF + e_fixed_len tG <=? usize_max) eqn:E6; [|apply N.leb_gt in E6; lia]. cbn [bind].
  unfold usize_add at 1. destruct (e_fixed_len tA + e_fixed_len tB + e_fixed_len tC + e_fixed_len tD + e_fixed_len tE + e_fixed_len tF + e_fixed_len tG + 0 <=? usize_max) eqn:E7; [|apply N.leb_gt in E7; lia]. cbn [bind].
  unfold Gen.encoder_container. cbn [bind].
  set (F := e_fixed_len tA + e_fixed_len tB + e_fixed_len tC + e_fixed_len tD + e_fixed_len tE + e_fixed_len tF + e_fixed_len tG + 0).
  set (s0 := {| Gen.SszEncoder_offset := F; Gen.SszEncoder_buf := buf; Gen.SszEncoder_variable_bytes := [] |}).
  assert (V0 : len (e_var (enc_abs s0)) = 0) by reflexivity. assert (O0 : e_offset (enc_abs s0) = F) by reflexivity.
  destruct (append_item_ok (e_is_fixed tA) (append tA) s0 av) as (s1 & -> & A1); [unfold F in *; lia|]. cbn [bind].
  pose proof (enc_append_var_len (enc_abs s0) (e_is_fixed tA) tA av) as V1. rewrite <- A1 in V1.
  assert (O1 : e_offset (enc_abs s1) = F) by (rewrite A1, enc_append_offset; exact O0).
  destruct (append_item_ok (e_is_fixed tB) (append tB) s1 bv) as (s2 & -> & A2); [unfold F in *; lia|]. cbn [bind].
  pose proof (enc_append_var_len (enc_abs s1) (e_is_fixed tB) tB bv) as V2. rewrite <- A2 in V2.
  assert (O2 : e_offset (enc_abs s2) = F) by (rewrite A2, enc_append_offset; exact O1).
  destruct (append_item_ok (e_is_fixed tC) (append tC) s2 cv) as (s3 & -> & A3); [unfold F in *; lia|]. cbn [bind].
  pose proof (enc_append_var_len (enc_abs s2) (e_is_fixed tC) tC cv) as V3. rewrite <- A3 in V3.
  assert (O3 : e_offset (enc_abs s3) = F) by (rewrite A3, enc_append_offset; exact O2).
  destruct (append_item_ok (e_is_fixed tD) (append tD) s3 dv) as (s4 & -> & A4); [unfold F in *; lia|]. cbn [bind].
  pose proof (enc_append_var_len (enc_abs s3) (e_is_fixed tD) tD dv) as V4. rewrite <- A4 in V4.
  assert (O4 : e_offset (enc_abs s4) = F) by (rewrite A4, enc_append_offset; exact O3).
  destruct (append_item_ok (e_is_fixed tE) (append tE) s4 ev) as (s5 & -> & A5); [unfold F in *; lia|]. cbn [bind].
  pose proof (enc_append_var_len (enc_abs s4) (e_is_fixed tE) tE ev) as V5. rewrite <- A5 in V5.
  assert (O5 : e_offset (enc_abs s5) = F) by (rewrite A5, enc_append_offset; exact O4).
  destruct (append_item_ok (e_is_fixed tF) (append tF) s5 fv) as (s6 & -> & A6); [unfold F in *; lia|]. cbn [bind].
  pose proof (enc_append_var_len (enc_abs s5) (e_is_fixed tF) tF fv) as V6. rewrite <- A6 in V6.
  assert (O6 : e_offset (enc_abs s6) = F) by (rewrite A6, enc_append_offset; exact O5).
  destruct (append_item_ok (e_is_fixed tG) (append tG) s6 gv) as (s7 & -> & A7); [unfold F in *; lia|]. cbn [bind].
  rewrite finalize_bind, A7, A6, A5, A4, A3, A2, A1. f_equal.
  rewrite append_container. unfold enc_run, cont_items. cbn [combine map fold_left fst snd sumN].
  replace (e_fixed_len tA + (e_fixed_len tB + (e_fixed_len tC + (e_fixed_len tD + (e_fixed_len tE + (e_fixed_len tF + (e_fixed_len tG + 0))))))) with F by (unfold F; lia).
  reflexivity.
Qed.

Print Assumptions gen_tuple7_from_ssz_bytes.
Print Assumptions gen_tuple7_ssz_append.

Theorem gen_tuple7_enc_metadata tA tB tC tD tE tF tG :
  e_fixed_len tA + e_fixed_len tB + e_fixed_len tC + e_fixed_len tD + e_fixed_len tE + e_fixed_len tF + e_fixed_len tG <= usize_max ->
  GenD.tuple7_enc_is_ssz_fixed_len (e_is_fixed tA) (e_is_fixed tB) (e_is_fixed tC) (e_is_fixed tD) (e_is_fixed tE) (e_is_fixed tF) (e_is_fixed tG) = Ok (e_is_fixed (TContainer false [tA; tB; tC; tD; tE; tF; tG])) /\
  GenD.tuple7_enc_ssz_fixed_len (e_is_fixed tA) (e_fixed_len tA) (e_is_fixed tB) (e_fixed_len tB) (e_is_fixed tC) (e_fixed_len tC) (e_is_fixed tD) (e_fixed_len tD) (e_is_fixed tE) (e_fixed_len tE) (e_is_fixed tF) (e_fixed_len tF) (e_is_fixed tG) (e_fixed_len tG)
    = Ok (e_fixed_len (TContainer false [tA; tB; tC; tD; tE; tF; tG])).
Proof.
  intro H. rewrite e_is_fixed_container, e_fixed_len_container. cbn [forallb map sumN].
  unfold GenD.tuple7_enc_ssz_fixed_len, GenD.tuple7_enc_is_ssz_fixed_len. cbn [bind].
  rewrite gen_BYTES_PER_LENGTH_OFFSET.
  replace (e_is_fixed tA && e_is_fixed tB && e_is_fixed tC && e_is_fixed tD && e_is_fixed tE && e_is_fixed tF && e_is_fixed tG && true) with (e_is_fixed tA && (e_is_fixed tB && (e_is_fixed tC && (e_is_fixed tD && (e_is_fixed tE && (e_is_fixed tF && (e_is_fixed tG && true))))))) by (rewrite <- !andb_assoc; reflexivity).
  split; [reflexivity|].
  destruct (e_is_fixed tA && (e_is_fixed tB && (e_is_fixed tC && (e_is_fixed tD && (e_is_fixed tE && (e_is_fixed tF && (e_is_fixed tG && true))))))); [|reflexivity].
  unfold usize_add. fits. f_equal. lia.
Qed.

Theorem gen_tuple7_dec_metadata tA tB tC tD tE tF tG :
  d_fixed_len tA + d_fixed_len tB + d_fixed_len tC + d_fixed_len tD + d_fixed_len tE + d_fixed_len tF + d_fixed_len tG <= usize_max ->
  GenD.tuple7_dec_is_ssz_fixed_len (d_is_fixed tA) (d_is_fixed tB) (d_is_fixed tC) (d_is_fixed tD) (d_is_fixed tE) (d_is_fixed tF) (d_is_fixed tG) = Ok (d_is_fixed (TContainer false [tA; tB; tC; tD; tE; tF; tG])) /\
  GenD.tuple7_dec_ssz_fixed_len (d_is_fixed tA) (d_fixed_len tA) (d_is_fixed tB) (d_fixed_len tB) (d_is_fixed tC) (d_fixed_len tC) (d_is_fixed tD) (d_fixed_len tD) (d_is_fixed tE) (d_fixed_len tE) (d_is_fixed tF) (d_fixed_len tF) (d_is_fixed tG) (d_fixed_len tG)
    = Ok (d_fixed_len (TContainer false [tA; tB; tC; tD; tE; tF; tG])).
Proof.
  intro H. rewrite d_is_fixed_container, d_fixed_len_container. cbn [forallb map sumN].
  unfold GenD.tuple7_dec_ssz_fixed_len, GenD.tuple7_dec_is_ssz_fixed_len. cbn [bind].
  rewrite gen_BYTES_PER_LENGTH_OFFSET.
  replace (d_is_fixed tA && d_is_fixed tB && d_is_fixed tC && d_is_fixed tD && d_is_fixed tE && d_is_fixed tF && d_is_fixed tG && true) with (d_is_fixed tA && (d_is_fixed tB && (d_is_fixed tC && (d_is_fixed tD && (d_is_fixed tE && (d_is_fixed tF && (d_is_fixed tG && true))))))) by (rewrite <- !andb_assoc; reflexivity).
  split; [reflexivity|].
  destruct (d_is_fixed tA && (d_is_fixed tB && (d_is_fixed tC && (d_is_fixed tD && (d_is_fixed tE && (d_is_fixed tF && (d_is_fixed tG && true))))))); [|reflexivity].
  unfold usize_add. fits. f_equal. lia.
Qed.

Theorem gen_tuple7_ssz_bytes_len tA tB tC tD tE tF tG av bv cv dv ev fv gv :
  e_fixed_len tA + e_fixed_len tB + e_fixed_len tC + e_fixed_len tD + e_fixed_len tE + e_fixed_len tF + e_fixed_len tG <= usize_max ->
  field_len tA av + field_len tB bv + field_len tC cv + field_len tD dv + field_len tE ev + field_len tF fv + field_len tG gv <= usize_max ->
  GenD.tuple7_ssz_bytes_len (e_is_fixed tA) (e_fixed_len tA) (len_of tA) (e_is_fixed tB) (e_fixed_len tB) (len_of tB) (e_is_fixed tC) (e_fixed_len tC) (len_of tC) (e_is_fixed tD) (e_fixed_len tD) (len_of tD) (e_is_fixed tE) (e_fixed_len tE) (len_of tE) (e_is_fixed tF) (e_fixed_len tF) (len_of tF) (e_is_fixed tG) (e_fixed_len tG) (len_of tG) (av, bv, cv, dv, ev, fv, gv)
  = Ok (bytes_len (TContainer false [tA; tB; tC; tD; tE; tF; tG]) (VCont [av; bv; cv; dv; ev; fv; gv])).
Proof.
  intros HF H. unfold GenD.tuple7_ssz_bytes_len, len_of. cbn [fst snd].
  rewrite bytes_len_container. cbn [forallb combine map sumN fst snd].
  destruct (gen_tuple7_enc_metadata tA tB tC tD tE tF tG HF) as (M1 & M2).
  rewrite M1. cbn [bind]. rewrite e_is_fixed_container. cbn [forallb].
  destruct (e_is_fixed tA && (e_is_fixed tB && (e_is_fixed tC && (e_is_fixed tD && (e_is_fixed tE && (e_is_fixed tF && (e_is_fixed tG && true))))))) eqn:EF.
  - rewrite M2, e_fixed_len_container. cbn [map sumN forallb]. rewrite EF. reflexivity.
  - rewrite gen_BYTES_PER_LENGTH_OFFSET. unfold BYTES_PER_LENGTH_OFFSET. cbv zeta. unfold field_len, BYTES_PER_LENGTH_OFFSET in H.
    rewrite tuple_len_step by lia.
    rewrite tuple_len_step by lia.
    rewrite tuple_len_step by lia.
    rewrite tuple_len_step by lia.
    rewrite tuple_len_step by lia.
    rewrite tuple_len_step by lia.
    rewrite tuple_len_step by lia.
    f_equal. unfold field_len, BYTES_PER_LENGTH_OFFSET. lia.
Qed.

Print Assumptions gen_tuple7_enc_metadata.
Print Assumptions gen_tuple7_dec_metadata.
Print Assumptions gen_tuple7_ssz_bytes_len.

Theorem gen_tuple8_from_ssz_bytes tA tB tC tD tE tF tG tH bs :
  omap (fun p : val * val * val * val * val * val * val * val => VCont [(fst (fst (fst (fst (fst (fst (fst p))))))); (snd (fst (fst (fst (fst (fst (fst p))))))); (snd (fst (fst (fst (fst (fst p)))))); (snd (fst (fst (fst (fst p))))); (snd (fst (fst (fst p)))); (snd (fst (fst p))); (snd (fst p)); (snd p)])
    (GenD.tuple8_from_ssz_bytes (d_is_fixed tA) (d_fixed_len tA) (dec tA) (d_is_fixed tB) (d_fixed_len tB) (dec tB) (d_is_fixed tC) (d_fixed_len tC) (dec tC) (d_is_fixed tD) (d_fixed_len tD) (dec tD) (d_is_fixed tE) (d_fixed_len tE) (dec tE) (d_is_fixed tF) (d_fixed_len tF) (dec tF) (d_is_fixed tG) (d_fixed_len tG) (dec tG) (d_is_fixed tH) (d_fixed_len tH) (dec tH) bs)
  = dec (TContainer false [tA; tB; tC; tD; tE; tF; tG; tH]) bs.
Proof.
  unfold GenD.tuple8_from_ssz_bytes. unfold Gen.builder_new. cbn [bind].
  rewrite dec_container. cbn [andb]. unfold regs_of. cbn [map]. unfold builder_build. cbn [register_all].
  set (s0 := {| Gen.SszDecoderBuilder_bytes := bs; Gen.SszDecoderBuilder_items := []; Gen.SszDecoderBuilder_offsets := []; Gen.SszDecoderBuilder_items_index := 0 |}).
  change builder_new with (st_abs s0).
  replace bs with (Gen.SszDecoderBuilder_bytes s0) by reflexivity.
  reg_step2 s0 (d_is_fixed tA) (d_fixed_len tA). rewrite <- Es, <- Eb.
  reg_step2 s (d_is_fixed tB) (d_fixed_len tB). rewrite <- Es0, <- Eb0.
  reg_step2 s1 (d_is_fixed tC) (d_fixed_len tC). rewrite <- Es1, <- Eb1.
  reg_step2 s2 (d_is_fixed tD) (d_fixed_len tD). rewrite <- Es2, <- Eb2.
  reg_step2 s3 (d_is_fixed tE) (d_fixed_len tE). rewrite <- Es3, <- Eb3.
  reg_step2 s4 (d_is_fixed tF) (d_fixed_len tF). rewrite <- Es4, <- Eb4.
  reg_step2 s5 (d_is_fixed tG) (d_fixed_len tG). rewrite <- Es5, <- Eb5.
  reg_step2 s6 (d_is_fixed tH) (d_fixed_len tH). rewrite <- Es6, <- Eb6.
  build_step s7.
  cbn [decode_all].
  dec_step0 its tA.
  dec_step0 itm tB.
  dec_step0 itm0 tC.
  dec_step0 itm1 tD.
  dec_step0 itm2 tE.
  dec_step0 itm3 tF.
  dec_step0 itm4 tG.
  dec_step0 itm5 tH.
  reflexivity.
Qed.

Theorem gen_tuple8_ssz_append tA tB tC tD tE tF tG tH av bv cv dv ev fv gv hv buf :
  e_fixed_len tA + e_fixed_len tB + e_fixed_len tC + e_fixed_len tD + e_fixed_len tE + e_fixed_len tF + e_fixed_len tG + e_fixed_len tH + len (enc tA av) + len (enc tB bv) + len (enc tC cv) + len (enc tD dv) + len (enc tE ev) + len (enc tF fv) + len (enc tG gv) <= usize_max ->
  GenD.tuple8_ssz_append (e_is_fixed tA) (e_fixed_len tA) (app_of tA) (e_is_fixed tB) (e_fixed_len tB) (app_of tB) (e_is_fixed tC) (e_fixed_len tC) (app_of tC) (e_is_fixed tD) (e_fixed_len tD) (app_of tD) (e_is_fixed tE) (e_fixed_len tE) (app_of tE) (e_is_fixed tF) (e_fixed_len tF) (app_of tF) (e_is_fixed tG) (e_fixed_len tG) (app_of tG) (e_is_fixed tH) (e_fixed_len tH) (app_of tH) (av, bv, cv, dv, ev, fv, gv, hv) buf
  = Ok (append (TContainer false [tA; tB; tC; tD; tE; tF; tG; tH]) (VCont [av; bv; cv; dv; ev; fv; gv; hv]) buf).
Proof.
  intro H. unfold GenD.tuple8_ssz_append, app_of. cbn [fst snd].
  unfold usize_add at 1. destruct (e_fixed_len tA + e_fixed_len tB <=? usize_max) eqn:E1; [|apply N.leb_gt in E1; lia]. cbn [bind].
  unfold usize_add at 1. destruct (e_fixed_len tA + e_fixed_len tB + e_fixed_len tC <=? usize_max) eqn:E2; [|apply N.leb_gt in E2; lia]. cbn [bind].
  unfold usize_add at 1. destruct (e_fixed_len tA + e_fixed_len tB + e_fixed_len tC + e_fixed_len tD <=? usize_max) eqn:E3; [|apply N.leb_gt in E3; lia]. cbn [bind].
  unfold usize_add at 1. destruct (e_fixed_len tA + e_fixed_len tB + e_fixed_len tC + e_fixed_len tD + e_fixed_len tE <=? usize_max) eqn:E4; [|apply N.leb_gt in E4; lia]. cbn [bind].
  unfold usize_add at 1. destruct (e_fixed_len tA + e_fixed_len tB + e_fixed_len tC + e_fixed_len tD + e_fixed_len tE + e_fixed_len tF <=? usize_max) eqn:E5; [|apply N.leb_gt in E5; lia]. cbn [bind].
  unfold usize_add at 1. destruct (e_fixed_len tA + e_fixed_len tB + e_fixed_len tC + e_fixed_len tD + e_fixed_len tE + e_fixed_len tF + e_fixed_len tG <=? usize_max) eqn:E6; [|apply N.leb_gt in E6; lia]. cbn [bind].
  unfold usize_add at 1. destruct (e_fixed_len tA + e_fixed_len tB + e_fixed_len tC + e_fixed_len tD + e_fixed_len tE + e_fixed_len tF + e_fixed_len tG + e_fixed_len tH <=? usize_max) eqn:E7; [|apply N.leb_gt in E7; lia]. cbn [bind].
  unfold usize_add at 1. destruct (e_fixed_len tA + e_fixed_len tB + e_fixed_len tC + e_fixed_len tD + e_fixed_len tE + e_fixed_len tF + e_fixed_len tG + e_fixed_len tH + 0 <=? usize_max) eqn:E8; [|apply N.leb_gt in E8; lia]. cbn [bind].
  unfold Gen.encoder_container. cbn [bind].
  set (F := e_fixed_len tA + e_fixed_len tB + e_fixed_len tC + e_fixed_len tD + e_fixed_len tE + e_fixed_len tF + e_fixed_len tG + e_fixed_len tH + 0).
  set (s0 := {| Gen.SszEncoder_offset := F; Gen.SszEncoder_buf := buf; Gen.SszEncoder_variable_bytes := [] |}).
  assert (V0 : len (e_var (enc_abs s0)) = 0) by reflexivity. assert (O0 : e_offset (enc_abs s0) = F) by reflexivity.
  destruct (append_item_ok (e_is_fixed tA) (append tA) s0 av) as (s1 & -> & A1); [unfold F in *; lia|]. cbn [bind].
  pose proof (enc_append_var_len (enc_abs s0) (e_is_fixed tA) tA av) as V1. rewrite <- A1 in V1.
  assert (O1 : e_offset (enc_abs s1) = F) by (rewrite A1, enc_append_offset; exact O0).
  destruct (append_item_ok (e_is_fixed tB) (append tB) s1 bv) as (s2 & -> & A2); [unfold F in *; lia|]. cbn [bind].
  pose proof (enc_append_var_len (enc_abs s1) (e_is_fixed tB) tB bv) as V2. rewrite <- A2 in V2.
  assert (O2 : e_offset (enc_abs s2) = F) by (rewrite A2, enc_append_offset; exact O1).
  destruct (append_item_ok (e_is_fixed tC) (append tC) s2 cv) as (s3 & -> & A3); [unfold F in *; lia|]. cbn [bind].
  pose proof (enc_append_var_len (enc_abs s2) (e_is_fixed tC) tC cv) as V3. rewrite <- A3 in V3.
  assert (O3 : e_offset (enc_abs s3) = F) by (rewrite A3, enc_append_offset; exact O2).
  destruct (append_item_ok (e_is_fixed tD) (append tD) s3 dv) as (s4 & -> & A4); [unfold F in *; lia|]. cbn [bind].
  pose proof (enc_append_var_len (enc_abs s3) (e_is_fixed tD) tD dv) as V4. rewrite <- A4 in V4.
  assert (O4 : e_offset (enc_abs s4) = F) by (rewrite A4, enc_append_offset; exact O3).
  destruct (append_item_ok (e_is_fixed tE) (append tE) s4 ev) as (s5 & -> & A5); [unfold F in *; lia|]. cbn [bind].
  pose proof (enc_append_var_len (enc_abs s4) (e_is_fixed tE) tE ev) as V5. rewrite <- A5 in V5.
  assert (O5 : e_offset (enc_abs s5) = F) by (rewrite A5, enc_append_offset; exact O4).
  destruct (append_item_ok (e_is_fixed tF) (append tF) s5 fv) as (s6 & -> & A6); [unfold F in *; lia|]. cbn [bind].
  pose proof (enc_append_var_len (enc_abs s5) (e_is_fixed tF) tF fv) as V6. rewrite <- A6 in V6.
  assert (O6 : e_offset (enc_abs s6) = F) by (rewrite A6, enc_append_offset; exact O5).
  destruct (append_item_ok (e_is_fixed tG) (append tG) s6 gv) as (s7 & -> & A7); [unfold F in *; lia|]. cbn [bind].
  pose proof (enc_append_var_len (enc_abs s6) (e_is_fixed tG) tG gv) as V7. rewrite <- A7 in V7.
  assert (O7 : e_offset (enc_abs s7) = F) by (rewrite A7, enc_append_offset; exact O6).
  destruct (append_item_ok (e_is_fixed tH) (append tH) s7 hv) as (s8 & -> & A8); [unfold F in *; lia|]. cbn [bind].
  rewrite finalize_bind, A8, A7, A6, A5, A4, A3, A2, A1. f_equal.
  rewrite append_container. unfold enc_run, cont_items. cbn [combine map fold_left fst snd sumN].
  replace (e_fixed_len tA + (e_fixed_len tB + (e_fixed_len tC + (e_fixed_len tD + (e_fixed_len tE + (e_fixed_len tF + (e_fixed_len tG + (e_fixed_len tH + 0)))))))) with F by (unfold F; lia).
  reflexivity.
Qed.

Print Assumptions gen_tuple8_from_ssz_bytes.
Print Assumptions gen_tuple8_ssz_append.

Theorem gen_tuple8_enc_metadata tA tB tC tD tE tF tG tH :
  e_fixed_len tA + e_fixed_len tB + e_fixed_len tC + e_fixed_len tD + e_fixed_len tE + e_fixed_len tF + e_fixed_len tG + e_fixed_len tH <= usize_max ->
  GenD.tuple8_enc_is_ssz_fixed_len (e_is_fixed tA) (e_is_fixed tB) (e_is_fixed tC) (e_is_fixed tD) (e_is_fixed tE) (e_is_fixed tF) (e_is_fixed tG) (e_is_fixed tH) = Ok (e_is_fixed (TContainer false [tA; tB; tC; tD; tE; tF; tG; tH])) /\
  GenD.tuple8_enc_ssz_fixed_len (e_is_fixed tA) (e_fixed_len tA) (e_is_fixed tB) (e_fixed_len tB) (e_is_fixed tC) (e_fixed_len tC) (e_is_fixed tD) (e_fixed_len tD) (e_is_fixed tE) (e_fixed_len tE) (e_is_fixed tF) (e_fixed_len tF) (e_is_fixed tG) (e_fixed_len tG) (e_is_fixed tH) (e_fixed_len tH)
    = Ok (e_fixed_len (TContainer false [tA; tB; tC; tD; tE; tF; tG; tH])).
Proof.
  intro H. rewrite e_is_fixed_container, e_fixed_len_container. cbn [forallb map sumN].
  unfold GenD.tuple8_enc_ssz_fixed_len, GenD.tuple8_enc_is_ssz_fixed_len. cbn [bind].
  rewrite gen_BYTES_PER_LENGTH_OFFSET.
  replace (e_is_fixed tA && e_is_fixed tB && e_is_fixed tC && e_is_fixed tD && e_is_fixed tE && e_is_fixed tF && e_is_fixed tG && e_is_fixed tH && true) with (e_is_fixed tA && (e_is_fixed tB && (e_is_fixed tC && (e_is_fixed tD && (e_is_fixed tE && (e_is_fixed tF && (e_is_fixed tG && (e_is_fixed tH && true)))))))) by (rewrite <- !andb_assoc; reflexivity).
  split; [reflexivity|].
  destruct (e_is_fixed tA && (e_is_fixed tB && (e_is_fixed tC && (e_is_fixed tD && (e_is_fixed tE && (e_is_fixed tF && (e_is_fixed tG && (e_is_fixed tH && true)))))))); [|reflexivity].
  unfold usize_add. fits. f_equal. lia.
Qed.

Theorem gen_tuple8_dec_metadata tA tB tC tD tE tF tG tH :
  d_fixed_len tA + d_fixed_len tB + d_fixed_len tC + d_fixed_len tD + d_fixed_len tE + d_fixed_len tF + d_fixed_len tG + d_fixed_len tH <= usize_max ->
  GenD.tuple8_dec_is_ssz_fixed_len (d_is_fixed tA) (d_is_fixed tB) (d_is_fixed tC) (d_is_fixed tD) (d_is_fixed tE) (d_is_fixed tF) (d_is_fixed tG) (d_is_fixed tH) = Ok (d_is_fixed (TContainer false [tA; tB; tC; tD; tE; tF; tG; tH])) /\
  GenD.tuple8_dec_ssz_fixed_len (d_is_fixed tA) (d_fixed_len tA) (d_is_fixed tB) (d_fixed_len tB) (d_is_fixed tC) (d_fixed_len tC) (d_is_fixed tD) (d_fixed_len tD) (d_is_fixed tE) (d_fixed_len tE) (d_is_fixed tF) (d_fixed_len tF) (d_is_fixed tG) (d_fixed_len tG) (d_is_fixed tH) (d_fixed_len tH)
    = Ok (d_fixed_len (TContainer false [tA; tB; tC; tD; tE; tF; tG; tH])).
Proof.
  intro H. rewrite d_is_fixed_container, d_fixed_len_container. cbn [forallb map sumN].
  unfold GenD.tuple8_dec_ssz_fixed_len, GenD.tuple8_dec_is_ssz_fixed_len. cbn [bind].
  rewrite gen_BYTES_PER_LENGTH_OFFSET.
  replace (d_is_fixed tA && d_is_fixed tB && d_is_fixed tC && d_is_fixed tD && d_is_fixed tE && d_is_fixed tF && d_is_fixed tG && d_is_fixed tH && true) with (d_is_fixed tA && (d_is_fixed tB && (d_is_fixed tC && (d_is_fixed tD && (d_is_fixed tE && (d_is_fixed tF && (d_is_fixed tG && (d_is_fixed tH && true)))))))) by (rewrite <- !andb_assoc; reflexivity).
  split; [reflexivity|].
  destruct (d_is_fixed tA && (d_is_fixed tB && (d_is_fixed tC && (d_is_fixed tD && (d_is_fixed tE && (d_is_fixed tF && (d_is_fixed tG && (d_is_fixed tH && true)))))))); [|reflexivity].
  unfold usize_add. fits. f_equal. lia.
Qed.

Theorem gen_tuple8_ssz_bytes_len tA tB tC tD tE tF tG tH av bv cv dv ev fv gv hv :
  e_fixed_len tA + e_fixed_len tB + e_fixed_len tC + e_fixed_len tD + e_fixed_len tE + e_fixed_len tF + e_fixed_len tG + e_fixed_len tH <= usize_max ->
  field_len tA av + field_len tB bv + field_len tC cv + field_len tD dv + field_len tE ev + field_len tF fv + field_len tG gv + field_len tH hv <= usize_max ->
  GenD.tuple8_ssz_bytes_len (e_is_fixed tA) (e_fixed_len tA) (len_of tA) (e_is_fixed tB) (e_fixed_len tB) (len_of tB) (e_is_fixed tC) (e_fixed_len tC) (len_of tC) (e_is_fixed tD) (e_fixed_len tD) (len_of tD) (e_is_fixed tE) (e_fixed_len tE) (len_of tE) (e_is_fixed tF) (e_fixed_len tF) (len_of tF) (e_is_fixed tG) (e_fixed_len tG) (len_of tG) (e_is_fixed tH) (e_fixed_len tH) (len_of tH) (av, bv, cv, dv, ev, fv, gv, hv)
  = Ok (bytes_len (TContainer false [tA; tB; tC; tD; tE; tF; tG; tH]) (VCont [av; bv; cv; dv; ev; fv; gv; hv])).
Proof.
  intros HF H. unfold GenD.tuple8_ssz_bytes_len, len_of. cbn [fst snd].
  rewrite bytes_len_container. cbn [forallb combine map sumN fst snd].
  destruct (gen_tuple8_enc_metadata tA tB tC tD tE tF tG tH HF) as (M1 & M2).
  rewrite M1. cbn [bind]. rewrite e_is_fixed_container. cbn [forallb].
  destruct (e_is_fixed tA && (e_is_fixed tB && (e_is_fixed tC && (e_is_fixed tD && (e_is_fixed tE && (e_is_fixed tF && (e_is_fixed tG && (e_is_fixed tH && true)))))))) eqn:EF.
  - rewrite M2, e_fixed_len_container. cbn [map sumN forallb]. rewrite EF. reflexivity.
  - rewrite gen_BYTES_PER_LENGTH_OFFSET. unfold BYTES_PER_LENGTH_OFFSET. cbv zeta. unfold field_len, BYTES_PER_LENGTH_OFFSET in H.
    rewrite tuple_len_step by lia.
    rewrite tuple_len_step by lia.
    rewrite tuple_len_step by lia.
    rewrite tuple_len_step by lia.
    rewrite tuple_len_step by lia.
    rewrite tuple_len_step by lia.
    rewrite tuple_len_step by lia.
    rewrite tuple_len_step by lia.
    f_equal. unfold field_len, BYTES_PER_LENGTH_OFFSET. lia.
Qed.

Print Assumptions gen_tuple8_enc_metadata.
Print Assumptions gen_tuple8_dec_metadata.
Print Assumptions gen_tuple8_ssz_bytes_len.

Theorem gen_tuple9_from_ssz_bytes tA tB tC tD tE tF tG tH tI bs :
  omap (fun p : val * val * val * val * val * val * val * val * val => VCont [(fst (fst (fst (fst (fst (fst (fst (fst p)))))))); (snd (fst (fst (fst (fst (fst (fst (fst p)))))))); (snd (fst (fst (fst (fst (fst (fst p))))))); (snd (fst (fst (fst (fst (fst p)))))); (snd (fst (fst (fst (fst p))))); (snd (fst (fst (fst p)))); (snd (fst (fst p))); (snd (fst p)); (snd p)])
    (GenD.tuple9_from_ssz_bytes (d_is_fixed tA) (d_fixed_len tA) (dec tA) (d_is_fixed tB) (d_fixed_len tB) (dec tB) (d_is_fixed tC) (d_fixed_len tC) (dec tC) (d_is_fixed tD) (d_fixed_len tD) (dec tD) (d_is_fixed tE) (d_fixed_len tE) (dec tE) (d_is_fixed tF) (d_fixed_len tF) (dec tF) (d_is_fixed tG) (d_fixed_len tG) (dec tG) (d_is_fixed tH) (d_fixed_len tH) (dec tH) (d_is_fixed tI) (d_fixed_len tI) (dec tI) bs)
  = dec (TContainer false [tA; tB; tC; tD; tE; tF; tG; tH; tI]) bs.
Proof.
  unfold GenD.tuple9_from_ssz_bytes. unfold Gen.builder_new. cbn [bind].
  rewrite dec_container. cbn [andb]. unfold regs_of. cbn [map]. unfold builder_build. cbn [register_all].
  set (s0 := {| Gen.SszDecoderBuilder_bytes := bs; Gen.SszDecoderBuilder_items := []; Gen.SszDecoderBuilder_offsets := []; Gen.SszDecoderBuilder_items_index := 0 |}).
  change builder_new with (st_abs s0).
  replace bs with (Gen.SszDecoderBuilder_bytes s0) by reflexivity.
  reg_step2 s0 (d_is_fixed tA) (d_fixed_len tA). rewrite <- Es, <- Eb.
  reg_step2 s (d_is_fixed tB) (d_fixed_len tB). rewrite <- Es0, <- Eb0.
  reg_step2 s1 (d_is_fixed tC) (d_fixed_len tC). rewrite <- Es1, <- Eb1.
  reg_step2 s2 (d_is_fixed tD) (d_fixed_len tD). rewrite <- Es2, <- Eb2.
  reg_step2 s3 (d_is_fixed tE) (d_fixed_len tE). rewrite <- Es3, <- Eb3.
  reg_step2 s4 (d_is_fixed tF) (d_fixed_len tF). rewrite <- Es4, <- Eb4.
  reg_step2 s5 (d_is_fixed tG) (d_fixed_len tG). rewrite <- Es5, <- Eb5.
  reg_step2 s6 (d_is_fixed tH) (d_fixed_len tH). rewrite <- Es6, <- Eb6.
  reg_step2 s7 (d_is_fixed tI) (d_fixed_len tI). rewrite <- Es7, <- Eb7.
  build_step s8.
  cbn [decode_all].
  dec_step0 its tA.
  dec_step0 itm tB.
  dec_step0 itm0 tC.
  dec_step0 itm1 tD.
  dec_step0 itm2 tE.
  dec_step0 itm3 tF.
  dec_step0 itm4 tG.
  dec_step0 itm5 tH.
  dec_step0 itm6 tI.
  reflexivity.
Qed.

Theorem gen_tuple9_ssz_append tA tB tC tD tE tF tG tH tI av bv cv dv ev fv gv hv iv buf :
  e_fixed_len tA + e_fixed_len tB + e_fixed_len tC + e_fixed_len tD + e_fixed_len tE + e_fixed_len tF + e_fixed_len tG + e_fixed_len tH + e_fixed_len tI + len (enc tA av) + len (enc tB bv) + len (enc tC cv) + len (enc tD dv) + len (enc tE ev) + len (enc tF fv) + len (enc tG gv) + len (enc tH hv) <= usize_max ->
  GenD.tuple9_ssz_append (e_is_fixed tA) (e_fixed_len tA) (app_of tA) (e_is_fixed tB) (e_fixed_len tB) (app_of tB) (e_is_fixed tC) (e_fixed_len tC) (app_of tC) (e_is_fixed tD) (e_fixed_len tD) (app_of tD) (e_is_fixed tE) (e_fixed_len tE) (app_of tE) (e_is_fixed tF) (e_fixed_len tF) (app_of tF) (e_is_fixed tG) (e_fixed_len tG) (app_of tG) (e_is_fixed tH) (e_fixed_len tH) (app_of tH) (e_is_fixed tI) (e_fixed_len tI) (app_of tI) (av, bv, cv, dv, ev, fv, gv, hv, iv) buf
  = Ok (append (TContainer false [tA; tB; tC; tD; tE; tF; tG; tH; tI]) (VCont [av; bv; cv; dv; ev; fv; gv; hv; iv]) buf).
Proof.
  intro H. unfold GenD.tuple9_ssz_append, app_of. cbn [fst snd].
  unfold usize_add at 1. destruct (e_fixed_len tA + e_fixed_len tB <=? usize_max) eqn:E1; [|apply N.leb_gt in E1; lia]. cbn [bind].
  unfold usize_add at 1. destruct (e_fixed_len tA + e_fixed_len tB + e_fixed_len tC <=? usize_max) eqn:E2; [|apply N.leb_gt in E2; lia]. cbn [bind].
  unfold usize_add at 1. destruct (e_fixed_len tA + e_fixed_len tB + e_fixed_len tC + e_fixed_len tD <=? usize_max) eqn:E3; [|apply N.leb_gt in E3; lia]. cbn [bind].
  unfold usize_add at 1. destruct (e_fixed_len tA + e_fixed_len tB + e_fixed_len tC + e_fixed_len tD + e_fixed_len tE <=? usize_max) eqn:E4; [|apply N.leb_gt in E4; lia]. cbn [bind].
  unfold usize_add at 1. destruct (e_fixed_len tA + e_fixed_len tB + e_fixed_len tC + e_fixed_len tD + e_fixed_len tE + e_fixed_len tF <=? usize_max) eqn:E5; [|apply N.leb_gt in E5; lia]. cbn [bind].
  unfold usize_add at 1. destruct (e_fixed_len tA + e_fixed_len tB + e_fixed_len tC + e_fixed_len tD + e_fixed_len tE + e_fixed_len tF + e_fixed_len tG <=? usize_max) eqn:E6; [|apply N.leb_gt in E6; lia]. cbn [bind].
  unfold usize_add at 1. destruct (e_fixed_len tA + e_fixed_len tB + e_fixed_len tC + e_fixed_len tD + e_fixed_len tE + e_fixed_len tF + e_fixed_len tG + e_fixed_len tH <=? usize_max) eqn:E7; [|apply N.leb_gt in E7; lia]. cbn [bind].
  unfold usize_add at 1. destruct (e_fixed_len tA + e_fixed_len tB + e_fixed_len tC + e_fixed_len tD + e_fixed_len tE + e_fixed_len tF + e_fixed_len tG + e_fixed_len tH + e_fixed_len tI <=? usize_max) eqn:E8; [|apply N.leb_gt in E8; lia]. cbn [bind].
  unfold usize_add at 1. destruct (e_fixed_len tA + e_fixed_len tB + e_fixed_len tC + e_fixed_len tD + e_fixed_len tE + e_fixed_len tF + e_fixed_len tG + e_fixed_len tH + e_fixed_len tI + 0 <=? usize_max) eqn:E9; [|apply N.leb_gt in E9; lia]. cbn [bind].
  unfold Gen.encoder_container. cbn [bind].
  set (F := e_fixed_len tA + e_fixed_len tB + e_fixed_len tC + e_fixed_len tD + e_fixed_len tE + e_fixed_len tF + e_fixed_len tG + e_fixed_len tH + e_fixed_len tI + 0).
  set (s0 := {| Gen.SszEncoder_offset := F; Gen.SszEncoder_buf := buf; Gen.SszEncoder_variable_bytes := [] |}).
  assert (V0 : len (e_var (enc_abs s0)) = 0) by reflexivity. assert (O0 : e_offset (enc_abs s0) = F) by reflexivity.
  destruct (append_item_ok (e_is_fixed tA) (append tA) s0 av) as (s1 & -> & A1); [unfold F in *; lia|]. cbn [bind].
  pose proof (enc_append_var_len (enc_abs s0) (e_is_fixed tA) tA av) as V1. rewrite <- A1 in V1.
  assert (O1 : e_offset (enc_abs s1) = F) by (rewrite A1, enc_append_offset; exact O0).
  destruct (append_item_ok (e_is_fixed tB) (append tB) s1 bv) as (s2 & -> & A2); [unfold F in *; lia|]. cbn [bind].
  pose proof (enc_append_var_len (enc_abs s1) (e_is_fixed tB) tB bv) as V2. rewrite <- A2 in V2.
  assert (O2 : e_offset (enc_abs s2) = F) by (rewrite A2, enc_append_offset; exact O1).
  destruct (append_item_ok (e_is_fixed tC) (append tC) s2 cv) as (s3 & -> & A3); [unfold F in *; lia|]. cbn [bind].
  pose proof (enc_append_var_len (enc_abs s2) (e_is_fixed tC) tC cv) as V3. rewrite <- A3 in V3.
  assert (O3 : e_offset (enc_abs s3) = F) by (rewrite A3, enc_append_offset; exact O2).
  destruct (append_item_ok (e_is_fixed tD) (append tD) s3 dv) as (s4 & -> & A4); [unfold F in *; lia|]. cbn [bind].
  pose proof (enc_append_var_len (enc_abs s3) (e_is_fixed tD) tD dv) as V4. rewrite <- A4 in V4.
  assert (O4 : e_offset (enc_abs s4) = F) by (rewrite A4, enc_append_offset; exact O3).
  destruct (append_item_ok (e_is_fixed tE) (append tE) s4 ev) as (s5 & -> & A5); [unfold F in *; lia|]. cbn [bind].
  pose proof (enc_append_var_len (enc_abs s4) (e_is_fixed tE) tE ev) as V5. rewrite <- A5 in V5.
  assert (O5 : e_offset (enc_abs s5) = F) by (rewrite A5, enc_append_offset; exact O4).
  destruct (append_item_ok (e_is_fixed tF) (append tF) s5 fv) as (s6 & -> & A6); [unfold F in *; lia|]. cbn [bind].
  pose proof (enc_append_var_len (enc_abs s5) (e_is_fixed tF) tF fv) as V6. rewrite <- A6 in V6.
  assert (O6 : e_offset (enc_abs s6) = F) by (rewrite A6, enc_append_offset; exact O5).
  destruct (append_item_ok (e_is_fixed tG) (append tG) s6 gv) as (s7 & -> & A7); [unfold F in *; lia|]. cbn [bind].
  pose proof (enc_append_var_len (enc_abs s6) (e_is_fixed tG) tG gv) as V7. rewrite <- A7 in V7.
  assert (O7 : e_offset (enc_abs s7) = F) by (rewrite A7, enc_append_offset; exact O6).
  destruct (append_item_ok (e_is_fixed tH) (append tH) s7 hv) as (s8 & -> & A8); [unfold F in *; lia|]. cbn [bind].
  pose proof (enc_append_var_len (enc_abs s7) (e_is_fixed tH) tH hv) as V8. rewrite <- A8 in V8.
  assert (O8 : e_offset (enc_abs s8) = F) by (rewrite A8, enc_append_offset; exact O7).
  destruct (append_item_ok (e_is_fixed tI) (append tI) s8 iv) as (s9 & -> & A9); [unfold F in *; lia|]. cbn [bind].
  rewrite finalize_bind, A9, A8, A7, A6, A5, A4, A3, A2, A1. f_equal.
  rewrite append_container. unfold enc_run, cont_items. cbn [combine map fold_left fst snd sumN].
  replace (e_fixed_len tA + (e_fixed_len tB + (e_fixed_len tC + (e_fixed_len tD + (e_fixed_len tE + (e_fixed_len tF + (e_fixed_len tG + (e_fixed_len tH + (e_fixed_len tI + 0))))))))) with F by (unfold F; lia).
  reflexivity.
Qed.

Print Assumptions gen_tuple9_from_ssz_bytes.
Print Assumptions gen_tuple9_ssz_append.

Theorem gen_tuple9_enc_metadata tA tB tC tD tE tF tG tH tI :
  e_fixed_len tA + e_fixed_len tB + e_fixed_len tC + e_fixed_len tD + e_fixed_len tE + e_fixed_len tF + e_fixed_len tG + e_fixed_len tH + e_fixed_len tI <= usize_max ->
  GenD.tuple9_enc_is_ssz_fixed_len (e_is_fixed tA) (e_is_fixed tB) (e_is_fixed tC) (e_is_fixed tD) (e_is_fixed tE) (e_is_fixed tF) (e_is_fixed tG) (e_is_fixed tH) (e_is_fixed tI) = Ok (e_is_fixed (TContainer false [tA; tB; tC; tD; tE; tF; tG; tH; tI])) /\
  GenD.tuple9_enc_ssz_fixed_len (e_is_fixed tA) (e_fixed_len tA) (e_is_fixed tB) (e_fixed_len tB) (e_is_fixed tC) (e_fixed_len tC) (e_is_fixed tD) (e_fixed_len tD) (e_is_fixed tE) (e_fixed_len tE) (e_is_fixed tF) (e_fixed_len tF) (e_is_fixed tG) (e_fixed_len tG) (e_is_fixed tH) (e_fixed_len tH) (e_is_fixed tI) (e_fixed_len tI)
    = Ok (e_fixed_len (TContainer false [tA; tB; tC; tD; tE; tF; tG; tH; tI])).
Proof.
  intro H. rewrite e_is_fixed_container, e_fixed_len_container. cbn [forallb map sumN].
  unfold GenD.tuple9_enc_ssz_fixed_len, GenD.tuple9_enc_is_ssz_fixed_len. cbn [bind].
  rewrite gen_BYTES_PER_LENGTH_OFFSET.
  replace (e_is_fixed tA && e_is_fixed tB && e_is_fixed tC && e_is_fixed tD && e_is_fixed tE && e_is_fixed tF && e_is_fixed tG && e_is_fixed tH && e_is_fixed tI && true) with (e_is_fixed tA && (e_is_fixed tB && (e_is_fixed tC && (e_is_fixed tD && (e_is_fixed tE && (e_is_fixed tF && (e_is_fixed tG && (e_is_fixed tH && (e_is_fixed tI && true))))))))) by (rewrite <- !andb_assoc; reflexivity).
  split; [reflexivity|].
  destruct (e_is_fixed tA && (e_is_fixed tB && (e_is_fixed tC && (e_is_fixed tD && (e_is_fixed tE && (e_is_fixed tF && (e_is_fixed tG && (e_is_fixed tH && (e_is_fixed tI && true))))))))); [|reflexivity].
  unfold usize_add. fits. f_equal. lia.
Qed.

Theorem gen_tuple9_dec_metadata tA tB tC tD tE tF tG tH tI :
  d_fixed_len tA + d_fixed_len tB + d_fixed_len tC + d_fixed_len tD + d_fixed_len tE + d_fixed_len tF + d_fixed_len tG + d_fixed_len tH + d_fixed_len tI <= usize_max ->
  GenD.tuple9_dec_is_ssz_fixed_len (d_is_fixed tA) (d_is_fixed tB) (d_is_fixed tC) (d_is_fixed tD) (d_is_fixed tE) (d_is_fixed tF) (d_is_fixed tG) (d_is_fixed tH) (d_is_fixed tI) = Ok (d_is_fixed (TContainer false [tA; tB; tC; tD; tE; tF; tG; tH; tI])) /\
  GenD.tuple9_dec_ssz_fixed_len (d_is_fixed tA) (d_fixed_len tA) (d_is_fixed tB) (d_fixed_len tB) (d_is_fixed tC) (d_fixed_len tC) (d_is_fixed tD) (d_fixed_len tD) (d_is_fixed tE) (d_fixed_len tE) (d_is_fixed tF) (d_fixed_len tF) (d_is_fixed tG) (d_fixed_len tG) (d_is_fixed tH) (d_fixed_len tH) (d_is_fixed tI) (d_fixed_len tI)
    = Ok (d_fixed_len (TContainer false [tA; tB; tC; tD; tE; tF; tG; tH; tI])).
Proof.
  intro H. rewrite d_is_fixed_container, d_fixed_len_container. cbn [forallb map sumN].
  unfold GenD.tuple9_dec_ssz_fixed_len, GenD.tuple9_dec_is_ssz_fixed_len. cbn [bind].
  rewrite gen_BYTES_PER_LENGTH_OFFSET.
  replace (d_is_fixed tA && d_is_fixed tB && d_is_fixed tC && d_is_fixed tD && d_is_fixed tE && d_is_fixed tF && d_is_fixed tG && d_is_fixed tH && d_is_fixed tI && true) with (d_is_fixed tA && (d_is_fixed tB && (d_is_fixed tC && (d_is_fixed tD && (d_is_fixed tE && (d_is_fixed tF && (d_is_fixed tG && (d_is_fixed tH && (d_is_fixed tI && true))))))))) by (rewrite <- !andb_assoc; reflexivity).
  split; [reflexivity|].
  destruct (d_is_fixed tA && (d_is_fixed tB && (d_is_fixed tC && (d_is_fixed tD && (d_is_fixed tE && (d_is_fixed tF && (d_is_fixed tG && (d_is_fixed tH && (d_is_fixed tI && true))))))))); [|reflexivity].
  unfold usize_add. fits. f_equal. lia.
Qed.

Theorem gen_tuple9_ssz_bytes_len tA tB tC tD tE tF tG tH tI av bv cv dv ev fv gv hv iv :
  e_fixed_len tA + e_fixed_len tB + e_fixed_len tC + e_fixed_len tD + e_fixed_len tE + e_fixed_len tF + e_fixed_len tG + e_fixed_len tH + e_fixed_len tI <= usize_max ->
  field_len tA av + field_len tB bv + field_len tC cv + field_len tD dv + field_len tE ev + field_len tF fv + field_len tG gv + field_len tH hv + field_len tI iv <= usize_max ->
  GenD.tuple9_ssz_bytes_len (e_is_fixed tA) (e_fixed_len tA) (len_of tA) (e_is_fixed tB) (e_fixed_len tB) (len_of tB) (e_is_fixed tC) (e_fixed_len tC) (len_of tC) (e_is_fixed tD) (e_fixed_len tD) (len_of tD) (e_is_fixed tE) (e_fixed_len tE) (len_of tE) (e_is_fixed tF) (e_fixed_len tF) (len_of tF) (e_is_fixed tG) (e_fixed_len tG) (len_of tG) (e_is_fixed tH) (e_fixed_len tH) (len_of tH) (e_is_fixed tI) (e_fixed_len tI) (len_of tI) (av, bv, cv, dv, ev, fv, gv, hv, iv)
  = Ok (bytes_len (TContainer false [tA; tB; tC; tD; tE; tF; tG; tH; tI]) (VCont [av; bv; cv; dv; ev; fv; gv; hv; iv])).
Proof.
  intros HF H. unfold GenD.tuple9_ssz_bytes_len, len_of. cbn [fst snd].
  rewrite bytes_len_container. cbn [forallb combine map sumN fst snd].
  destruct (gen_tuple9_enc_metadata tA tB tC tD tE tF tG tH tI HF) as (M1 & M2).
  rewrite M1. cbn [bind]. rewrite e_is_fixed_container. cbn [forallb].
  destruct (e_is_fixed tA && (e_is_fixed tB && (e_is_fixed tC && (e_is_fixed tD && (e_is_fixed tE && (e_is_fixed tF && (e_is_fixed tG && (e_is_fixed tH && (e_is_fixed tI && true))))))))) eqn:EF.
  - rewrite M2, e_fixed_len_container. cbn [map sumN forallb]. rewrite EF. reflexivity.
  - rewrite gen_BYTES_PER_LENGTH_OFFSET. unfold BYTES_PER_LENGTH_OFFSET. cbv zeta. unfold field_len, BYTES_PER_LENGTH_OFFSET in H.
    rewrite tuple_len_step by lia.
    rewrite tuple_len_step by lia.
    rewrite tuple_len_step by lia.
    rewrite tuple_len_step by lia.
    rewrite tuple_len_step by lia.
    rewrite tuple_len_step by lia.
    rewrite tuple_len_step by lia.
    rewrite tuple_len_step by lia.
    rewrite tuple_len_step by lia.
    f_equal. unfold field_len, BYTES_PER_LENGTH_OFFSET. lia.
Qed.

Print Assumptions gen_tuple9_enc_metadata.
Print Assumptions gen_tuple9_dec_metadata.
Print Assumptions gen_tuple9_ssz_bytes_len.

Theorem gen_tuple10_from_ssz_bytes tA tB tC tD tE tF tG tH tI tJ bs :
  omap (fun p : val * val * val * val * val * val * val * val * val * val => VCont [(fst (fst (fst (fst (fst (fst (fst (fst (fst p))))))))); (snd (fst (fst (fst (fst (fst (fst (fst (fst p))))))))); (snd (fst (fst (fst (fst (fst (fst (fst p)))))))); (snd (fst (fst (fst (fst (fst (fst p))))))); (snd (fst (fst (fst (fst (fst p)))))); (snd (fst (fst (fst (fst p))))); (snd (fst (fst (fst p)))); (snd (fst (fst p))); (snd (fst p)); (snd p)])
    (GenD.tuple10_from_ssz_bytes (d_is_fixed tA) (d_fixed_len tA) (dec tA) (d_is_fixed tB) (d_fixed_len tB) (dec tB) (d_is_fixed tC) (d_fixed_len tC) (dec tC) (d_is_fixed tD) (d_fixed_len tD) (dec tD) (d_is_fixed tE) (d_fixed_len tE) (dec tE) (d_is_fixed tF) (d_fixed_len tF) (dec tF) (d_is_fixed tG) (d_fixed_len tG) (dec tG) (d_is_fixed tH) (d_fixed_len tH) (dec tH) (d_is_fixed tI) (d_fixed_len tI) (dec tI) (d_is_fixed tJ) (d_fixed_len tJ) (dec tJ) bs)
  = dec (TContainer false [tA; tB; tC; tD; tE; tF; tG; tH; tI; tJ]) bs.
Proof.
  unfold GenD.tuple10_from_ssz_bytes. unfold Gen.builder_new. cbn [bind].
  rewrite dec_container. cbn [andb]. unfold regs_of. cbn [map]. unfold builder_build. cbn [register_all].
  set (s0 := {| Gen.SszDecoderBuilder_bytes := bs; Gen.SszDecoderBuilder_items := []; Gen.SszDecoderBuilder_offsets := []; Gen.SszDecoderBuilder_items_index := 0 |}).
  change builder_new with (st_abs s0).
  replace bs with (Gen.SszDecoderBuilder_bytes s0) by reflexivity.
  reg_step2 s0 (d_is_fixed tA) (d_fixed_len tA). rewrite <- Es, <- Eb.
  reg_step2 s (d_is_fixed tB) (d_fixed_len tB). rewrite <- Es0, <- Eb0.
  reg_step2 s1 (d_is_fixed tC) (d_fixed_len tC). rewrite <- Es1, <- Eb1.
  reg_step2 s2 (d_is_fixed tD) (d_fixed_len tD). rewrite <- Es2, <- Eb2.
  reg_step2 s3 (d_is_fixed tE) (d_fixed_len tE). rewrite <- Es3, <- Eb3.
  reg_step2 s4 (d_is_fixed tF) (d_fixed_len tF). rewrite <- Es4, <- Eb4.
  reg_step2 s5 (d_is_fixed tG) (d_fixed_len tG). rewrite <- Es5, <- Eb5.
  reg_step2 s6 (d_is_fixed tH) (d_fixed_len tH). rewrite <- Es6, <- Eb6.
  reg_step2 s7 (d_is_fixed tI) (d_fixed_len tI). rewrite <- Es7, <- Eb7.
  reg_step2 s8 (d_is_fixed tJ) (d_fixed_len tJ). rewrite <- Es8, <- Eb8.
  build_step s9.
  cbn [decode_all].
  dec_step0 its tA.
  dec_step0 itm tB.
  dec_step0 itm0 tC.
  dec_step0 itm1 tD.
  dec_step0 itm2 tE.
  dec_step0 itm3 tF.
  dec_step0 itm4 tG.
  dec_step0 itm5 tH.
  dec_step0 itm6 tI.
  dec_step0 itm7 tJ.
  reflexivity.
Qed.

Theorem gen_tuple10_ssz_append tA tB tC tD tE tF tG tH tI tJ av bv cv dv ev fv gv hv iv jv buf :
  e_fixed_len tA + e_fixed_len tB + e_fixed_len tC + e_fixed_len tD + e_fixed_len tE + e_fixed_len tF + e_fixed_len tG + e_fixed_len tH + e_fixed_len tI + e_fixed_len tJ + len (enc tA av) + len (enc tB bv) + len (enc tC cv) + len (enc tD dv) + len (enc tE ev) + len (enc tF fv) + len (enc tG gv) + len (enc tH hv) + len (enc tI iv) <= usize_max ->
  GenD.tuple10_ssz_append (e_is_fixed tA) (e_fixed_len tA) (app_of tA) (e_is_fixed tB) (e_fixed_len tB) (app_of tB) (e_is_fixed tC) (e_fixed_len tC) (app_of tC) (e_is_fixed tD) (e_fixed_len tD) (app_of tD) (e_is_fixed tE) (e_fixed_len tE) (app_of tE) (e_is_fixed tF) (e_fixed_len tF) (app_of tF) (e_is_fixed tG) (e_fixed_len tG) (app_of tG) (e_is_fixed tH) (e_fixed_len tH) (app_of tH) (e_is_fixed tI) (e_fixed_len tI) (app_of tI) (e_is_fixed tJ) (e_fixed_len tJ) (app_of tJ) (av, bv, cv, dv, ev, fv, gv, hv, iv, jv) buf
  = Ok (append (TContainer false [tA; tB; tC; tD; tE; tF; tG; tH; tI; tJ]) (VCont [av; bv; cv; dv; ev; fv; gv; hv; iv; jv]) buf).
Proof.
  intro H. unfold GenD.tuple10_ssz_append, app_of. cbn [fst snd].
  unfold usize_add at 1. destruct (e_fixed_len tA + e_fixed_len tB <=? usize_max) eqn:E1; [|apply N.leb_gt in E1; lia]. cbn [bind].
  unfold usize_add at 1. destruct (e_fixed_len tA + e_fixed_len tB + e_fixed_len tC <=? usize_max) eqn:E2; [|apply N.leb_gt in E2; lia]. cbn [bind].
  unfold usize_add at 1. destruct (e_fixed_len tA + e_fixed_len tB + e_fixed_len tC + e_fixed_len tD <=? usize_max) eqn:E3; [|apply N.leb_gt in E3; lia]. cbn [bind].
  unfold usize_add at 1. destruct (e_fixed_len tA + e_fixed_len tB + e_fixed_len tC + e_fixed_len tD + e_fixed_len tE <=? usize_max) eqn:E4; [|apply N.leb_gt in E4; lia]. cbn [bind].
  unfold usize_add at 1. destruct (e_fixed_len tA + e_fixed_len tB + e_fixed_len tC + e_fixed_len tD + e_fixed_len tE + e_fixed_len tF <=? usize_max) eqn:E5; [|apply N.leb_gt in E5; lia]. cbn [bind].
  unfold usize_add at 1. destruct (e_fixed_len tA + e_fixed_len tB + e_fixed_len tC + e_fixed_len tD + e_fixed_len tE + e_fixed_len tF + e_fixed_len tG <=? usize_max) eqn:E6; [|apply N.leb_gt in E6; lia]. cbn [bind].
  unfold usize_add at 1. destruct (e_fixed_len tA + e_fixed_len tB + e_fixed_len tC + e_fixed_len tD + e_fixed_len tE + e_fixed_len tF + e_fixed_len tG + e_fixed_len tH <=? usize_max) eqn:E7; [|apply N.leb_gt in E7; lia]. cbn [bind].
  unfold usize_add at 1. destruct (e_fixed_len tA + e_fixed_len tB + e_fixed_len tC + e_fixed_len tD + e_fixed_len tE + e_fixed_len tF + e_fixed_len tG + e_fixed_len tH + e_fixed_len tI <=? usize_max) eqn:E8; [|apply N.leb_gt in E8; lia]. cbn [bind].
  unfold usize_add at 1. destruct (e_fixed_len tA + e_fixed_len tB + e_fixed_len tC + e_fixed_len tD + e_fixed_len tE + e_fixed_len tF + e_fixed_len tG + e_fixed_len tH + e_fixed_len tI + e_fixed_len tJ <=? usize_max) eqn:E9; [|apply N.leb_gt in E9; lia]. cbn [bind].
  unfold usize_add at 1. destruct (e_fixed_len tA + e_fixed_len tB + e_fixed_len tC + e_fixed_len tD + e_fixed_len tE + e_fixed_len tF + e_fixed_len tG + e_fixed_len tH + e_fixed_len tI + e_fixed_len tJ + 0 <=? usize_max) eqn:E10; [|apply N.leb_gt in E10; lia]. cbn [bind].
  unfold Gen.encoder_container. cbn [bind].
  set (F := e_fixed_len tA + e_fixed_len tB + e_fixed_len tC + e_fixed_len tD + e_fixed_len tE + e_fixed_len tF + e_fixed_len tG + e_fixed_len tH + e_fixed_len tI + e_fixed_len tJ + 0).
  set (s0 := {| Gen.SszEncoder_offset := F; Gen.SszEncoder_buf := buf; Gen.SszEncoder_variable_bytes := [] |}).
  assert (V0 : len (e_var (enc_abs s0)) = 0) by reflexivity. assert (O0 : e_offset (enc_abs s0) = F) by reflexivity.
  destruct (append_item_ok (e_is_fixed tA) (append tA) s0 av) as (s1 & -> & A1); [unfold F in *; lia|]. cbn [bind].
  pose proof (enc_append_var_len (enc_abs s0) (e_is_fixed tA) tA av) as V1. rewrite <- A1 in V1.
  assert (O1 : e_offset (enc_abs s1) = F) by (rewrite A1, enc_append_offset; exact O0).
  destruct (append_item_ok (e_is_fixed tB) (append tB) s1 bv) as (s2 & -> & A2); [unfold F in *; lia|]. cbn [bind].
  pose proof (enc_append_var_len (enc_abs s1) (e_is_fixed tB) tB bv) as V2. rewrite <- A2 in V2.
  assert (O2 : e_offset (enc_abs s2) = F) by (rewrite A2, enc_append_offset; exact O1).
  destruct (append_item_ok (e_is_fixed tC) (append tC) s2 cv) as (s3 & -> & A3); [unfold F in *; lia|]. cbn [bind].
  pose proof (enc_append_var_len (enc_abs s2) (e_is_fixed tC) tC cv) as V3. rewrite <- A3 in V3.
  assert (O3 : e_offset (enc_abs s3) = F) by (rewrite A3, enc_append_offset; exact O2).
  destruct (append_item_ok (e_is_fixed tD) (append tD) s3 dv) as (s4 & -> & A4); [unfold F in *; lia|]. cbn [bind].
  pose proof (enc_append_var_len (enc_abs s3) (e_is_fixed tD) tD dv) as V4. rewrite <- A4 in V4.
  assert (O4 : e_offset (enc_abs s4) = F) by (rewrite A4, enc_append_offset; exact O3).
  destruct (append_item_ok (e_is_fixed tE) (append tE) s4 ev) as (s5 & -> & A5); [unfold F in *; lia|]. cbn [bind].
  pose proof (enc_append_var_len (enc_abs s4) (e_is_fixed tE) tE ev) as V5. rewrite <- A5 in V5.
  assert (O5 : e_offset (enc_abs s5) = F) by (rewrite A5, enc_append_offset; exact O4).
  destruct (append_item_ok (e_is_fixed tF) (append tF) s5 fv) as (s6 & -> & A6); [unfold F in *; lia|]. cbn [bind].
  pose proof (enc_append_var_len (enc_abs s5) (e_is_fixed tF) tF fv) as V6. rewrite <- A6 in V6.
  assert (O6 : e_offset (enc_abs s6) = F) by (rewrite A6, enc_append_offset; exact O5).
  destruct (append_item_ok (e_is_fixed tG) (append tG) s6 gv) as (s7 & -> & A7); [unfold F in *; lia|]. cbn [bind].
  pose proof (enc_append_var_len (enc_abs s6) (e_is_fixed tG) tG gv) as V7. rewrite <- A7 in V7.
  assert (O7 : e_offset (enc_abs s7) = F) by (rewrite A7, enc_append_offset; exact O6).
  destruct (append_item_ok (e_is_fixed tH) (append tH) s7 hv) as (s8 & -> & A8); [unfold F in *; lia|]. cbn [bind].
  pose proof (enc_append_var_len (enc_abs s7) (e_is_fixed tH) tH hv) as V8. rewrite <- A8 in V8.
  assert (O8 : e_offset (enc_abs s8) = F) by (rewrite A8, enc_append_offset; exact O7).
  destruct (append_item_ok (e_is_fixed tI) (append tI) s8 iv) as (s9 & -> & A9); [unfold F in *; lia|]. cbn [bind].
  pose proof (enc_append_var_len (enc_abs s8) (e_is_fixed tI) tI iv) as V9. rewrite <- A9 in V9.
  assert (O9 : e_offset (enc_abs s9) = F) by (rewrite A9, enc_append_offset; exact O8).
  destruct (append_item_ok (e_is_fixed tJ) (append tJ) s9 jv) as (s10 & -> & A10); [unfold F in *; lia|]. cbn [bind].
  rewrite finalize_bind, A10, A9, A8, A7, A6, A5, A4, A3, A2, A1. f_equal.
  rewrite append_container. unfold enc_run, cont_items. cbn [combine map fold_left fst snd sumN].
  replace (e_fixed_len tA + (e_fixed_len tB + (e_fixed_len tC + (e_fixed_len tD + (e_fixed_len tE + (e_fixed_len tF + (e_fixed_len tG + (e_fixed_len tH + (e_fixed_len tI + (e_fixed_len tJ + 0)))))))))) with F by (unfold F; lia).
  reflexivity.
Qed.

Print Assumptions gen_tuple10_from_ssz_bytes.
Print Assumptions gen_tuple10_ssz_append.

Theorem gen_tuple10_enc_metadata tA tB tC tD tE tF tG tH tI tJ :
  e_fixed_len tA + e_fixed_len tB + e_fixed_len tC + e_fixed_len tD + e_fixed_len tE + e_fixed_len tF + e_fixed_len tG + e_fixed_len tH + e_fixed_len tI + e_fixed_len tJ <= usize_max ->
  GenD.tuple10_enc_is_ssz_fixed_len (e_is_fixed tA) (e_is_fixed tB) (e_is_fixed tC) (e_is_fixed tD) (e_is_fixed tE) (e_is_fixed tF) (e_is_fixed tG) (e_is_fixed tH) (e_is_fixed tI) (e_is_fixed tJ) = Ok (e_is_fixed (TContainer false [tA; tB; tC; tD; tE; tF; tG; tH; tI; tJ])) /\
  GenD.tuple10_enc_ssz_fixed_len (e_is_fixed tA) (e_fixed_len tA) (e_is_fixed tB) (e_fixed_len tB) (e_is_fixed tC) (e_fixed_len tC) (e_is_fixed tD) (e_fixed_len tD) (e_is_fixed tE) (e_fixed_len tE) (e_is_fixed tF) (e_fixed_len tF) (e_is_fixed tG) (e_fixed_len tG) (e_is_fixed tH) (e_fixed_len tH) (e_is_fixed tI) (e_fixed_len tI) (e_is_fixed tJ) (e_fixed_len tJ)
    = Ok (e_fixed_len (TContainer false [tA; tB; tC; tD; tE; tF; tG; tH; tI; tJ])).
Proof.
  intro H. rewrite e_is_fixed_container, e_fixed_len_container. cbn [forallb map sumN].
  unfold GenD.tuple10_enc_ssz_fixed_len, GenD.tuple10_enc_is_ssz_fixed_len. cbn [bind].
  rewrite gen_BYTES_PER_LENGTH_OFFSET.
  replace (e_is_fixed tA && e_is_fixed tB && e_is_fixed tC && e_is_fixed tD && e_is_fixed tE && e_is_fixed tF && e_is_fixed tG && e_is_fixed tH && e_is_fixed tI && e_is_fixed tJ && true) with (e_is_fixed tA && (e_is_fixed tB && (e_is_fixed tC && (e_is_fixed tD && (e_is_fixed tE && (e_is_fixed tF && (e_is_fixed tG && (e_is_fixed tH && (e_is_fixed tI && (e_is_fixed tJ && true)))))))))) by (rewrite <- !andb_assoc; reflexivity).
  split; [reflexivity|].
  destruct (e_is_fixed tA && (e_is_fixed tB && (e_is_fixed tC && (e_is_fixed tD && (e_is_fixed tE && (e_is_fixed tF && (e_is_fixed tG && (e_is_fixed tH && (e_is_fixed tI && (e_is_fixed tJ && true)))))))))); [|reflexivity].
  unfold usize_add. fits. f_equal. lia.
Qed.

Theorem gen_tuple10_dec_metadata tA tB tC tD tE tF tG tH tI tJ :
  d_fixed_len tA + d_fixed_len tB + d_fixed_len tC + d_fixed_len tD + d_fixed_len tE + d_fixed_len tF + d_fixed_len tG + d_fixed_len tH + d_fixed_len tI + d_fixed_len tJ <= usize_max ->
  GenD.tuple10_dec_is_ssz_fixed_len (d_is_fixed tA) (d_is_fixed tB) (d_is_fixed tC) (d_is_fixed tD) (d_is_fixed tE) (d_is_fixed tF) (d_is_fixed tG) (d_is_fixed tH) (d_is_fixed tI) (d_is_fixed tJ) = Ok (d_is_fixed (TContainer false [tA; tB; tC; tD; tE; tF; tG; tH; tI; tJ])) /\
  GenD.tuple10_dec_ssz_fixed_len (d_is_fixed tA) (d_fixed_len tA) (d_is_fixed tB) (d_fixed_len tB) (d_is_fixed tC) (d_fixed_len tC) (d_is_fixed tD) (d_fixed_len tD) (d_is_fixed tE) (d_fixed_len tE) (d_is_fixed tF) (d_fixed_len tF) (d_is_fixed tG) (d_fixed_len tG) (d_is_fixed tH) (d_fixed_len tH) (d_is_fixed tI) (d_fixed_len tI) (d_is_fixed tJ) (d_fixed_len tJ)
    = Ok (d_fixed_len (TContainer false [tA; tB; tC; tD; tE; tF; tG; tH; tI; tJ])).
Proof.
  intro H. rewrite d_is_fixed_container, d_fixed_len_container. cbn [forallb map sumN].
  unfold GenD.tuple10_dec_ssz_fixed_len, GenD.tuple10_dec_is_ssz_fixed_len. cbn [bind].
  rewrite gen_BYTES_PER_LENGTH_OFFSET.
  replace (d_is_fixed tA && d_is_fixed tB && d_is_fixed tC && d_is_fixed tD && d_is_fixed tE && d_is_fixed tF && d_is_fixed tG && d_is_fixed tH && d_is_fixed tI && d_is_fixed tJ && true) with (d_is_fixed tA && (d_is_fixed tB && (d_is_fixed tC && (d_is_fixed tD && (d_is_fixed tE && (d_is_fixed tF && (d_is_fixed tG && (d_is_fixed tH && (d_is_fixed tI && (d_is_fixed tJ && true)))))))))) by (rewrite <- !andb_assoc; reflexivity).
  split; [reflexivity|].
  destruct (d_is_fixed tA && (d_is_fixed tB && (d_is_fixed tC && (d_is_fixed tD && (d_is_fixed tE && (d_is_fixed tF && (d_is_fixed tG && (d_is_fixed tH && (d_is_fixed tI && (d_is_fixed tJ && true)))))))))); [|reflexivity].
  unfold usize_add. fits. f_equal. lia.
Qed.

Theorem gen_tuple10_ssz_bytes_len tA tB tC tD tE tF tG tH tI tJ av bv cv dv ev fv gv hv iv jv :
  e_fixed_len tA + e_fixed_len tB + e_fixed_len tC + e_fixed_len tD + e_fixed_len tE + e_fixed_len tF + e_fixed_len tG + e_fixed_len tH + e_fixed_len tI + e_fixed_len tJ <= usize_max ->
  field_len tA av + field_len tB bv + field_len tC cv + field_len tD dv + field_len tE ev + field_len tF fv + field_len tG gv + field_len tH hv + field_len tI iv + field_len tJ jv <= usize_max ->
  GenD.tuple10_ssz_bytes_len (e_is_fixed tA) (e_fixed_len tA) (len_of tA) (e_is_fixed tB) (e_fixed_len tB) (len_of tB) (e_is_fixed tC) (e_fixed_len tC) (len_of tC) (e_is_fixed tD) (e_fixed_len tD) (len_of tD) (e_is_fixed tE) (e_fixed_len tE) (len_of tE) (e_is_fixed tF) (e_fixed_len tF) (len_of tF) (e_is_fixed tG) (e_fixed_len tG) (len_of tG) (e_is_fixed tH) (e_fixed_len tH) (len_of tH) (e_is_fixed tI) (e_fixed_len tI) (len_of tI) (e_is_fixed tJ) (e_fixed_len tJ) (len_of tJ) (av, bv, cv, dv, ev, fv, gv, hv, iv, jv)
  = Ok (bytes_len (TContainer false [tA; tB; tC; tD; tE; tF; tG; tH; tI; tJ]) (VCont [av; bv; cv; dv; ev; fv; gv; hv; iv; jv])).
Proof.
  intros HF H. unfold GenD.tuple10_ssz_bytes_len, len_of. cbn [fst snd].
  rewrite bytes_len_container. cbn [forallb combine map sumN fst snd].
  destruct (gen_tuple10_enc_metadata tA tB tC tD tE tF tG tH tI tJ HF) as (M1 & M2).
  rewrite M1. cbn [bind]. rewrite e_is_fixed_container. cbn [forallb].
  destruct (e_is_fixed tA && (e_is_fixed tB && (e_is_fixed tC && (e_is_fixed tD && (e_is_fixed tE && (e_is_fixed tF && (e_is_fixed tG && (e_is_fixed tH && (e_is_fixed tI && (e_is_fixed tJ && true)))))))))) eqn:EF.
  - rewrite M2, e_fixed_len_container. cbn [map sumN forallb]. rewrite EF. reflexivity.
  - rewrite gen_BYTES_PER_LENGTH_OFFSET. unfold BYTES_PER_LENGTH_OFFSET. cbv zeta. unfold field_len, BYTES_PER_LENGTH_OFFSET in H.
    rewrite tuple_len_step by lia.
    rewrite tuple_len_step by lia.
    rewrite tuple_len_step by lia.
    rewrite tuple_len_step by lia.
    rewrite tuple_len_step by lia.
    rewrite tuple_len_step by lia.
    rewrite tuple_len_step by lia.
    rewrite tuple_len_step by lia.
    rewrite tuple_len_step by lia.
    rewrite tuple_len_step by lia.
    f_equal. unfold field_len, BYTES_PER_LENGTH_OFFSET. lia.
Qed.

Print Assumptions gen_tuple10_enc_metadata.
Print Assumptions gen_tuple10_dec_metadata.
Print Assumptions gen_tuple10_ssz_bytes_len.

Theorem gen_tuple11_from_ssz_bytes tA tB tC tD tE tF tG tH tI tJ tK bs :
  omap (fun p : val * val * val * val * val * val * val * val * val * val * val => VCont [(fst (fst (fst (fst (fst (fst (fst (fst (fst (fst p)))))))))); (snd (fst (fst (fst (fst (fst (fst (fst (fst (fst p)))))))))); (snd (fst (fst (fst (fst (fst (fst (fst (fst p))))))))); (snd (fst (fst (fst (fst (fst (fst (fst p)))))))); (snd (fst (fst (fst (fst (fst (fst p))))))); (snd (fst (fst (fst (fst (fst p)))))); (snd (fst (fst (fst (fst p))))); (snd (fst (fst (fst p)))); (snd (fst (fst p))); (snd (fst p)); (snd p)])
    (GenD.tuple11_from_ssz_bytes (d_is_fixed tA) (d_fixed_len tA) (dec tA) (d_is_fixed tB) (d_fixed_len tB) (dec tB) (d_is_fixed tC) (d_fixed_len tC) (dec tC) (d_is_fixed tD) (d_fixed_len tD) (dec tD) (d_is_fixed tE) (d_fixed_len tE) (dec tE) (d_is_fixed tF) (d_fixed_len tF) (dec tF) (d_is_fixed tG) (d_fixed_len tG) (dec tG) (d_is_fixed tH) (d_fixed_len tH) (dec tH) (d_is_fixed tI) (d_fixed_len tI) (dec tI) (d_is_fixed tJ) (d_fixed_len tJ) (dec tJ) (d_is_fixed tK) (d_fixed_len tK) (dec tK) bs)
  = dec (TContainer false [tA; tB; tC; tD; tE; tF; tG; tH; tI; tJ; tK]) bs.
Proof.
  unfold GenD.tuple11_from_ssz_bytes. unfold Gen.builder_new. cbn [bind].
  rewrite dec_container. cbn [andb]. unfold regs_of. cbn [map]. unfold builder_build. cbn [register_all].
  set (s0 := {| Gen.SszDecoderBuilder_bytes := bs; Gen.SszDecoderBuilder_items := []; Gen.SszDecoderBuilder_offsets := []; Gen.SszDecoderBuilder_items_index := 0 |}).
  change builder_new with (st_abs s0).
  replace bs with (Gen.SszDecoderBuilder_bytes s0) by reflexivity.
  reg_step2 s0 (d_is_fixed tA) (d_fixed_len tA). rewrite <- Es, <- Eb.
  reg_step2 s (d_is_fixed tB) (d_fixed_len tB). rewrite <- Es0, <- Eb0.
  reg_step2 s1 (d_is_fixed tC) (d_fixed_len tC). rewrite <- Es1, <- Eb1.
  reg_step2 s2 (d_is_fixed tD) (d_fixed_len tD). rewrite <- Es2, <- Eb2.
  reg_step2 s3 (d_is_fixed tE) (d_fixed_len tE). rewrite <- Es3, <- Eb3.
  reg_step2 s4 (d_is_fixed tF) (d_fixed_len tF). rewrite <- Es4, <- Eb4.
  reg_step2 s5 (d_is_fixed tG) (d_fixed_len tG). rewrite <- Es5, <- Eb5.
  reg_step2 s6 (d_is_fixed tH) (d_fixed_len tH). rewrite <- Es6, <- Eb6.
  reg_step2 s7 (d_is_fixed tI) (d_fixed_len tI). rewrite <- Es7, <- Eb7.
  reg_step2 s8 (d_is_fixed tJ) (d_fixed_len tJ). rewrite <- Es8, <- Eb8.
  reg_step2 s9 (d_is_fixed tK) (d_fixed_len tK). rewrite <- Es9, <- Eb9.
  build_step s10.
  cbn [decode_all].
  dec_step0 its tA.
  dec_step0 itm tB.
  dec_step0 itm0 tC.
  dec_step0 itm1 tD.
  dec_step0 itm2 tE.
  dec_step0 itm3 tF.
  dec_step0 itm4 tG.
  dec_step0 itm5 tH.
  dec_step0 itm6 tI.
  dec_step0 itm7 tJ.
  dec_step0 itm8 tK.
  reflexivity.
Qed.

Theorem gen_tuple11_ssz_append tA tB tC tD tE tF tG tH tI tJ tK av bv cv dv ev fv gv hv iv jv kv buf :
  e_fixed_len tA + e_fixed_len tB + e_fixed_len tC + e_fixed_len tD + e_fixed_len tE + e_fixed_len tF + e_fixed_len tG + e_fixed_len tH + e_fixed_len tI + e_fixed_len tJ + e_fixed_len tK + len (enc tA av) + len (enc tB bv) + len (enc tC cv) + len (enc tD dv) + len (enc tE ev) + len (enc tF fv) + len (enc tG gv) + len (enc tH hv) + len (enc tI iv) + len (enc tJ jv) <= usize_max ->
  GenD.tuple11_ssz_append (e_is_fixed tA) (e_fixed_len tA) (app_of tA) (e_is_fixed tB) (e_fixed_len tB) (app_of tB) (e_is_fixed tC) (e_fixed_len tC) (app_of tC) (e_is_fixed tD) (e_fixed_len tD) (app_of tD) (e_is_fixed tE) (e_fixed_len tE) (app_of tE) (e_is_fixed tF) (e_fixed_len tF) (app_of tF) (e_is_fixed tG) (e_fixed_len tG) (app_of tG) (e_is_fixed tH) (e_fixed_len tH) (app_of tH) (e_is_fixed tI) (e_fixed_len tI) (app_of tI) (e_is_fixed tJ) (e_fixed_len tJ) (app_of tJ) (e_is_fixed tK) (e_fixed_len tK) (app_of tK) (av, bv, cv, dv, ev, fv, gv, hv, iv, jv, kv) buf
  = Ok (append (TContainer false [tA; tB; tC; tD; tE; tF; tG; tH; tI; tJ; tK]) (VCont [av; bv; cv; dv; ev; fv; gv; hv; iv; jv; kv]) buf).
Proof.
  intro H. unfold GenD.tuple11_ssz_append, app_of. cbn [fst snd].
  unfold usize_add at 1. destruct (e_fixed_len tA + e_fixed_len tB <=? usize_max) eqn:E1; [|apply N.leb_gt in E1; lia]. cbn [bind].
  unfold usize_add at 1. destruct (e_fixed_len tA + e_fixed_len tB + e_fixed_len tC <=? usize_max) eqn:E2; [|apply N.leb_gt in E2; lia]. cbn [bind].
  unfold usize_add at 1. destruct (e_fixed_len tA + e_fixed_len tB + e_fixed_len tC + e_fixed_len tD <=? usize_max) eqn:E3; [|apply N.leb_gt in E3; lia]. cbn [bind].
  unfold usize_add at 1. destruct (e_fixed_len tA + e_fixed_len tB + e_fixed_len tC + e_fixed_len tD + e_fixed_len tE <=? usize_max) eqn:E4; [|apply N.leb_gt in E4; lia]. cbn [bind].
  unfold usize_add at 1. destruct (e_fixed_len tA + e_fixed_len tB + e_fixed_len tC + e_fixed_len tD + e_fixed_len tE + e_fixed_len tF <=? usize_max) eqn:E5; [|apply N.leb_gt in E5; lia]. cbn [bind].
  unfold usize_add at 1. destruct (e_fixed_len tA + e_fixed_len tB + e_fixed_len tC + e_fixed_len tD + e_fixed_len tE + e_fixed_len tF + e_fixed_len tG <=? usize_max) eqn:E6; [|apply N.leb_gt in E6; lia]. cbn [bind].
  unfold usize_add at 1. destruct (e_fixed_len tA + e_fixed_len tB + e_fixed_len tC + e_fixed_len tD + e_fixed_len tE + e_fixed_len tF + e_fixed_len tG + e_fixed_len tH <=? usize_max) eqn:E7; [|apply N.leb_gt in E7; lia]. cbn [bind].
  unfold usize_add at 1. destruct (e_fixed_len tA + e_fixed_len tB + e_fixed_len tC + e_fixed_len tD + e_fixed_len tE + e_fixed_len tF + e_fixed_len tG + e_fixed_len tH + e_fixed_len tI <=? usize_max) eqn:E8; [|apply N.leb_gt in E8; lia]. cbn [bind].
  unfold usize_add at 1. destruct (e_fixed_len tA + e_fixed_len tB + e_fixed_len tC + e_fixed_len tD + e_fixed_len tE + e_fixed_len tF + e_fixed_len tG + e_fixed_len tH + e_fixed_len tI + e_fixed_len tJ <=? usize_max) eqn:E9; [|apply N.leb_gt in E9; lia]. cbn [bind].
  unfold usize_add at 1. destruct (e_fixed_len tA + e_fixed_len tB + e_fixed_len tC + e_fixed_len tD + e_fixed_len tE + e_fixed_len tF + e_fixed_len tG + e_fixed_len tH + e_fixed_len tI + e_fixed_len tJ + e_fixed_len tK <=? usize_max) eqn:E10; [|apply N.leb_gt in E10; lia]. cbn [bind].
  unfold usize_add at 1. destruct (e_fixed_len tA + e_fixed_len tB + e_fixed_len tC + e_fixed_len tD + e_fixed_len tE + e_fixed_len tF + e_fixed_len tG + e_fixed_len tH + e_fixed_len tI + e_fixed_len tJ + e_fixed_len tK + 0 <=? usize_max) eqn:E11; [|apply N.leb_gt in E11; lia]. cbn [bind].
  unfold Gen.encoder_container. cbn [bind].
  set (F := e_fixed_len tA + e_fixed_len tB + e_fixed_len tC + e_fixed_len tD + e_fixed_len tE + e_fixed_len tF + e_fixed_len tG + e_fixed_len tH + e_fixed_len tI + e_fixed_len tJ + e_fixed_len tK + 0).
  set (s0 := {| Gen.SszEncoder_offset := F; Gen.SszEncoder_buf := buf; Gen.SszEncoder_variable_bytes := [] |}).
  assert (V0 : len (e_var (enc_abs s0)) = 0) by reflexivity. assert (O0 : e_offset (enc_abs s0) = F) by reflexivity.
  destruct (append_item_ok (e_is_fixed tA) (append tA) s0 av) as (s1 & -> & A1); [unfold F in *; lia|]. cbn [bind].
  pose proof (enc_append_var_len (enc_abs s0) (e_is_fixed tA) tA av) as V1. rewrite <- A1 in V1.
  assert (O1 : e_offset (enc_abs s1) = F) by (rewrite A1, enc_append_offset; exact O0).
  destruct (append_item_ok (e_is_fixed tB) (append tB) s1 bv) as (s2 & -> & A2); [unfold F in *; lia|]. cbn [bind].
  pose proof (enc_append_var_len (enc_abs s1) (e_is_fixed tB) tB bv) as V2. rewrite <- A2 in V2.
  assert (O2 : e_offset (enc_abs s2) = F) by (rewrite A2, enc_append_offset; exact O1).
  destruct (append_item_ok (e_is_fixed tC) (append tC) s2 cv) as (s3 & -> & A3); [unfold F in *; lia|]. cbn [bind].
  pose proof (enc_append_var_len (enc_abs s2) (e_is_fixed tC) tC cv) as V3. rewrite <- A3 in V3.
  assert (O3 : e_offset (enc_abs s3) = F) by (rewrite A3, enc_append_offset; exact O2).
  destruct (append_item_ok (e_is_fixed tD) (append tD) s3 dv) as (s4 & -> & A4); [unfold F in *; lia|]. cbn [bind].
  pose proof (enc_append_var_len (enc_abs s3) (e_is_fixed tD) tD dv) as V4. rewrite <- A4 in V4.
  assert (O4 : e_offset (enc_abs s4) = F) by (rewrite A4, enc_append_offset; exact O3).
  destruct (append_item_ok (e_is_fixed tE) (append tE) s4 ev) as (s5 & -> & A5); [unfold F in *; lia|]. cbn [bind].
  pose proof (enc_append_var_len (enc_abs s4) (e_is_fixed tE) tE ev) as V5. rewrite <- A5 in V5.
  assert (O5 : e_offset (enc_abs s5) = F) by (rewrite A5, enc_append_offset; exact O4).
  destruct (append_item_ok (e_is_fixed tF) (append tF) s5 fv) as (s6 & -> & A6); [unfold F in *; lia|]. cbn [bind].
  pose proof (enc_append_var_len (enc_abs s5) (e_is_fixed tF) tF fv) as V6. rewrite <- A6 in V6.
  assert (O6 : e_offset (enc_abs s6) = F) by (rewrite A6, enc_append_offset; exact O5).
  destruct (append_item_ok (e_is_fixed tG) (append tG) s6 gv) as (s7 & -> & A7); [unfold F in *; lia|]. cbn [bind].
  pose proof (enc_append_var_len (enc_abs s6) (e_is_fixed tG) tG gv) as V7. rewrite <- A7 in V7.
  assert (O7 : e_offset (enc_abs s7) = F) by (rewrite A7, enc_append_offset; exact O6).
  destruct (append_item_ok (e_is_fixed tH) (append tH) s7 hv) as (s8 & -> & A8); [unfold F in *; lia|]. cbn [bind].
  pose proof (enc_append_var_len (enc_abs s7) (e_is_fixed tH) tH hv) as V8. rewrite <- A8 in V8.
  assert (O8 : e_offset (enc_abs s8) = F) by (rewrite A8, enc_append_offset; exact O7).
  destruct (append_item_ok (e_is_fixed tI) (append tI) s8 iv) as (s9 & -> & A9); [unfold F in *; lia|]. cbn [bind].
  pose proof (enc_append_var_len (enc_abs s8) (e_is_fixed tI) tI iv) as V9. rewrite <- A9 in V9.
  assert (O9 : e_offset (enc_abs s9) = F) by (rewrite A9, enc_append_offset; exact O8).
  destruct (append_item_ok (e_is_fixed tJ) (append tJ) s9 jv) as (s10 & -> & A10); [unfold F in *; lia|]. cbn [bind].
  pose proof (enc_append_var_len (enc_abs s9) (e_is_fixed tJ) tJ jv) as V10. rewrite <- A10 in V10.
  assert (O10 : e_offset (enc_abs s10) = F) by (rewrite A10, enc_append_offset; exact O9).
  destruct (append_item_ok (e_is_fixed tK) (append tK) s10 kv) as (s11 & -> & A11); [unfold F in *; lia|]. cbn [bind].
  rewrite finalize_bind, A11, A10, A9, A8, A7, A6, A5, A4, A3, A2, A1. f_equal.
  rewrite append_container. unfold enc_run, cont_items. cbn [combine map fold_left fst snd sumN].
  replace (e_fixed_len tA + (e_fixed_len tB + (e_fixed_len tC + (e_fixed_len tD + (e_fixed_len tE + (e_fixed_len tF + (e_fixed_len tG + (e_fixed_len tH + (e_fixed_len tI + (e_fixed_len tJ + (e_fixed_len tK + 0))))))))))) with F by (unfold F; lia).
  reflexivity.
Qed.

Print Assumptions gen_tuple11_from_ssz_bytes.
Print Assumptions gen_tuple11_ssz_append.

Theorem gen_tuple11_enc_metadata tA tB tC tD tE tF tG tH tI tJ tK :
  e_fixed_len tA + e_fixed_len tB + e_fixed_len tC + e_fixed_len tD + e_fixed_len tE + e_fixed_len tF + e_fixed_len tG + e_fixed_len tH + e_fixed_len tI + e_fixed_len tJ + e_fixed_len tK <= usize_max ->
  GenD.tuple11_enc_is_ssz_fixed_len (e_is_fixed tA) (e_is_fixed tB) (e_is_fixed tC) (e_is_fixed tD) (e_is_fixed tE) (e_is_fixed tF) (e_is_fixed tG) (e_is_fixed tH) (e_is_fixed tI) (e_is_fixed tJ) (e_is_fixed tK) = Ok (e_is_fixed (TContainer false [tA; tB; tC; tD; tE; tF; tG; tH; tI; tJ; tK])) /\
  GenD.tuple11_enc_ssz_fixed_len (e_is_fixed tA) (e_fixed_len tA) (e_is_fixed tB) (e_fixed_len tB) (e_is_fixed tC) (e_fixed_len tC) (e_is_fixed tD) (e_fixed_len tD) (e_is_fixed tE) (e_fixed_len tE) (e_is_fixed tF) (e_fixed_len tF) (e_is_fixed tG) (e_fixed_len tG) (e_is_fixed tH) (e_fixed_len tH) (e_is_fixed tI) (e_fixed_len tI) (e_is_fixed tJ) (e_fixed_len tJ) (e_is_fixed tK) (e_fixed_len tK)
    = Ok (e_fixed_len (TContainer false [tA; tB; tC; tD; tE; tF; tG; tH; tI; tJ; tK])).
Proof.
  intro H. rewrite e_is_fixed_container, e_fixed_len_container. cbn [forallb map sumN].
  unfold GenD.tuple11_enc_ssz_fixed_len, GenD.tuple11_enc_is_ssz_fixed_len. cbn [bind].
  rewrite gen_BYTES_PER_LENGTH_OFFSET.
  replace (e_is_fixed tA && e_is_fixed tB && e_is_fixed tC && e_is_fixed tD && e_is_fixed tE && e_is_fixed tF && e_is_fixed tG && e_is_fixed tH && e_is_fixed tI && e_is_fixed tJ && e_is_fixed tK && true) with (e_is_fixed tA && (e_is_fixed tB && (e_is_fixed tC && (e_is_fixed tD && (e_is_fixed tE && (e_is_fixed tF && (e_is_fixed tG && (e_is_fixed tH && (e_is_fixed tI && (e_is_fixed tJ && (e_is_fixed tK && true))))))))))) by (rewrite <- !andb_assoc; reflexivity).
  split; [reflexivity|].
  destruct (e_is_fixed tA && (e_is_fixed tB && (e_is_fixed tC && (e_is_fixed tD && (e_is_fixed tE && (e_is_fixed tF && (e_is_fixed tG && (e_is_fixed tH && (e_is_fixed tI && (e_is_fixed tJ && (e_is_fixed tK && true))))))))))); [|reflexivity].
  unfold usize_add. fits. f_equal. lia.
Qed.

Theorem gen_tuple11_dec_metadata tA tB tC tD tE tF tG tH tI tJ tK :
  d_fixed_len tA + d_fixed_len tB + d_fixed_len tC + d_fixed_len tD + d_fixed_len tE + d_fixed_len tF + d_fixed_len tG + d_fixed_len tH + d_fixed_len tI + d_fixed_len tJ + d_fixed_len tK <= usize_max ->
  GenD.tuple11_dec_is_ssz_fixed_len (d_is_fixed tA) (d_is_fixed tB) (d_is_fixed tC) (d_is_fixed tD) (d_is_fixed tE) (d_is_fixed tF) (d_is_fixed tG) (d_is_fixed tH) (d_is_fixed tI) (d_is_fixed tJ) (d_is_fixed tK) = Ok (d_is_fixed (TContainer false [tA; tB; tC; tD; tE; tF; tG; tH; tI; tJ; tK])) /\
  GenD.tuple11_dec_ssz_fixed_len (d_is_fixed tA) (d_fixed_len tA) (d_is_fixed tB) (d_fixed_len tB) (d_is_fixed tC) (d_fixed_len tC) (d_is_fixed tD) (d_fixed_len tD) (d_is_fixed tE) (d_fixed_len tE) (d_is_fixed tF) (d_fixed_len tF) (d_is_fixed tG) (d_fixed_len tG) (d_is_fixed tH) (d_fixed_len tH) (d_is_fixed tI) (d_fixed_len tI) (d_is_fixed tJ) (d_fixed_len tJ) (d_is_fixed tK) (d_fixed_len tK)
    = Ok (d_fixed_len (TContainer false [tA; tB; tC; tD; tE; tF; tG; tH; tI; tJ; tK])).
Proof.
  intro H. rewrite d_is_fixed_container, d_fixed_len_container. cbn [forallb map sumN].
  unfold GenD.tuple11_dec_ssz_fixed_len, GenD.tuple11_dec_is_ssz_fixed_len. cbn [bind].
  rewrite gen_BYTES_PER_LENGTH_OFFSET.
  replace (d_is_fixed tA && d_is_fixed tB && d_is_fixed tC && d_is_fixed tD && d_is_fixed tE && d_is_fixed tF && d_is_fixed tG && d_is_fixed tH && d_is_fixed tI && d_is_fixed tJ && d_is_fixed tK && true) with (d_is_fixed tA && (d_is_fixed tB && (d_is_fixed tC && (d_is_fixed tD && (d_is_fixed tE && (d_is_fixed tF && (d_is_fixed tG && (d_is_fixed tH && (d_is_fixed tI && (d_is_fixed tJ && (d_is_fixed tK && true))))))))))) by (rewrite <- !andb_assoc; reflexivity).
  split; [reflexivity|].
  destruct (d_is_fixed tA && (d_is_fixed tB && (d_is_fixed tC && (d_is_fixed tD && (d_is_fixed tE && (d_is_fixed tF && (d_is_fixed tG && (d_is_fixed tH && (d_is_fixed tI && (d_is_fixed tJ && (d_is_fixed tK && true))))))))))); [|reflexivity].
  unfold usize_add. fits. f_equal. lia.
Qed.

Theorem gen_tuple11_ssz_bytes_len tA tB tC tD tE tF tG tH tI tJ tK av bv cv dv ev fv gv hv iv jv kv :
  e_fixed_len tA + e_fixed_len tB + e_fixed_len tC + e_fixed_len tD + e_fixed_len tE + e_fixed_len tF + e_fixed_len tG + e_fixed_len tH + e_fixed_len tI + e_fixed_len tJ + e_fixed_len tK <= usize_max ->
  field_len tA av + field_len tB bv + field_len tC cv + field_len tD dv + field_len tE ev + field_len tF fv + field_len tG gv + field_len tH hv + field_len tI iv + field_len tJ jv + field_len tK kv <= usize_max ->
  GenD.tuple11_ssz_bytes_len (e_is_fixed tA) (e_fixed_len tA) (len_of tA) (e_is_fixed tB) (e_fixed_len tB) (len_of tB) (e_is_fixed tC) (e_fixed_len tC) (len_of tC) (e_is_fixed tD) (e_fixed_len tD) (len_of tD) (e_is_fixed tE) (e_fixed_len tE) (len_of tE) (e_is_fixed tF) (e_fixed_len tF) (len_of tF) (e_is_fixed tG) (e_fixed_len tG) (len_of tG) (e_is_fixed tH) (e_fixed_len tH) (len_of tH) (e_is_fixed tI) (e_fixed_len tI) (len_of tI) (e_is_fixed tJ) (e_fixed_len tJ) (len_of tJ) (e_is_fixed tK) (e_fixed_len tK) (len_of tK) (av, bv, cv, dv, ev, fv, gv, hv, iv, jv, kv)
  = Ok (bytes_len (TContainer false [tA; tB; tC; tD; tE; tF; tG; tH; tI; tJ; tK]) (VCont [av; bv; cv; dv; ev; fv; gv; hv; iv; jv; kv])).
Proof.
  intros HF H. unfold GenD.tuple11_ssz_bytes_len, len_of. cbn [fst snd].
  rewrite bytes_len_container. cbn [forallb combine map sumN fst snd].
  destruct (gen_tuple11_enc_metadata tA tB tC tD tE tF tG tH tI tJ tK HF) as (M1 & M2).
  rewrite M1. cbn [bind]. rewrite e_is_fixed_container. cbn [forallb].
  destruct (e_is_fixed tA && (e_is_fixed tB && (e_is_fixed tC && (e_is_fixed tD && (e_is_fixed tE && (e_is_fixed tF && (e_is_fixed tG && (e_is_fixed tH && (e_is_fixed tI && (e_is_fixed tJ && (e_is_fixed tK && true))))))))))) eqn:EF.
  - rewrite M2, e_fixed_len_container. cbn [map sumN forallb]. rewrite EF. reflexivity.
  - rewrite gen_BYTES_PER_LENGTH_OFFSET. unfold BYTES_PER_LENGTH_OFFSET. cbv zeta. unfold field_len, BYTES_PER_LENGTH_OFFSET in H.
    rewrite tuple_len_step by lia.
    rewrite tuple_len_step by lia.
    rewrite tuple_len_step by lia.
    rewrite tuple_len_step by lia.
    rewrite tuple_len_step by lia.
    rewrite tuple_len_step by lia.
    rewrite tuple_len_step by lia.
    rewrite tuple_len_step by lia.
    rewrite tuple_len_step by lia.
    rewrite tuple_len_step by lia.
    rewrite tuple_len_step by lia.
    f_equal. unfold field_len, BYTES_PER_LENGTH_OFFSET. lia.
Qed.

Print Assumptions gen_tuple11_enc_metadata.
Print Assumptions gen_tuple11_dec_metadata.
Print Assumptions gen_tuple11_ssz_bytes_len.

Theorem gen_tuple12_from_ssz_bytes tA tB tC tD tE tF tG tH tI tJ tK tL bs :
  omap (fun p : val * val * val * val * val * val * val * val * val * val * val * val => VCont [(fst (fst (fst (fst (fst (fst (fst (fst (fst (fst (fst p))))))))))); (snd (fst (fst (fst (fst (fst (fst (fst (fst (fst (fst p))))))))))); (snd (fst (fst (fst (fst (fst (fst (fst (fst (fst p)))))))))); (snd (fst (fst (fst (fst (fst (fst (fst (fst p))))))))); (snd (fst (fst (fst (fst (fst (fst (fst p)))))))); (snd (fst (fst (fst (fst (fst (fst p))))))); (snd (fst (fst (fst (fst (fst p)))))); (snd (fst (fst (fst (fst p))))); (snd (fst (fst (fst p)))); (snd (fst (fst p))); (snd (fst p)); (snd p)])
    (GenD.tuple12_from_ssz_bytes (d_is_fixed tA) (d_fixed_len tA) (dec tA) (d_is_fixed tB) (d_fixed_len tB) (dec tB) (d_is_fixed tC) (d_fixed_len tC) (dec tC) (d_is_fixed tD) (d_fixed_len tD) (dec tD) (d_is_fixed tE) (d_fixed_len tE) (dec tE) (d_is_fixed tF) (d_fixed_len tF) (dec tF) (d_is_fixed tG) (d_fixed_len tG) (dec tG) (d_is_fixed tH) (d_fixed_len tH) (dec tH) (d_is_fixed tI) (d_fixed_len tI) (dec tI) (d_is_fixed tJ) (d_fixed_len tJ) (dec tJ) (d_is_fixed tK) (d_fixed_len tK) (dec tK) (d_is_fixed tL) (d_fixed_len tL) (dec tL) bs)
  = dec (TContainer false [tA; tB; tC; tD; tE; tF; tG; tH; tI; tJ; tK; tL]) bs.
Proof.
  unfold GenD.tuple12_from_ssz_bytes. unfold Gen.builder_new. cbn [bind].
  rewrite dec_container. cbn [andb]. unfold regs_of. cbn [map]. unfold builder_build. cbn [register_all].
  set (s0 := {| Gen.SszDecoderBuilder_bytes := bs; Gen.SszDecoderBuilder_items := []; Gen.SszDecoderBuilder_offsets := []; Gen.SszDecoderBuilder_items_index := 0 |}).
  change builder_new with (st_abs s0).
  replace bs with (Gen.SszDecoderBuilder_bytes s0) by reflexivity.
  reg_step2 s0 (d_is_fixed tA) (d_fixed_len tA). rewrite <- Es, <- Eb.
  reg_step2 s (d_is_fixed tB) (d_fixed_len tB). rewrite <- Es0, <- Eb0.
  reg_step2 s1 (d_is_fixed tC) (d_fixed_len tC). rewrite <- Es1, <- Eb1.
  reg_step2 s2 (d_is_fixed tD) (d_fixed_len tD). rewrite <- Es2, <- Eb2.
  reg_step2 s3 (d_is_fixed tE) (d_fixed_len tE). rewrite <- Es3, <- Eb3.
  reg_step2 s4 (d_is_fixed tF) (d_fixed_len tF). rewrite <- Es4, <- Eb4.
  reg_step2 s5 (d_is_fixed tG) (d_fixed_len tG). rewrite <- Es5, <- Eb5.
  reg_step2 s6 (d_is_fixed tH) (d_fixed_len tH). rewrite <- Es6, <- Eb6.
  reg_step2 s7 (d_is_fixed tI) (d_fixed_len tI). rewrite <- Es7, <- Eb7.
  reg_step2 s8 (d_is_fixed tJ) (d_fixed_len tJ). rewrite <- Es8, <- Eb8.
  reg_step2 s9 (d_is_fixed tK) (d_fixed_len tK). rewrite <- Es9, <- Eb9.
  reg_step2 s10 (d_is_fixed tL) (d_fixed_len tL). rewrite <- Es10, <- Eb10.
  build_step s11.
  cbn [decode_all].
  dec_step0 its tA.
  dec_step0 itm tB.
  dec_step0 itm0 tC.
  dec_step0 itm1 tD.
  dec_step0 itm2 tE.
  dec_step0 itm3 tF.
  dec_step0 itm4 tG.
  dec_step0 itm5 tH.
  dec_step0 itm6 tI.
  dec_step0 itm7 tJ.
  dec_step0 itm8 tK.
  dec_step0 itm9 tL.
  reflexivity.
Qed.

Theorem gen_tuple12_ssz_append tA tB tC tD tE tF tG tH tI tJ tK tL av bv cv dv ev fv gv hv iv jv kv lv buf :
  e_fixed_len tA + e_fixed_len tB + e_fixed_len tC + e_fixed_len tD + e_fixed_len tE + e_fixed_len tF + e_fixed_len tG + e_fixed_len tH + e_fixed_len tI + e_fixed_len tJ + e_fixed_len tK + e_fixed_len tL + len (enc tA av) + len (enc tB bv) + len (enc tC cv) + len (enc tD dv) + len (enc tE ev) + len (enc tF fv) + len (enc tG gv) + len (enc tH hv) + len (enc tI iv) + len (enc tJ jv) + len (enc tK kv) <= usize_max ->
  GenD.tuple12_ssz_append (e_is_fixed tA) (e_fixed_len tA) (app_of tA) (e_is_fixed tB) (e_fixed_len tB) (app_of tB) (e_is_fixed tC) (e_fixed_len tC) (app_of tC) (e_is_fixed tD) (e_fixed_len tD) (app_of tD) (e_is_fixed tE) (e_fixed_len tE) (app_of tE) (e_is_fixed tF) (e_fixed_len tF) (app_of tF) (e_is_fixed tG) (e_fixed_len tG) (app_of tG) (e_is_fixed tH) (e_fixed_len tH) (app_of tH) (e_is_fixed tI) (e_fixed_len tI) (app_of tI) (e_is_fixed tJ) (e_fixed_len tJ) (app_of tJ) (e_is_fixed tK) (e_fixed_len tK) (app_of tK) (e_is_fixed tL) (e_fixed_len tL) (app_of tL) (av, bv, cv, dv, ev, fv, gv, hv, iv, jv, kv, lv) buf
  = Ok (append (TContainer false [tA; tB; tC; tD; tE; tF; tG; tH; tI; tJ; tK; tL]) (VCont [av; bv; cv; dv; ev; fv; gv; hv; iv; jv; kv; lv]) buf).
Proof.
  intro H. unfold GenD.tuple12_ssz_append, app_of. cbn [fst snd].
  unfold usize_add at 1. destruct (e_fixed_len tA + e_fixed_len tB <=? usize_max) eqn:E1; [|apply N.leb_gt in E1; lia]. cbn [bind].
  unfold usize_add at 1. destruct (e_fixed_len tA + e_fixed_len tB + e_fixed_len tC <=? usize_max) eqn:E2; [|apply N.leb_gt in E2; lia]. cbn [bind].
  unfold usize_add at 1. destruct (e_fixed_len tA + e_fixed_len tB + e_fixed_len tC + e_fixed_len tD <=? usize_max) eqn:E3; [|apply N.leb_gt in E3; lia]. cbn [bind].
  unfold usize_add at 1. destruct (e_fixed_len tA + e_fixed_len tB + e_fixed_len tC + e_fixed_len tD + e_fixed_len tE <=? usize_max) eqn:E4; [|apply N.leb_gt in E4; lia]. cbn [bind].
  unfold usize_add at 1. destruct (e_fixed_len tA + e_fixed_len tB + e_fixed_len tC + e_fixed_len tD + e_fixed_len tE + e_fixed_len tF <=? usize_max) eqn:E5; [|apply N.leb_gt in E5; lia]. cbn [bind].
  unfold usize_add at 1. destruct (e_fixed_len tA + e_fixed_len tB + e_fixed_len tC + e_fixed_len tD + e_fixed_len tE + e_fixed_len tF + e_fixed_len tG <=? usize_max) eqn:E6; [|apply N.leb_gt in E6; lia]. cbn [bind].
  unfold usize_add at 1. destruct (e_fixed_len tA + e_fixed_len tB + e_fixed_len tC + e_fixed_len tD + e_fixed_len tE + e_fixed_len tF + e_fixed_len tG + e_fixed_len tH <=? usize_max) eqn:E7; [|apply N.leb_gt in E7; lia]. cbn [bind].
  unfold usize_add at 1. destruct (e_fixed_len tA + e_fixed_len tB + e_fixed_len tC + e_fixed_len tD + e_fixed_len tE + e_fixed_len tF + e_fixed_len tG + e_fixed_len tH + e_fixed_len tI <=? usize_max) eqn:E8; [|apply N.leb_gt in E8; lia]. cbn [bind].
  unfold usize_add at 1. destruct (e_fixed_len tA + e_fixed_len tB + e_fixed_len tC + e_fixed_len tD + e_fixed_len tE + e_fixed_len tF + e_fixed_len tG + e_fixed_len tH + e_fixed_len tI + e_fixed_len tJ <=? usize_max) eqn:E9; [|apply N.leb_gt in E9; lia]. cbn [bind].
  unfold usize_add at 1. destruct (e_fixed_len tA + e_fixed_len tB + e_fixed_len tC + e_fixed_len tD + e_fixed_len tE + e_fixed_len tF + e_fixed_len tG + e_fixed_len tH + e_fixed_len tI + e_fixed_len tJ + e_fixed_len tK <=? usize_max) eqn:E10; [|apply N.leb_gt in E10; lia]. cbn [bind].
  unfold usize_add at 1. destruct (e_fixed_len tA + e_fixed_len tB + e_fixed_len tC + e_fixed_len tD + e_fixed_len tE + e_fixed_len tF + e_fixed_len tG + e_fixed_len tH + e_fixed_len tI + e_fixed_len tJ + e_fixed_len tK + e_fixed_len tL <=? usize_max) eqn:E11; [|apply N.leb_gt in E11; lia]. cbn [bind].
  unfold usize_add at 1. destruct (e_fixed_len tA + e_fixed_len tB + e_fixed_len tC + e_fixed_len tD + e_fixed_len tE + e_fixed_len tF + e_fixed_len tG + e_fixed_len tH + e_fixed_len tI + e_fixed_len tJ + e_fixed_len tK + e_fixed_len tL + 0 <=? usize_max) eqn:E12; [|apply N.leb_gt in E12; lia]. cbn [bind].
  unfold Gen.encoder_container. cbn [bind].
  set (F := e_fixed_len tA + e_fixed_len tB + e_fixed_len tC + e_fixed_len tD + e_fixed_len tE + e_fixed_len tF + e_fixed_len tG + e_fixed_len tH + e_fixed_len tI + e_fixed_len tJ + e_fixed_len tK + e_fixed_len tL + 0).
  set (s0 := {| Gen.SszEncoder_offset := F; Gen.SszEncoder_buf := buf; Gen.SszEncoder_variable_bytes := [] |}).
  assert (V0 : len (e_var (enc_abs s0)) = 0) by reflexivity. assert (O0 : e_offset (enc_abs s0) = F) by reflexivity.
  destruct (append_item_ok (e_is_fixed tA) (append tA) s0 av) as (s1 & -> & A1); [unfold F in *; lia|]. cbn [bind].
  pose proof (enc_append_var_len (enc_abs s0) (e_is_fixed tA) tA av) as V1. rewrite <- A1 in V1.
  assert (O1 : e_offset (enc_abs s1) = F) by (rewrite A1, enc_append_offset; exact O0).
  destruct (append_item_ok (e_is_fixed tB) (append tB) s1 bv) as (s2 & -> & A2); [unfold F in *; lia|]. cbn [bind].
  pose proof (enc_append_var_len (enc_abs s1) (e_is_fixed tB) tB bv) as V2. rewrite <- A2 in V2.
  assert (O2 : e_offset (enc_abs s2) = F) by (rewrite A2, enc_append_offset; exact O1).
  destruct (append_item_ok (e_is_fixed tC) (append tC) s2 cv) as (s3 & -> & A3); [unfold F in *; lia|]. cbn [bind].
  pose proof (enc_append_var_len (enc_abs s2) (e_is_fixed tC) tC cv) as V3. rewrite <- A3 in V3.
  assert (O3 : e_offset (enc_abs s3) = F) by (rewrite A3, enc_append_offset; exact O2).
  destruct (append_item_ok (e_is_fixed tD) (append tD) s3 dv) as (s4 & -> & A4); [unfold F in *; lia|]. cbn [bind].
  pose proof (enc_append_var_len (enc_abs s3) (e_is_fixed tD) tD dv) as V4. rewrite <- A4 in V4.
  assert (O4 : e_offset (enc_abs s4) = F) by (rewrite A4, enc_append_offset; exact O3).
  destruct (append_item_ok (e_is_fixed tE) (append tE) s4 ev) as (s5 & -> & A5); [unfold F in *; lia|]. cbn [bind].
  pose proof (enc_append_var_len (enc_abs s4) (e_is_fixed tE) tE ev) as V5. rewrite <- A5 in V5.
  assert (O5 : e_offset (enc_abs s5) = F) by (rewrite A5, enc_append_offset; exact O4).
  destruct (append_item_ok (e_is_fixed tF) (append tF) s5 fv) as (s6 & -> & A6); [unfold F in *; lia|]. cbn [bind].
  pose proof (enc_append_var_len (enc_abs s5) (e_is_fixed tF) tF fv) as V6. rewrite <- A6 in V6.
  assert (O6 : e_offset (enc_abs s6) = F) by (rewrite A6, enc_append_offset; exact O5).
  destruct (append_item_ok (e_is_fixed tG) (append tG) s6 gv) as (s7 & -> & A7); [unfold F in *; lia|]. cbn [bind].
  pose proof (enc_append_var_len (enc_abs s6) (e_is_fixed tG) tG gv) as V7. rewrite <- A7 in V7.
  assert (O7 : e_offset (enc_abs s7) = F) by (rewrite A7, enc_append_offset; exact O6).
  destruct (append_item_ok (e_is_fixed tH) (append tH) s7 hv) as (s8 & -> & A8); [unfold F in *; lia|]. cbn [bind].
  pose proof (enc_append_var_len (enc_abs s7) (e_is_fixed tH) tH hv) as V8. rewrite <- A8 in V8.
  assert (O8 : e_offset (enc_abs s8) = F) by (rewrite A8, enc_append_offset; exact O7).
  destruct (append_item_ok (e_is_fixed tI) (append tI) s8 iv) as (s9 & -> & A9); [unfold F in *; lia|]. cbn [bind].
  pose proof (enc_append_var_len (enc_abs s8) (e_is_fixed tI) tI iv) as V9. rewrite <- A9 in V9.
  assert (O9 : e_offset (enc_abs s9) = F) by (rewrite A9, enc_append_offset; exact O8).
  destruct (append_item_ok (e_is_fixed tJ) (append tJ) s9 jv) as (s10 & -> & A10); [unfold F in *; lia|]. cbn [bind].
  pose proof (enc_append_var_len (enc_abs s9) (e_is_fixed tJ) tJ jv) as V10. rewrite <- A10 in V10.
  assert (O10 : e_offset (enc_abs s10) = F) by (rewrite A10, enc_append_offset; exact O9).
  destruct (append_item_ok (e_is_fixed tK) (append tK) s10 kv) as (s11 & -> & A11); [unfold F in *; lia|]. cbn [bind].
  pose proof (enc_append_var_len (enc_abs s10) (e_is_fixed tK) tK kv) as V11. rewrite <- A11 in V11.
  assert (O11 : e_offset (enc_abs s11) = F) by (rewrite A11, enc_append_offset; exact O10).
  destruct (append_item_ok (e_is_fixed tL) (append tL) s11 lv) as (s12 & -> & A12); [unfold F in *; lia|]. cbn [bind].
  rewrite finalize_bind, A12, A11, A10, A9, A8, A7, A6, A5, A4, A3, A2, A1. f_equal.
  rewrite append_container. unfold enc_run, cont_items. cbn [combine map fold_left fst snd sumN].
  replace (e_fixed_len tA + (e_fixed_len tB + (e_fixed_len tC + (e_fixed_len tD + (e_fixed_len tE + (e_fixed_len tF + (e_fixed_len tG + (e_fixed_len tH + (e_fixed_len tI + (e_fixed_len tJ + (e_fixed_len tK + (e_fixed_len tL + 0)))))))))))) with F by (unfold F; lia).
  reflexivity.
Qed.

Print Assumptions gen_tuple12_from_ssz_bytes.
Print Assumptions gen_tuple12_ssz_append.

Theorem gen_tuple12_enc_metadata tA tB tC tD tE tF tG tH tI tJ tK tL :
  e_fixed_len tA + e_fixed_len tB + e_fixed_len tC + e_fixed_len tD + e_fixed_len tE + e_fixed_len tF + e_fixed_len tG + e_fixed_len tH + e_fixed_len tI + e_fixed_len tJ + e_fixed_len tK + e_fixed_len tL <= usize_max ->
  GenD.tuple12_enc_is_ssz_fixed_len (e_is_fixed tA) (e_is_fixed tB) (e_is_fixed tC) (e_is_fixed tD) (e_is_fixed tE) (e_is_fixed tF) (e_is_fixed tG) (e_is_fixed tH) (e_is_fixed tI) (e_is_fixed tJ) (e_is_fixed tK) (e_is_fixed tL) = Ok (e_is_fixed (TContainer false [tA; tB; tC; tD; tE; tF; tG; tH; tI; tJ; tK; tL])) /\
  GenD.tuple12_enc_ssz_fixed_len (e_is_fixed tA) (e_fixed_len tA) (e_is_fixed tB) (e_fixed_len tB) (e_is_fixed tC) (e_fixed_len tC) (e_is_fixed tD) (e_fixed_len tD) (e_is_fixed tE) (e_fixed_len tE) (e_is_fixed tF) (e_fixed_len tF) (e_is_fixed tG) (e_fixed_len tG) (e_is_fixed tH) (e_fixed_len tH) (e_is_fixed tI) (e_fixed_len tI) (e_is_fixed tJ) (e_fixed_len tJ) (e_is_fixed tK) (e_fixed_len tK) (e_is_fixed tL) (e_fixed_len tL)
    = Ok (e_fixed_len (TContainer false [tA; tB; tC; tD; tE; tF; tG; tH; tI; tJ; tK; tL])).
Proof.
  intro H. rewrite e_is_fixed_container, e_fixed_len_container. cbn [forallb map sumN].
  unfold GenD.tuple12_enc_ssz_fixed_len, GenD.tuple12_enc_is_ssz_fixed_len. cbn [bind].
  rewrite gen_BYTES_PER_LENGTH_OFFSET.
  replace (e_is_fixed tA && e_is_fixed tB && e_is_fixed tC && e_is_fixed tD && e_is_fixed tE && e_is_fixed tF && e_is_fixed tG && e_is_fixed tH && e_is_fixed tI && e_is_fixed tJ && e_is_fixed tK && e_is_fixed tL && true) with (e_is_fixed tA && (e_is_fixed tB && (e_is_fixed tC && (e_is_fixed tD && (e_is_fixed tE && (e_is_fixed tF && (e_is_fixed tG && (e_is_fixed tH && (e_is_fixed tI && (e_is_fixed tJ && (e_is_fixed tK && (e_is_fixed tL && true)))))))))))) by (rewrite <- !andb_assoc; reflexivity).
  split; [reflexivity|].
  destruct (e_is_fixed tA && (e_is_fixed tB && (e_is_fixed tC && (e_is_fixed tD && (e_is_fixed tE && (e_is_fixed tF && (e_is_fixed tG && (e_is_fixed tH && (e_is_fixed tI && (e_is_fixed tJ && (e_is_fixed tK && (e_is_fixed tL && true)))))))))))); [|reflexivity].
  unfold usize_add. fits. f_equal. lia.
Qed.

Theorem gen_tuple12_dec_metadata tA tB tC tD tE tF tG tH tI tJ tK tL :
  d_fixed_len tA + d_fixed_len tB + d_fixed_len tC + d_fixed_len tD + d_fixed_len tE + d_fixed_len tF + d_fixed_len tG + d_fixed_len tH + d_fixed_len tI + d_fixed_len tJ + d_fixed_len tK + d_fixed_len tL <= usize_max ->
  GenD.tuple12_dec_is_ssz_fixed_len (d_is_fixed tA) (d_is_fixed tB) (d_is_fixed tC) (d_is_fixed tD) (d_is_fixed tE) (d_is_fixed tF) (d_is_fixed tG) (d_is_fixed tH) (d_is_fixed tI) (d_is_fixed tJ) (d_is_fixed tK) (d_is_fixed tL) = Ok (d_is_fixed (TContainer false [tA; tB; tC; tD; tE; tF; tG; tH; tI; tJ; tK; tL])) /\
  GenD.tuple12_dec_ssz_fixed_len (d_is_fixed tA) (d_fixed_len tA) (d_is_fixed tB) (d_fixed_len tB) (d_is_fixed tC) (d_fixed_len tC) (d_is_fixed tD) (d_fixed_len tD) (d_is_fixed tE) (d_fixed_len tE) (d_is_fixed tF) (d_fixed_len tF) (d_is_fixed tG) (d_fixed_len tG) (d_is_fixed tH) (d_fixed_len tH) (d_is_fixed tI) (d_fixed_len tI) (d_is_fixed tJ) (d_fixed_len tJ) (d_is_fixed tK) (d_fixed_len tK) (d_is_fixed tL) (d_fixed_len tL)
    = Ok (d_fixed_len (TContainer false [tA; tB; tC; tD; tE; tF; tG; tH; tI; tJ; tK; tL])).
Proof.
  intro H. rewrite d_is_fixed_container, d_fixed_len_container. cbn [forallb map sumN].
  unfold GenD.tuple12_dec_ssz_fixed_len, GenD.tuple12_dec_is_ssz_fixed_len. cbn [bind].
  rewrite gen_BYTES_PER_LENGTH_OFFSET.
  replace (d_is_fixed tA && d_is_fixed tB && d_is_fixed tC && d_is_fixed tD && d_is_fixed tE && d_is_fixed tF && d_is_fixed tG && d_is_fixed tH && d_is_fixed tI && d_is_fixed tJ && d_is_fixed tK && d_is_fixed tL && true) with (d_is_fixed tA && (d_is_fixed tB && (d_is_fixed tC && (d_is_fixed tD && (d_is_fixed tE && (d_is_fixed tF && (d_is_fixed tG && (d_is_fixed tH && (d_is_fixed tI && (d_is_fixed tJ && (d_is_fixed tK && (d_is_fixed tL && true)))))))))))) by (rewrite <- !andb_assoc; reflexivity).
  split; [reflexivity|].
  destruct (d_is_fixed tA && (d_is_fixed tB && (d_is_fixed tC && (d_is_fixed tD && (d_is_fixed tE && (d_is_fixed tF && (d_is_fixed tG && (d_is_fixed tH && (d_is_fixed tI && (d_is_fixed tJ && (d_is_fixed tK && (d_is_fixed tL && true)))))))))))); [|reflexivity].
  unfold usize_add. fits. f_equal. lia.
Qed.

Theorem gen_tuple12_ssz_bytes_len tA tB tC tD tE tF tG tH tI tJ tK tL av bv cv dv ev fv gv hv iv jv kv lv :
  e_fixed_len tA + e_fixed_len tB + e_fixed_len tC + e_fixed_len tD + e_fixed_len tE + e_fixed_len tF + e_fixed_len tG + e_fixed_len tH + e_fixed_len tI + e_fixed_len tJ + e_fixed_len tK + e_fixed_len tL <= usize_max ->
  field_len tA av + field_len tB bv + field_len tC cv + field_len tD dv + field_len tE ev + field_len tF fv + field_len tG gv + field_len tH hv + field_len tI iv + field_len tJ jv + field_len tK kv + field_len tL lv <= usize_max ->
  GenD.tuple12_ssz_bytes_len (e_is_fixed tA) (e_fixed_len tA) (len_of tA) (e_is_fixed tB) (e_fixed_len tB) (len_of tB) (e_is_fixed tC) (e_fixed_len tC) (len_of tC) (e_is_fixed tD) (e_fixed_len tD) (len_of tD) (e_is_fixed tE) (e_fixed_len tE) (len_of tE) (e_is_fixed tF) (e_fixed_len tF) (len_of tF) (e_is_fixed tG) (e_fixed_len tG) (len_of tG) (e_is_fixed tH) (e_fixed_len tH) (len_of tH) (e_is_fixed tI) (e_fixed_len tI) (len_of tI) (e_is_fixed tJ) (e_fixed_len tJ) (len_of tJ) (e_is_fixed tK) (e_fixed_len tK) (len_of tK) (e_is_fixed tL) (e_fixed_len tL) (len_of tL) (av, bv, cv, dv, ev, fv, gv, hv, iv, jv, kv, lv)
  = Ok (bytes_len (TContainer false [tA; tB; tC; tD; tE; tF; tG; tH; tI; tJ; tK; tL]) (VCont [av; bv; cv; dv; ev; fv; gv; hv; iv; jv; kv; lv])).
Proof.
  intros HF H. unfold GenD.tuple12_ssz_bytes_len, len_of. cbn [fst snd].
  rewrite bytes_len_container. cbn [forallb combine map sumN fst snd].
  destruct (gen_tuple12_enc_metadata tA tB tC tD tE tF tG tH tI tJ tK tL HF) as (M1 & M2).
  rewrite M1. cbn [bind]. rewrite e_is_fixed_container. cbn [forallb].
  destruct (e_is_fixed tA && (e_is_fixed tB && (e_is_fixed tC && (e_is_fixed tD && (e_is_fixed tE && (e_is_fixed tF && (e_is_fixed tG && (e_is_fixed tH && (e_is_fixed tI && (e_is_fixed tJ && (e_is_fixed tK && (e_is_fixed tL && true)))))))))))) eqn:EF.
  - rewrite M2, e_fixed_len_container. cbn [map sumN forallb]. rewrite EF. reflexivity.
  - rewrite gen_BYTES_PER_LENGTH_OFFSET. unfold BYTES_PER_LENGTH_OFFSET. cbv zeta. unfold field_len, BYTES_PER_LENGTH_OFFSET in H.
    rewrite tuple_len_step by lia.
    rewrite tuple_len_step by lia.
    rewrite tuple_len_step by lia.
    rewrite tuple_len_step by lia.
    rewrite tuple_len_step by lia.
    rewrite tuple_len_step by lia.
    rewrite tuple_len_step by lia.
    rewrite tuple_len_step by lia.
    rewrite tuple_len_step by lia.
    rewrite tuple_len_step by lia.
    rewrite tuple_len_step by lia.
    rewrite tuple_len_step by lia.
    f_equal. unfold field_len, BYTES_PER_LENGTH_OFFSET. lia.
Qed.

Print Assumptions gen_tuple12_enc_metadata.
Print Assumptions gen_tuple12_dec_metadata.
Print Assumptions gen_tuple12_ssz_bytes_len.
