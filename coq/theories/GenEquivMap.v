(** * GenEquivMap: the [BTreeMap<K, V>] impls (rustc's expansion of the crate), which go through the tuple impls
    for their entries, are the model's [TMap] codec -- for every key and value type expression. *)
From SSZ Require Import Base RustSem Offsets Encoder Builder Types Codec CodecUnfold BaseFacts OffsetsFacts AppendFacts MetaFacts
     RoundTrip Strict Generated GenEquiv GenEquivDec GenEquivEnc GenProps GeneratedDerive GenEquivDerive GenEquivDerive2 GenEquivTuple.
From Coq Require Import ZArith ZifyN ZifyBool ZifyNat Lia.
Open Scope N_scope.
Ltac Zify.zify_post_hook ::= Z.div_mod_to_equations.

Definition pair_val (p : val * val) : val := VCont [fst p; snd p].
Definition TEntry (k v : ty) : ty := TContainer false [k; v].

(** ** functions that agree on the items of a list are interchangeable in the loops of the crate *)
Lemma fold_m_ext_in {S X} (F G : S -> X -> outcome S) l : forall s,
  (forall s x, In x l -> F s x = G s x) -> fold_m F l s = fold_m G l s.
Proof.
  induction l as [|x r IH]; intros s H; cbn [fold_m]; [reflexivity|].
  rewrite (H s x (or_introl eq_refl)). destruct (G s x) as [s'| |]; cbn [bind]; try reflexivity.
  apply IH. intros s0 y Hy. apply H. right. exact Hy.
Qed.

Lemma mapM_ext_in {A B} (f g : A -> outcome B) l : (forall x, In x l -> f x = g x) -> mapM f l = mapM g l.
Proof.
  induction l as [|x r IH]; intro H; cbn [mapM]; [reflexivity|].
  rewrite (H x (or_introl eq_refl)), IH; [reflexivity|]. intros y Hy. apply H. right. exact Hy.
Qed.

Lemma sequence_ssz_append_ext_in {A} f l (F G : A -> bytes -> outcome bytes) items buf :
  (forall x, In x items -> forall b, F x b = G x b) ->
  Gen.sequence_ssz_append f l F items buf = Gen.sequence_ssz_append f l G items buf.
Proof.
  intro H. unfold Gen.sequence_ssz_append. destruct f.
  - destruct (usize_mul l (llen items)); cbn [bind]; try reflexivity.
    rewrite (fold_m_ext_in _ (fun buf0 item => do b_2 <- G item buf0; Ok b_2) items buf); [reflexivity|].
    intros s x Hx. rewrite (H x Hx). reflexivity.
  - destruct (usize_mul (llen items) Gen.BYTES_PER_LENGTH_OFFSET) as [n| |]; cbn [bind]; try reflexivity.
    destruct (Gen.encoder_container buf n) as [e0| |]; cbn [bind]; try reflexivity.
    rewrite (fold_m_ext_in _ (fun encoder item => do st_6 <- Gen.encoder_append_item false G encoder item; Ok st_6) items e0); [reflexivity|].
    intros s x Hx. unfold Gen.encoder_append_item, Gen.encoder_append. cbn [bind].
    destruct (usize_add _ _) as [n0| |]; cbn [bind]; try reflexivity. destruct (Gen.encode_length n0); cbn [bind]; try reflexivity.
    rewrite (H x Hx). reflexivity.
Qed.

Lemma sequence_ssz_bytes_len_ext_in {A} f l (F G : A -> outcome N) items :
  (forall x, In x items -> F x = G x) ->
  Gen.sequence_ssz_bytes_len f l F items = Gen.sequence_ssz_bytes_len f l G items.
Proof.
  intro H. unfold Gen.sequence_ssz_bytes_len. destruct f; [reflexivity|].
  rewrite (mapM_ext_in (fun item => F item) (fun item => G item) items H). reflexivity.
Qed.

(** ** encoding *)
Lemma entries_Forall2 k v (es : list (val * val)) :
  Forall2 (fun (app : bytes -> bytes) e => forall b, app b = b ++ e)
    (map (fun p => append (TEntry k v) (pair_val p)) es) (map (fun p => enc (TEntry k v) (pair_val p)) es).
Proof. induction es as [|p r IH]; cbn [map]; constructor; [intro b; apply append_spec | exact IH]. Qed.

Lemma entries_Forall2_model k v (es : list (val * val)) :
  Forall2 (fun (app : bytes -> bytes) e => forall b, app b = b ++ e)
    (map (entry_app k v) (map pair_val es)) (map (fun p => enc (TEntry k v) (pair_val p)) es).
Proof.
  induction es as [|p r IH]; cbn [map]; constructor; [|exact IH].
  intro b. rewrite (entry_app_tuple k v (pair_val p) b) by (exists (fst p), (snd p); reflexivity). apply append_spec.
Qed.

Lemma entry_is_fixed k v : e_is_fixed (TEntry k v) = e_is_fixed k && e_is_fixed v.
Proof. unfold TEntry. rewrite e_is_fixed_container. cbn [forallb]. now rewrite andb_true_r. Qed.

Theorem gen_btreemap_ssz_append k v (es : list (val * val)) buf :
  e_fixed_len k + e_fixed_len v <= usize_max ->
  (forall p, In p es -> e_fixed_len k + e_fixed_len v + len (enc k (fst p)) <= usize_max) ->
  (if e_is_fixed (TEntry k v) then e_fixed_len (TEntry k v) * llen es <= usize_max
   else llen es * 4 <= usize_max /\ fits_run (fun p => append (TEntry k v) (pair_val p)) (llen es * 4) [] es) ->
  GenD.btreemap_ssz_append (e_is_fixed k) (e_fixed_len k) (app_of k) (e_is_fixed v) (e_fixed_len v) (app_of v) es buf
  = Ok (append (TMap k v) (VList (map pair_val es)) buf).
Proof.
  intros HF Hit Hseq. unfold GenD.btreemap_ssz_append.
  destruct (gen_tuple2_metadata k v HF ltac:(rewrite <- !fixed_len_agree; exact HF)) as (M1 & M2 & _).
  rewrite M1, M2. cbn [bind]. fold (TEntry k v).
  rewrite (sequence_ssz_append_ext_in _ _ _ (fun p b => Ok (append (TEntry k v) (pair_val p) b))).
  2:{ intros [a c] Hin b. apply gen_tuple2_ssz_append. exact (Hit (a, c) Hin). }
  rewrite gen_sequence_ssz_append_eq by exact Hseq. cbn [bind]. f_equal.
  rewrite append_map, (seq_append_spec _ _ _ buf (entries_Forall2 k v es)).
  rewrite (seq_append_spec _ _ _ buf (entries_Forall2_model k v es)), entry_is_fixed. reflexivity.
Qed.

Lemma entry_fixed_len k v :
  e_fixed_len (TEntry k v) = if e_is_fixed k && e_is_fixed v then e_fixed_len k + e_fixed_len v else BYTES_PER_LENGTH_OFFSET.
Proof.
  unfold TEntry. rewrite e_fixed_len_container. cbn [forallb map sumN]. rewrite andb_true_r, N.add_0_r. reflexivity.
Qed.

Lemma entry_bytes_len k v p :
  bytes_len (TEntry k v) (pair_val p) =
  if e_is_fixed k && e_is_fixed v then e_fixed_len (TEntry k v)
  else (if e_is_fixed k then e_fixed_len k else BYTES_PER_LENGTH_OFFSET + bytes_len k (fst p))
       + (if e_is_fixed v then e_fixed_len v else BYTES_PER_LENGTH_OFFSET + bytes_len v (snd p)).
Proof.
  unfold TEntry, pair_val. rewrite bytes_len_container. cbn [forallb combine map sumN fst snd]. rewrite andb_true_r.
  destruct (e_is_fixed k && e_is_fixed v) eqn:E.
  - fold (TEntry k v). rewrite entry_fixed_len, E. lia.
  - unfold field_len. lia.
Qed.

Theorem gen_btreemap_ssz_bytes_len k v (es : list (val * val)) :
  e_fixed_len k + e_fixed_len v <= usize_max ->
  (forall p, In p es -> field_len k (fst p) + field_len v (snd p) <= usize_max) ->
  (if e_is_fixed (TEntry k v) then e_fixed_len (TEntry k v) * llen es <= usize_max
   else sumN (map (fun p => bytes_len (TEntry k v) (pair_val p)) es) + 4 * llen es <= usize_max) ->
  GenD.btreemap_ssz_bytes_len (e_is_fixed k) (e_fixed_len k) (len_of k) (e_is_fixed v) (e_fixed_len v) (len_of v) es
  = Ok (bytes_len (TMap k v) (VList (map pair_val es))).
Proof.
  intros HF Hit Hseq. unfold GenD.btreemap_ssz_bytes_len.
  destruct (gen_tuple2_metadata k v HF ltac:(rewrite <- !fixed_len_agree; exact HF)) as (M1 & M2 & _).
  rewrite M1, M2. cbn [bind]. fold (TEntry k v).
  rewrite (sequence_ssz_bytes_len_ext_in _ _ _ (fun p => Ok (bytes_len (TEntry k v) (pair_val p)))).
  2:{ intros [a c] Hin. apply gen_tuple2_ssz_bytes_len; [exact HF | exact (Hit (a, c) Hin)]. }
  rewrite gen_sequence_ssz_bytes_len_eq by exact Hseq. f_equal.
  cbn [bytes_len]. rewrite entry_is_fixed, map_map.
  rewrite entry_fixed_len. f_equal. apply map_ext. intro p. rewrite entry_bytes_len, entry_fixed_len. unfold pair_val.
  destruct (e_is_fixed k && e_is_fixed v); reflexivity.
Qed.

(** ** decoding *)
(** the lazy item iterator commutes with a relabelling of the items *)
Lemma lv_items_omap {A B} (d : bytes -> outcome A) (inj : A -> B) bs first num : forall fuel i off,
  lv_items (fun s => omap inj (d s)) bs first num fuel i off
  = (omap (map inj) (fst (lv_items d bs first num fuel i off)), snd (lv_items d bs first num fuel i off)).
Proof.
  induction fuel as [|fuel IH]; intros i off; cbn [lv_items]; [reflexivity|].
  match goal with |- context [match ?X with Ok _ => _ | Err => _ | Panic => _ end] => destruct X as [[s off']| |] end; try reflexivity.
  destruct (d s) as [x| |]; cbn [omap]; try reflexivity.
  rewrite IH. cbn [fst snd]. destruct (fst (lv_items d bs first num fuel (i + 1) off')); reflexivity.
Qed.

Lemma decode_list_var_omap {A B} (d : bytes -> outcome A) (inj : A -> B) bs mx :
  decode_list_var (fun s => omap inj (d s)) CVec bs mx = omap (map inj) (decode_list_var d CVec bs mx).
Proof.
  unfold decode_list_var, decode_list_var_full. destruct bs as [|b0 br]; [reflexivity|].
  destruct (read_offset (b0 :: br)) as [first| |]; try reflexivity.
  destruct (sanitize_offset first None (len (b0 :: br)) (Some first)); try reflexivity.
  destruct (negb (first mod BYTES_PER_LENGTH_OFFSET =? 0) || (first <? BYTES_PER_LENGTH_OFFSET)); [reflexivity|].
  destruct (is_some_and mx _); [reflexivity|]. cbn [fst]. rewrite lv_items_omap. cbn [fst].
  destruct (fst (lv_items d (b0 :: br) first (first / BYTES_PER_LENGTH_OFFSET) _ 1 first)); reflexivity.
Qed.

Lemma ord_insert_key_is_insert_entry p (l : list (val * val)) :
  map pair_val (ord_insert_key val_cmp p l) = insert_entry true (pair_val p) (map pair_val l).
Proof.
  induction l as [|x r IH]; [reflexivity|]. cbn [ord_insert_key insert_entry map].
  change (entry_key true (pair_val p)) with (fst p). change (entry_key true (pair_val x)) with (fst x).
  destruct (val_cmp (fst p) (fst x)); cbn [map]; try reflexivity. rewrite IH. reflexivity.
Qed.

Lemma btreemap_from_iter_is_collect (l : list (val * val)) :
  map pair_val (btreemap_from_iter val_cmp l) = collect_entries true (map pair_val l).
Proof.
  unfold btreemap_from_iter, collect_entries.
  change (@nil val) with (map pair_val []). generalize (@nil (val * val)).
  induction l as [|x r IH]; intro acc; cbn [fold_left map]; [reflexivity|].
  rewrite IH, ord_insert_key_is_insert_entry. reflexivity.
Qed.

Theorem gen_btreemap_is_dec_TMap k v bs :
  len bs <= usize_max -> d_fixed_len k + d_fixed_len v <= usize_max ->
  omap (fun l => VList (map pair_val l))
    (GenD.btreemap_from_ssz_bytes (d_is_fixed k) (d_fixed_len k) (dec k) val_cmp (d_is_fixed v) (d_fixed_len v) (dec v) bs)
  = dec (TMap k v) bs.
Proof.
  intros Hl HF. rewrite dec_map_eq. unfold GenD.btreemap_from_ssz_bytes, dec_seq. rewrite llen_len.
  destruct bs as [|b0 br] eqn:Ebs; [reflexivity|]. rewrite <- Ebs in *.
  replace (len bs =? 0) with false by (symmetry; apply N.eqb_neq; subst bs; unfold len; cbn [length]; lia).
  destruct (gen_tuple2_metadata k v ltac:(rewrite !fixed_len_agree; exact HF) HF) as (_ & _ & M3 & M4).
  rewrite M3. cbn [bind].
  set (D := GenD.tuple2_from_ssz_bytes (d_is_fixed k) (d_fixed_len k) (dec k) (d_is_fixed v) (d_fixed_len v) (dec v)).
  assert (HD : forall s, omap pair_val (D s) = dec (TContainer false [k; v]) s) by (intro s; apply gen_tuple2_from_ssz_bytes).
  destruct (d_is_fixed (TContainer false [k; v])).
  - rewrite M4. cbn [bind]. destruct (d_fixed_len (TContainer false [k; v]) =? 0); [reflexivity|].
    rewrite mapM_chunks_eq.
    rewrite <- (mapM_ext_dec (fun s => omap pair_val (D s)) (dec (TContainer false [k; v])) _ HD), <- mapM_omap.
    destruct (mapM D _) as [l| |]; cbn [omap]; try reflexivity.
    rewrite btreemap_from_iter_is_collect. reflexivity.
  - rewrite gen_decode_list_container_eq by exact Hl. subst bs. unfold Gen.tfi_btreemap_try_from_iter.
    change (decode_list_var (dec (TContainer false [k; v])) CVec (b0 :: br) None)
      with (dec_seq false 0 (dec (TContainer false [k; v])) (b0 :: br)).
    rewrite <- (dec_seq_ext (fun s => omap pair_val (D s)) (dec (TContainer false [k; v])) false 0 (b0 :: br) HD).
    change (dec_seq false 0 (fun s => omap pair_val (D s)) (b0 :: br))
      with (decode_list_var (fun s => omap pair_val (D s)) CVec (b0 :: br) None).
    rewrite decode_list_var_omap.
    destruct (decode_list_var D CVec (b0 :: br) None) as [l| |]; cbn [bind omap]; try reflexivity.
    rewrite btreemap_from_iter_is_collect. reflexivity.
Qed.

(** C19 on the source-derived map decoder: the entry list is decoded as a list of 2-tuples, then collected
    (ascending keys, a later entry with an equal key replaces the earlier one) *)
Theorem Src_C19_map_decodes_by_collection k v bs :
  len bs <= usize_max -> d_fixed_len k + d_fixed_len v <= usize_max ->
  omap (fun l => VList (map pair_val l))
    (GenD.btreemap_from_ssz_bytes (d_is_fixed k) (d_fixed_len k) (dec k) val_cmp (d_is_fixed v) (d_fixed_len v) (dec v) bs) =
  match Gen.vec_from_ssz_bytes (d_is_fixed (TEntry k v)) (d_fixed_len (TEntry k v)) (dec (TEntry k v)) bs with
  | Ok es => Ok (VList (collect_entries true es))
  | Err => Err | Panic => Panic
  end.
Proof.
  intros Hl HF. rewrite gen_btreemap_is_dec_TMap by assumption.
  pose proof (gen_vec_is_dec_TList (TEntry k v) bs Hl) as E.
  rewrite Strict.dec_map_is_collect. unfold TEntry in *. rewrite <- E.
  destruct (Gen.vec_from_ssz_bytes _ _ _ bs); reflexivity.
Qed.

Example ex_btreemap :
  GenD.btreemap_from_ssz_bytes true 1 Gen.u8_from_ssz_bytes N.compare true 1 Gen.u8_from_ssz_bytes [3; 1; 1; 2; 3; 9; 2; 5]
  = Ok [(1, 2); (2, 5); (3, 9)].
Proof. vm_compute. reflexivity. Qed.

Print Assumptions gen_btreemap_ssz_append.
Print Assumptions gen_btreemap_ssz_bytes_len.
Print Assumptions gen_btreemap_is_dec_TMap.
Print Assumptions Src_C19_map_decodes_by_collection.
