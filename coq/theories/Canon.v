(** * Canonical decoding: accepted bytes re-encode to exactly themselves (C02), and the decoded
    value is well typed. *)
From SSZ Require Import Base BaseFacts Offsets OffsetsFacts Encoder EncoderFacts Builder BuilderFacts
     Layout LayoutFacts Bitfield Types Codec Spec CodecUnfold MetaFacts AppendFacts LeafIface SizeFacts
     ListDecFacts SpecFacts WfbFacts RoundTrip.
From Coq Require Import ZArith ZifyN ZifyNat ZifyBool.
Ltac Zify.zify_post_hook ::= Z.div_mod_to_equations.
Open Scope N_scope.

Definition canon_ok (t : ty) : Prop :=
  canon_type t = true ->
  forall bs v, phys bs -> dec t bs = Ok v -> enc t v = bs /\ has_ty t v = true.

Lemma sc_app_l (Q : bytes -> Prop) a b : slice_closed Q -> Q (a ++ b) -> Q a.
Proof. intros HQ H. rewrite <- (take_app_exact a b). now apply sc_take. Qed.
Lemma sc_app_r (Q : bytes -> Prop) a b : slice_closed Q -> Q (a ++ b) -> Q b.
Proof. intros HQ H. rewrite <- (drop_app_exact a b). now apply sc_drop. Qed.

Lemma sc_asm_fixed (Q : bytes -> Prop) parts : slice_closed Q -> forall off,
  Q (assemble_fixed off parts) -> Forall (fun p : part => fst p = true -> Q (snd p)) parts.
Proof.
  intros HQ. induction parts as [|[[|] b] r IH]; intros off H; cbn [assemble_fixed] in H; constructor; cbn [fst snd].
  - intros _. eapply sc_app_l; eauto.
  - eapply IH. eapply sc_app_r; eauto.
  - discriminate.
  - eapply IH. eapply sc_app_r; eauto.
Qed.
Lemma sc_var_concat (Q : bytes -> Prop) parts : slice_closed Q ->
  Q (var_concat parts) -> Forall (fun p : part => fst p = false -> Q (snd p)) parts.
Proof.
  intros HQ. induction parts as [|[[|] b] r IH]; intros H; constructor; cbn [fst snd].
  - discriminate.
  - rewrite var_concat_true in H. auto.
  - intros _. rewrite var_concat_false in H. eapply sc_app_l; eauto.
  - rewrite var_concat_false in H. apply IH. eapply sc_app_r; eauto.
Qed.
Lemma sc_asm (Q : bytes -> Prop) nf parts : slice_closed Q ->
  Q (assemble nf parts) -> Forall (fun p : part => Q (snd p)) parts.
Proof.
  intros HQ H. unfold assemble in H.
  pose proof (sc_asm_fixed Q parts HQ nf (sc_app_l Q _ _ HQ H)) as H1.
  pose proof (sc_var_concat Q parts HQ (sc_app_r Q _ _ HQ H)) as H2.
  rewrite Forall_forall in *. intros p Hp. destruct (fst p) eqn:E; auto.
Qed.

Lemma mapM_ok_Forall2 {A B} (f : A -> outcome B) l : forall vs,
  mapM f l = Ok vs -> Forall2 (fun x v => f x = Ok v) l vs.
Proof.
  induction l as [|x l IH]; cbn [mapM]; intros vs H.
  - injection H as <-. constructor.
  - destruct (f x) as [y| |] eqn:E; cbn [bind] in H; try discriminate.
    destruct (mapM f l) as [ys| |]; cbn [bind] in H; try discriminate.
    injection H as <-. constructor; auto.
Qed.

Lemma omap_ok {A B} (f : A -> B) (o : outcome A) y : omap f o = Ok y -> exists x, o = Ok x /\ y = f x.
Proof. destruct o; cbn; intros H; try discriminate. injection H as <-. eauto. Qed.
Lemma bind_ok {A B} (o : outcome A) (f : A -> outcome B) y : bind o f = Ok y -> exists x, o = Ok x /\ f x = Ok y.
Proof. destruct o; cbn; intros H; try discriminate. eauto. Qed.

Lemma wfb_concat_inv (l : list bytes) : wfb (concat l) -> Forall wfb l.
Proof.
  induction l as [|x l IH]; cbn [concat]; intros H; constructor; apply wfb_app in H as [H1 H2]; auto.
Qed.

Lemma canon_type_1 t a :
  (t = TList a \/ t = TSet a \/ t = TOption a \/ t = TWrap a \/ t = TLegacyOpt a) ->
  canon_type t = true -> node_canon t = true /\ canon_type a = true.
Proof.
  intros Ht H. unfold canon_type in *. rewrite (ty_all_1 _ t a Ht) in H. now apply andb_prop in H.
Qed.

(** Lists *)
Lemma canon_seq t bs vs :
  canon_ok t -> canon_type t = true -> phys bs ->
  dec_seq (d_is_fixed t) (d_fixed_len t) (dec t) bs = Ok vs ->
  seq_enc (e_is_fixed t) (map (enc t) vs) = bs /\ forallb (has_ty t) vs = true.
Proof.
  intros Ht Hc Hw Hd. rewrite <- is_fixed_agree, <- fixed_len_agree in Hd.
  assert (Hitems : forall slices, Forall phys slices -> mapM (dec t) slices = Ok vs ->
                   map (enc t) vs = slices /\ forallb (has_ty t) vs = true).
  { intros slices Hws Hm. apply mapM_ok_Forall2 in Hm. clear Hd.
    induction Hm as [|s x slices vs Hsx _ IH]; [split; reflexivity|].
    inversion Hws as [|? ? Hs Hws']; subst. destruct (Ht Hc s x Hs Hsx) as [He Hx].
    destruct (IH Hws') as [I1 I2]. cbn [map forallb]. now rewrite He, I1, Hx, I2. }
  destruct bs as [|b0 br].
  { cbn [dec_seq] in Hd. injection Hd as <-. rewrite enc_nil_seq. split; reflexivity. }
  destruct (e_is_fixed t) eqn:Ef.
  - (* fixed items *)
    assert (Hk : 0 < e_fixed_len t).
    { unfold dec_seq in Hd. destruct (e_fixed_len t =? 0) eqn:E0; [discriminate|]. lia. }
    destruct (dec_seq_fixed_ok_rel phys (dec t) _ _ _ phys_slice_closed Hw Hk Hd) as (slices & Hcat & Hm & Hws & _).
    destruct (Hitems slices Hws Hm) as [I1 I2]. unfold seq_enc. rewrite I1. auto.
  - (* variable items *)
    rewrite dec_seq_var_nonempty in Hd by discriminate.
    apply (decode_list_var_tiles (dec t) _ vs (proj1 Hw)) in Hd as [[? _]|(slices & HT & Hm)]; [discriminate|].
    pose proof (tiles_list_slices phys _ _ phys_slice_closed Hw HT) as Hws.
    destruct (Hitems slices Hws Hm) as [I1 I2]. split; [|exact I2].
    destruct HT as (_ & _ & ->). unfold seq_enc. now rewrite I1.
Qed.

(** Containers *)
Lemma wfb_asm_fixed_inv parts : forall off,
  wfb (assemble_fixed off parts) -> Forall (fun p : part => fst p = true -> wfb (snd p)) parts.
Proof.
  induction parts as [|[[|] b] r IH]; intros off H; cbn [assemble_fixed] in H; constructor;
    apply wfb_app in H as [H1 H2]; cbn [fst snd]; eauto. discriminate.
Qed.
Lemma wfb_var_concat_inv parts :
  wfb (var_concat parts) -> Forall (fun p : part => fst p = false -> wfb (snd p)) parts.
Proof.
  induction parts as [|[[|] b] r IH]; intros H; constructor; cbn [fst snd].
  - discriminate.
  - rewrite var_concat_true in H. auto.
  - rewrite var_concat_false in H. apply wfb_app in H as [H1 _]. auto.
  - rewrite var_concat_false in H. apply wfb_app in H as [_ H2]. auto.
Qed.
Lemma wfb_asm_inv nf parts : wfb (assemble nf parts) -> Forall (fun p : part => wfb (snd p)) parts.
Proof.
  intros H. apply wfb_app in H as [H1 H2].
  apply wfb_asm_fixed_inv in H1. apply wfb_var_concat_inv in H2.
  rewrite Forall_forall in *. intros p Hp. destruct (fst p) eqn:E; auto.
Qed.

Lemma split_dec_ok (ds : list (N * (bytes -> outcome val))) : forall bs xs,
  split_dec ds bs = Ok xs ->
  exists pieces rest, Forall2 (fun (d : N * (bytes -> outcome val)) p => fst d = len p) ds pieces /\
                 bs = concat pieces ++ rest /\
                 Forall2 (fun (dp : (N * (bytes -> outcome val)) * bytes) x => snd (fst dp) (snd dp) = Ok x)
                         (combine ds pieces) xs.
Proof.
  induction ds as [|[l d] ds IH]; intros bs xs H; cbn [split_dec] in H.
  - injection H as <-. exists [], bs. repeat split; constructor.
  - apply bind_ok in H as ([a b] & Hs & H). unfold split_at in Hs.
    destruct (l <=? len bs) eqn:El; [|discriminate]. injection Hs as <- <-.
    cbn [fst snd] in H. apply bind_ok in H as (x & Hx & H). apply bind_ok in H as (xs' & Hxs & H).
    injection H as <-. destruct (IH _ _ Hxs) as (pieces & rest & P1 & P2 & P3).
    exists (take l bs :: pieces), rest. split; [|split].
    + constructor; [cbn [fst]; rewrite len_take; lia|exact P1].
    + cbn [concat]. rewrite <- app_assoc, <- P2. symmetry. apply take_drop.
    + cbn [combine]. constructor; [exact Hx|exact P3].
Qed.

Lemma canon_fields fs : Forall canon_ok fs -> forallb canon_type fs = true ->
  forall slices xs, Forall phys slices ->
  Forall2 (fun (ds : (bytes -> outcome val) * bytes) x => fst ds (snd ds) = Ok x) (combine (map dec fs) slices) xs ->
  length slices = length fs ->
  map snd (cont_parts fs xs) = slices /\ has_ty_fields fs xs = true.
Proof.
  induction 1 as [|f fs Hf _ IH]; intros Hc slices xs Hw H2 Hl.
  - destruct slices; [|discriminate]. inversion H2; subst. split; reflexivity.
  - destruct slices as [|s slices]; [discriminate|]. cbn [forallb] in Hc. apply andb_prop in Hc as [Hcf Hc].
    inversion Hw as [|? ? Hs Hw']; subst. cbn [map combine] in H2. inversion H2 as [|? x ? xs' Hx H2']; subst.
    cbn [fst snd] in Hx. destruct (Hf Hcf s x Hs Hx) as [He Hty].
    destruct (IH Hc slices xs' Hw' H2' ltac:(cbn [length] in Hl; lia)) as [I1 I2].
    unfold cont_parts in *. cbn [combine map fst snd]. rewrite has_ty_fields_cons, He, I1, Hty, I2. auto.
Qed.

Lemma canon_container (L : LeafFacts) d fs : Forall canon_ok fs -> canon_ok (TContainer d fs).
Proof.
  intros HF Hc bs v Hw Hd. unfold canon_type in Hc. rewrite ty_all_container in Hc.
  apply andb_prop in Hc as [_ Hc]. rewrite dec_container in Hd.
  destruct (d && forallb d_is_fixed fs) eqn:Epath.
  - (* split path *)
    apply andb_prop in Epath as [_ Eall].
    destruct (negb (len bs =? sumN (map d_fixed_len fs))) eqn:El; [discriminate|].
    apply negb_false_iff, N.eqb_eq in El.
    apply omap_ok in Hd as (xs & Hd & ->). apply split_dec_ok in Hd as (pieces & rest & P1 & P2 & P3).
    assert (Hlen : len (concat pieces) = sumN (map d_fixed_len fs)).
    { clear -P1. revert pieces P1. induction fs as [|f fs IH]; intros pieces P1; inversion P1 as [|? p ? ps Hp Hr]; subst; [reflexivity|].
      cbn [map concat sumN fst] in *. rewrite len_app, <- Hp, (IH ps Hr). reflexivity. }
    assert (Hbs : bs = concat pieces).
    { assert (rest = []) as ->; [|now rewrite app_nil_r in P2].
      apply (f_equal len) in P2. rewrite len_app in P2. destruct rest; [reflexivity|].
      rewrite len_cons in P2. lia. }
    assert (Hpl : length pieces = length fs).
    { apply Forall2_len in P1. rewrite map_length in P1. lia. }
    assert (P3' : Forall2 (fun (ds : (bytes -> outcome val) * bytes) x => fst ds (snd ds) = Ok x)
                          (combine (map dec fs) pieces) xs).
    { clear -P3. revert pieces xs P3. induction fs as [|f fs IH]; intros [|p ps] xs P3; cbn [map combine] in *;
        inversion P3; subst; constructor; auto. }
    destruct (canon_fields fs HF Hc pieces xs (concat_slices phys _ phys_slice_closed ltac:(rewrite <- Hbs; exact Hw)) P3' Hpl) as [I1 I2].
    split; [|now rewrite has_ty_container].
    rewrite enc_container, all_fixed_assemble.
    + now rewrite I1.
    + apply forallb_forall. intros p Hp.
      assert (In (fst p) (map fst (cont_parts fs xs))) as Hin by now apply in_map.
      rewrite (cont_parts_fst fs xs I2) in Hin. apply in_map_iff in Hin as (f & <- & Hf).
      rewrite is_fixed_agree. rewrite forallb_forall in Eall. now apply Eall.
  - (* builder path *)
    apply bind_ok in Hd as (items & Hb & Hd). apply omap_ok in Hd as (xs & Hd & ->).
    pose proof (builder_build_length _ _ _ Hb) as Hil. unfold regs_of in Hil. rewrite map_length in Hil.
    rewrite decode_all_mapM in Hd by (rewrite map_length; exact Hil).
    apply mapM_ok_Forall2 in Hd.
    apply (builder_build_tiles _ _ _ (proj1 Hw) (proj2 Hw)) in Hb as HT.
    destruct HT as (Hsl & Hfix & Hfit & Hbs). cbv zeta in Hfix, Hfit, Hbs.
    set (parts := combine (map fst (regs_of fs)) items) in *.
    assert (Hq : Forall phys items).
    { pose proof (sc_asm phys _ parts phys_slice_closed ltac:(rewrite <- Hbs; exact Hw)) as Hp.
      rewrite Forall_forall in *. intros s Hs.
      assert (In s (map snd parts)) as Hin.
      { unfold parts. rewrite map_snd_combine'; [exact Hs|]. rewrite map_length. unfold regs_of. rewrite map_length. lia. }
      apply in_map_iff in Hin as (p & <- & Hpin). now apply Hp. }
    destruct (canon_fields fs HF Hc items xs Hq Hd Hil) as [I1 I2].
    split; [|now rewrite has_ty_container].
    rewrite enc_container, (fixed_size_cont_parts L fs xs I2).
    assert (Hparts : cont_parts fs xs = parts).
    { rewrite <- (combine_fst_snd (cont_parts fs xs)), I1, (cont_parts_fst fs xs I2).
      unfold parts, regs_of. rewrite map_map. cbn [fst]. f_equal.
      all: try (apply map_ext; intros f; apply is_fixed_agree). }
    rewrite Hparts. symmetry. exact Hbs.
Qed.

Lemma phys_cons b bs : phys (b :: bs) -> b < 256 /\ phys bs.
Proof.
  intros [Hw Hl]. inversion Hw; subst. split; [assumption|]. split; [assumption|].
  rewrite len_cons in Hl. lia.
Qed.

Lemma phys_take n bs : phys bs -> phys (take n bs).
Proof. intros H. rewrite <- (drop_0 bs). now apply phys_slice_closed. Qed.
Lemma phys_drop n bs : phys bs -> phys (drop n bs).
Proof. intros H. now apply (sc_drop phys _ _ phys_slice_closed). Qed.

Theorem canon_facts (L : LeafFacts) t : canon_ok t.
Proof.
  induction t using ty_ind'; intros Hc bs v Hp Hd; pose proof (proj1 Hp) as Hw.
  - (* TUint *) cbn [dec] in Hd. destruct (len bs =? N.of_nat k) eqn:El; [|discriminate]. injection Hd as <-.
    apply N.eqb_eq in El. unfold len in El. apply Nat2N.inj in El. subst k.
    unfold enc. cbn [append app has_ty]. split; [now apply le_bytes_le_val|].
    rewrite pow2_8k. pose proof (le_val_bound bs Hw). lia.
  - (* TBool *) cbn [dec] in Hd. unfold dec_bool in Hd. destruct bs as [|b [|? ?]]; try discriminate.
    destruct (b =? 0) eqn:E0; [injection Hd as <-; apply N.eqb_eq in E0; subst; split; reflexivity|].
    destruct (b =? 1) eqn:E1; [injection Hd as <-; apply N.eqb_eq in E1; subst; split; reflexivity|discriminate].
  - (* TNonZero *) cbn [dec] in Hd. destruct (len bs =? 8) eqn:El; [|discriminate].
    destruct (le_val bs =? 0) eqn:E0; [discriminate|]. injection Hd as <-.
    apply N.eqb_eq in El. unfold len in El.
    assert (Hl : length bs = 8%nat) by lia.
    unfold enc. cbn [append app has_ty]. split; [rewrite <- Hl; now apply le_bytes_le_val|].
    pose proof (le_val_bound bs Hw) as B. rewrite Hl in B. change (256 ^ N.of_nat 8) with (2 ^ 64) in B. lia.
  - (* TBytesN *) cbn [dec] in Hd. destruct (len bs =? N.of_nat n) eqn:El; [|discriminate]. injection Hd as <-.
    apply N.eqb_eq in El. unfold len in El. apply Nat2N.inj in El.
    unfold enc. cbn [append app has_ty]. split; [reflexivity|].
    apply andb_true_intro. split; [now apply wfbb_wfb|now apply Nat.eqb_eq].
  - (* TByteList *) cbn [dec] in Hd. injection Hd as <-. unfold enc. cbn [append app has_ty].
    split; [reflexivity|now apply wfbb_wfb].
  - (* TList *) destruct (canon_type_1 (TList t) t ltac:(auto) Hc) as [_ Hc'].
    cbn [dec] in Hd. apply omap_ok in Hd as (vs & Hd & ->).
    destruct (canon_seq t bs vs IHt Hc' Hp Hd) as [He Hty]. rewrite enc_list. cbn [has_ty]. auto.
  - (* TSet *) unfold canon_type in Hc. cbn [ty_all] in Hc. apply andb_prop in Hc as [Hn _].
    unfold node_canon in Hn. rewrite andb_false_r in Hn. discriminate.
  - (* TMap *) unfold canon_type in Hc. cbn [ty_all] in Hc. apply andb_prop in Hc as [Hn _].
    unfold node_canon in Hn. rewrite andb_false_r in Hn. discriminate.
  - (* TOption *) destruct (canon_type_1 (TOption t) t ltac:(auto) Hc) as [_ Hc'].
    cbn [dec] in Hd. rewrite split_union_bytes_spec in Hd. destruct bs as [|s body]; [discriminate|].
    destruct (s <=? 127) eqn:Es; [|discriminate]. cbn [bind] in Hd.
    destruct (phys_cons _ _ Hp) as [_ Hpb].
    destruct (s =? 0) eqn:E0.
    + destruct body; [|discriminate]. injection Hd as <-. apply N.eqb_eq in E0. subst. split; reflexivity.
    + destruct (s =? 1) eqn:E1; [|discriminate]. apply omap_ok in Hd as (x & Hd & ->).
      destruct (IHt Hc' body x Hpb Hd) as [He Hty]. apply N.eqb_eq in E1. subst s.
      rewrite enc_option_some, He. cbn [has_ty]. auto.
  - now apply (canon_container L d fs H).
  - (* TUnion *) unfold canon_type in Hc. rewrite ty_all_union in Hc. apply andb_prop in Hc as [Hn Hc].
    unfold node_canon in Hn. rewrite andb_true_r in Hn. cbn [node_wf] in Hn. apply andb_prop in Hn as [_ Hn].
    rewrite dec_union in Hd. rewrite split_union_bytes_spec in Hd. destruct bs as [|s body]; [discriminate|].
    destruct (s <=? 127) eqn:Es; [|discriminate]. cbn [bind fst snd] in Hd.
    destruct (phys_cons _ _ Hp) as [_ Hpb].
    destruct (nth_error vs (N.to_nat s)) as [t|] eqn:E; [|discriminate].
    apply omap_ok in Hd as (x & Hd & ->). rewrite Forall_forall in H.
    pose proof (nth_error_In _ _ E) as HI. rewrite forallb_forall in Hc.
    destruct (H t HI (Hc t HI) body x Hpb Hd) as [He Hty].
    rewrite enc_union, E, He, N2Nat.id. split; [reflexivity|].
    rewrite has_ty_union, Hn. unfold pick_has_ty. now rewrite E.
  - (* TTag *) unfold canon_type in Hc. cbn [ty_all] in Hc. rewrite andb_true_r in Hc.
    unfold node_canon in Hc. rewrite andb_true_r in Hc. cbn [node_wf] in Hc. apply andb_prop in Hc as [_ Hn].
    cbn [dec] in Hd. destruct bs as [|b [|? ?]]; try discriminate.
    destruct (b <? N.of_nat n) eqn:Eb; [|discriminate]. injection Hd as <-.
    rewrite enc_tag, N2Nat.id. split; [reflexivity|]. cbn [has_ty]. rewrite Hn, andb_true_r.
    apply Nat.ltb_lt. lia.
  - (* TTransEnum *) unfold canon_type in Hc. cbn [ty_all] in Hc. apply andb_prop in Hc as [Hn _].
    unfold node_canon in Hn. rewrite andb_false_r in Hn. discriminate.
  - (* TWrap *) destruct (canon_type_1 (TWrap t) t ltac:(auto) Hc) as [_ Hc']. exact (IHt Hc' bs v Hp Hd).
  - (* TBitVector *) cbn [dec] in Hd. apply omap_ok in Hd as (b & Hd & ->).
    destruct (lf_bv_canon L n bs b Hw Hd) as [He Hl]. unfold enc. cbn [append app has_ty].
    split; [exact He|now apply N.eqb_eq].
  - cbn [dec] in Hd. apply omap_ok in Hd as (b & Hd & ->).
    destruct (lf_bl_canon L n bs b Hw Hd) as [He Hl]. unfold enc. cbn [append app has_ty].
    split; [exact He|now apply N.leb_le].
  - cbn [dec] in Hd. apply omap_ok in Hd as (b & Hd & ->).
    destruct (lf_bd_canon L bs b Hw Hd) as (He & H0 & H8). unfold enc. cbn [append app has_ty].
    split; [exact He|]. apply andb_true_intro. split; [apply N.ltb_lt; lia|now apply N.eqb_eq].
  - (* TLegacyOpt *) destruct (canon_type_1 (TLegacyOpt t) t ltac:(auto) Hc) as [_ Hc'].
    cbn [dec] in Hd. unfold BYTES_PER_LENGTH_OFFSET in Hd.
    destruct (len bs <? 4) eqn:El; [discriminate|]. unfold split_at in Hd.
    replace (4 <=? len bs) with true in Hd by lia. cbn [bind fst snd] in Hd.
    assert (H4 : length (take 4 bs) = 4%nat).
    { pose proof (len_take 4 bs ltac:(lia)) as Ht. unfold len in Ht. lia. }
    rewrite <- (app_nil_r (take 4 bs)) in Hd at 1. rewrite (read_offset_app _ [] H4) in Hd. cbn [bind] in Hd.
    destruct (encode_length_le_val (take 4 bs) H4 (wfb_take 4 bs Hw)) as [Henc _].
    destruct (le_val (take 4 bs) =? 0) eqn:E0.
    + destruct (drop 4 bs) eqn:Edrop; [|discriminate]. injection Hd as <-.
      apply N.eqb_eq in E0. rewrite E0 in Henc. unfold enc. cbn [append app has_ty].
      split; [|reflexivity]. rewrite Henc. pose proof (take_drop 4 bs) as TD.
      rewrite Edrop, app_nil_r in TD. exact TD.
    + destruct (le_val (take 4 bs) =? 1) eqn:E1; [|discriminate]. apply omap_ok in Hd as (x & Hd & ->).
      destruct (IHt Hc' _ x (phys_drop 4 bs Hp) Hd) as [He Hty].
      apply N.eqb_eq in E1. rewrite E1 in Henc. rewrite enc_legacy_some, He, Henc. cbn [has_ty].
      split; [apply take_drop|exact Hty].
Qed.
