(** * [ssz_append] is append-only and context-free (C10), and closed forms of [enc]. *)
From SSZ Require Import Base BaseFacts Offsets OffsetsFacts Encoder EncoderFacts Layout
     Types Codec Spec CodecUnfold MetaFacts.
From Coq Require Import ZArith ZifyN ZifyNat ZifyBool.
Open Scope N_scope.

(** [sequence_ssz_append] in closed form. *)
Definition seq_enc (item_fixed : bool) (encs : list bytes) : bytes :=
  if item_fixed then concat encs
  else assemble (4 * N.of_nat (length encs)) (map (fun e => (false, e)) encs).

Lemma Forall2_len {A B} (R : A -> B -> Prop) l1 l2 : Forall2 R l1 l2 -> length l1 = length l2.
Proof. induction 1; cbn [length]; congruence. Qed.

Lemma fold_apps apps encs buf :
  Forall2 (fun (app : bytes -> bytes) e => forall b, app b = b ++ e) apps encs ->
  fold_left (fun b app => app b) apps buf = buf ++ concat encs.
Proof.
  intros H. revert buf. induction H as [|app e apps encs Ha _ IH]; intros buf; cbn [fold_left concat].
  - now rewrite app_nil_r.
  - rewrite IH, Ha, <- app_assoc. reflexivity.
Qed.

Lemma seq_append_spec f apps encs buf :
  Forall2 (fun (app : bytes -> bytes) e => forall b, app b = b ++ e) apps encs ->
  seq_append f apps buf = buf ++ seq_enc f encs.
Proof.
  intros H. unfold seq_append, seq_enc. destruct f.
  - now apply fold_apps.
  - rewrite (Forall2_len _ _ _ H).
    replace (N.of_nat (length encs) * BYTES_PER_LENGTH_OFFSET) with (4 * N.of_nat (length encs))
      by (unfold BYTES_PER_LENGTH_OFFSET; lia).
    apply enc_run_assemble.
    clear buf. induction H as [|app e apps encs Ha _ IH]; cbn [map]; constructor; auto.
    split; [reflexivity|exact Ha].
Qed.

Definition cont_parts (fs : list ty) (vs : list val) : list part :=
  map (fun p => (e_is_fixed (fst p), enc (fst p) (snd p))) (combine fs vs).

Lemma cont_items_parts fs vs :
  Forall (fun t => forall v buf, append t v buf = buf ++ enc t v) fs ->
  Forall2 appends (cont_items fs vs) (cont_parts fs vs).
Proof.
  intros H. unfold cont_items, cont_parts. revert vs.
  induction H as [|f fs Hf _ IH]; intros [|v vs]; cbn [combine map]; constructor; auto.
  split; cbn [fst snd]; [reflexivity|]. intros b. apply Hf.
Qed.

Lemma map_append_Forall2 t vs :
  (forall v buf, append t v buf = buf ++ enc t v) ->
  Forall2 (fun (app : bytes -> bytes) e => forall b, app b = b ++ e) (map (append t) vs) (map (enc t) vs).
Proof. intros H. induction vs; cbn [map]; constructor; auto. Qed.

(** The map entry closure is the tuple encoder. *)
Definition entry_app (k v : ty) (e : val) (b : bytes) : bytes :=
  match e with
  | VCont [a; c] =>
      enc_run b (e_fixed_len k + e_fixed_len v)
              [(e_is_fixed k, append k a); (e_is_fixed v, append v c)]
  | _ => b
  end.
Lemma append_map k v es buf :
  append (TMap k v) (VList es) buf =
  seq_append (e_is_fixed k && e_is_fixed v) (map (entry_app k v) es) buf.
Proof. reflexivity. Qed.

Lemma entry_app_tuple k v e b :
  (exists a c, e = VCont [a; c]) ->
  entry_app k v e b = append (TContainer false [k; v]) e b.
Proof.
  intros (a & c & ->). rewrite append_container. unfold entry_app, cont_items.
  cbn [map sumN combine fst snd]. now rewrite N.add_0_r.
Qed.

(** C10: appending to any buffer leaves it untouched and adds exactly the standalone encoding. *)
Theorem append_spec t : forall v buf, append t v buf = buf ++ enc t v.
Proof.
  unfold enc.
  induction t using ty_ind'; intros v buf;
    try (destruct v; cbn [append]; rewrite ?app_nil_r, ?app_nil_l; reflexivity).
  - (* TList *)
    destruct v; try (cbn [append]; now rewrite app_nil_r). cbn [append].
    rewrite !(seq_append_spec _ _ (map (fun x => append t x []) vs)); [reflexivity| |].
    all: induction vs; cbn [map]; constructor; auto.
  - (* TSet *)
    destruct v; try (cbn [append]; now rewrite app_nil_r). cbn [append].
    rewrite !(seq_append_spec _ _ (map (fun x => append t x []) vs)); [reflexivity| |].
    all: induction vs; cbn [map]; constructor; auto.
  - (* TMap *)
    destruct v; try (cbn [append]; now rewrite app_nil_r). rewrite !append_map.
    assert (HE : Forall2 (fun (app : bytes -> bytes) e => forall b, app b = b ++ e)
                         (map (entry_app t1 t2) vs) (map (fun e => entry_app t1 t2 e []) vs)).
    { induction vs as [|e vs IH]; cbn [map]; constructor; auto.
      intros b. destruct e; try (cbn; now rewrite app_nil_r).
      destruct vs0 as [|a [|c [|? ?]]]; try (cbn; now rewrite app_nil_r).
      unfold entry_app.
      rewrite !(enc_run_assemble _ _ _ [(e_is_fixed t1, append t1 a []); (e_is_fixed t2, append t2 c [])]).
      - reflexivity.
      - repeat constructor; cbn [fst snd]; auto.
      - repeat constructor; cbn [fst snd]; auto. }
    rewrite !(seq_append_spec _ _ _ _ HE). reflexivity.
  - (* TOption *)
    destruct v; try (cbn [append]; now rewrite app_nil_r).
    + cbn [append]. reflexivity.
    + cbn [append]. rewrite IHt, (IHt v ([] ++ [1])). now rewrite <- app_assoc.
  - (* TContainer *)
    destruct v; try (cbn [append]; now rewrite app_nil_r). rewrite !append_container.
    assert (HP : Forall2 appends (cont_items fs vs)
                         (map (fun p => (e_is_fixed (fst p), append (fst p) (snd p) [])) (combine fs vs))).
    { unfold cont_items. revert vs. induction H as [|f fs Hf _ IH]; intros [|x vs]; cbn [combine map]; constructor; auto.
      split; cbn [fst snd]; [reflexivity|]. intros b. apply Hf. }
    rewrite !(enc_run_assemble _ _ _ _ HP). reflexivity.
  - (* TUnion *)
    destruct v; try (cbn [append]; now rewrite app_nil_r). rewrite !append_union.
    destruct (nth_error vs i) as [t|] eqn:E; [|now rewrite app_nil_r].
    pose proof (nth_error_In _ _ E) as HI. rewrite Forall_forall in H.
    rewrite (H t HI), (H t HI v ([] ++ [N.of_nat i])). now rewrite <- app_assoc.
  - (* TTransEnum *)
    destruct v; try (cbn [append]; now rewrite app_nil_r). rewrite !append_trans.
    destruct (nth_error vs i) as [t|] eqn:E; [|now rewrite app_nil_r].
    pose proof (nth_error_In _ _ E) as HI. rewrite Forall_forall in H. apply (H t HI).
  - (* TWrap *)
    cbn [append]. apply IHt.
  - (* TLegacyOpt *)
    destruct v; try (cbn [append]; now rewrite app_nil_r).
    + cbn [append]. reflexivity.
    + cbn [append]. rewrite IHt, (IHt v ([] ++ encode_length 1)). now rewrite <- app_assoc.
Qed.

(** Closed forms of [enc]. *)
Lemma enc_list t vs : enc (TList t) (VList vs) = seq_enc (e_is_fixed t) (map (enc t) vs).
Proof.
  unfold enc at 1. cbn [append].
  rewrite (seq_append_spec _ _ (map (enc t) vs)); [reflexivity|].
  apply map_append_Forall2, append_spec.
Qed.
Lemma enc_set t vs : enc (TSet t) (VList vs) = seq_enc (e_is_fixed t) (map (enc t) vs).
Proof.
  unfold enc at 1. cbn [append].
  rewrite (seq_append_spec _ _ (map (enc t) vs)); [reflexivity|].
  apply map_append_Forall2, append_spec.
Qed.
Lemma enc_container d fs vs :
  enc (TContainer d fs) (VCont vs) = assemble (sumN (map e_fixed_len fs)) (cont_parts fs vs).
Proof.
  unfold enc at 1. rewrite append_container.
  rewrite (enc_run_assemble _ _ _ (cont_parts fs vs)); [reflexivity|].
  apply cont_items_parts. apply Forall_forall. intros t _. apply append_spec.
Qed.
Lemma enc_map k v es :
  Forall (fun e => exists a c, e = VCont [a; c]) es ->
  enc (TMap k v) (VList es) = enc (TList (TContainer false [k; v])) (VList es).
Proof.
  intros H. rewrite enc_list. unfold enc at 1. rewrite append_map.
  rewrite (seq_append_spec _ _ (map (enc (TContainer false [k; v])) es)).
  - rewrite e_is_fixed_container. cbn [forallb]. now rewrite andb_true_r.
  - induction H as [|e es He _ IH]; cbn [map]; constructor; auto.
    intros b. rewrite (entry_app_tuple k v e b He). apply append_spec.
Qed.

(** All encoding entry points agree (C10). *)
Theorem as_bytes_enc t v : as_bytes t v = enc t v.
Proof. destruct t; try reflexivity; destruct v; reflexivity. Qed.
Theorem ssz_encode_enc t v : ssz_encode t v = enc t v.
Proof. apply as_bytes_enc. Qed.
Theorem wrap_forwards t v buf : append (TWrap t) v buf = append t v buf.
Proof. reflexivity. Qed.
