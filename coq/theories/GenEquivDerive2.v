(** * GenEquivDerive2: further sample definitions (skipped fields, byte arrays, transparent enums,
    nested user types); same statements as [GenEquivDerive]. *)
From SSZ Require Import Base RustSem Offsets Encoder Builder Types Codec CodecUnfold BaseFacts OffsetsFacts
     Generated GenEquiv GenEquivDec GenEquivEnc GenProps GeneratedDerive GenEquivDerive.
From Coq Require Import ZArith ZifyN ZifyBool ZifyNat Lia.
Open Scope N_scope.
Ltac Zify.zify_post_hook ::= Z.div_mod_to_equations.

Definition T_Skip : ty := TContainer true [TUint 2; TList (TUint 1)].
Definition v_Skip (r : GenD.Skip) : val := VCont [VUint (GenD.Skip_a r); v_list (GenD.Skip_c r)].

(** the metadata of the leaf types: closed terms *)
Ltac leaf_meta :=
  change Gen.u8_enc_is_ssz_fixed_len with (Ok true : outcome bool) in *;
  change Gen.u16_enc_is_ssz_fixed_len with (Ok true : outcome bool) in *;
  change Gen.u32_enc_is_ssz_fixed_len with (Ok true : outcome bool) in *;
  change Gen.u64_enc_is_ssz_fixed_len with (Ok true : outcome bool) in *;
  change Gen.bool_enc_is_ssz_fixed_len with (Ok true : outcome bool) in *;
  change Gen.vec_enc_is_ssz_fixed_len with (Ok false : outcome bool) in *;
  change Gen.u8_enc_ssz_fixed_len with (Ok 1 : outcome N) in *;
  change Gen.u16_enc_ssz_fixed_len with (Ok 2 : outcome N) in *;
  change Gen.u32_enc_ssz_fixed_len with (Ok 4 : outcome N) in *;
  change Gen.u64_enc_ssz_fixed_len with (Ok 8 : outcome N) in *;
  change Gen.bool_enc_ssz_fixed_len with (Ok 1 : outcome N) in *;
  change Gen.encode_default_ssz_fixed_len with (Ok 4 : outcome N) in *;
  change Gen.u8_dec_is_ssz_fixed_len with (Ok true : outcome bool) in *;
  change Gen.u16_dec_is_ssz_fixed_len with (Ok true : outcome bool) in *;
  change Gen.u32_dec_is_ssz_fixed_len with (Ok true : outcome bool) in *;
  change Gen.u64_dec_is_ssz_fixed_len with (Ok true : outcome bool) in *;
  change Gen.bool_dec_is_ssz_fixed_len with (Ok true : outcome bool) in *;
  change Gen.vec_dec_is_ssz_fixed_len with (Ok false : outcome bool) in *;
  change Gen.u8_dec_ssz_fixed_len with (Ok 1 : outcome N) in *;
  change Gen.u16_dec_ssz_fixed_len with (Ok 2 : outcome N) in *;
  change Gen.u32_dec_ssz_fixed_len with (Ok 4 : outcome N) in *;
  change Gen.u64_dec_ssz_fixed_len with (Ok 8 : outcome N) in *;
  change Gen.bool_dec_ssz_fixed_len with (Ok 1 : outcome N) in *;
  change Gen.decode_default_ssz_fixed_len with (Ok 4 : outcome N) in *.

Ltac enc_fields := cbn [bind Gen.SszEncoder_buf Gen.SszEncoder_offset Gen.SszEncoder_variable_bytes Gen.set_SszEncoder_buf Gen.set_SszEncoder_variable_bytes
  Gen.u8_ssz_append Gen.u16_ssz_append Gen.u32_ssz_append Gen.u64_ssz_append].

(** the stepping tactics of [GenEquivDerive], closing the failing branches of a conjunction as well *)
Ltac close2 := try discriminate; try reflexivity; try (split; [reflexivity|discriminate]).
Ltac reg_step2 S0 F L :=
  let E := fresh "E" in let ns := fresh "s" in let nst := fresh "st" in
  let Eb := fresh "Eb" in let Es := fresh "Es" in
  pose proof (gen_builder_register_type_eq S0 F L) as E;
  destruct (Gen.builder_register_type F L S0) as [ns| |];
  destruct (register (Gen.SszDecoderBuilder_bytes S0) (st_abs S0) F L) as [nst| |];
  cbn [omap bind] in *; close2;
  apply Ok_inj_pair in E; destruct E as (Eb & Es).
Ltac dec_step2 ITS D T INJ HD :=
  let E := fresh "E" in let x := fresh "x" in let its1 := fresh "its" in let y := fresh "y" in let its2 := fresh "itm" in
  let E1 := fresh "E1" in let E2 := fresh "E2" in
  pose proof (gen_decoder_decode_next_eq ITS D) as E;
  rewrite (decode_next_ext ITS (dec T) (fun b => omap INJ (D b))) by (intro; symmetry; apply HD);
  rewrite decode_next_omap;
  destruct (Gen.decoder_decode_next D {| Gen.SszDecoder_items := ITS |}) as [[x [its1]]| |];
  destruct (decode_next ITS D) as [[y its2]| |];
  cbn [omap bind fst snd] in *; close2;
  apply Ok_inj_pair in E; destruct E as (E1 & E2); cbn [Gen.SszDecoder_items] in *; subst.
Ltac build_step S :=
  let Ebuild := fresh "Ebuild" in let its := fresh "its" in let items := fresh "items" in
  pose proof (gen_builder_build_eq S) as Ebuild;
  destruct (Gen.builder_build S) as [[its]| |]; destruct (finalize (Gen.SszDecoderBuilder_bytes S) (st_abs S)) as [items| |];
  cbn [omap bind Gen.SszDecoder_items] in *; close2;
  apply (f_equal (fun o => match o with Ok c => c | _ => its end)) in Ebuild; subst items.

Theorem derive2_metadata :
  GenD.Skip_enc_is_ssz_fixed_len = Ok (e_is_fixed T_Skip) /\ GenD.Skip_enc_ssz_fixed_len = Ok (e_fixed_len T_Skip) /\
  GenD.Skip_dec_is_ssz_fixed_len = Ok (d_is_fixed T_Skip) /\ GenD.Skip_dec_ssz_fixed_len = Ok (d_fixed_len T_Skip).
Proof. repeat split; vm_compute; reflexivity. Qed.

Theorem derive_Skip_ssz_append r buf :
  6 + llen (GenD.Skip_c r) <= usize_max ->
  GenD.Skip_ssz_append r buf = Ok (append T_Skip (v_Skip r) buf).
Proof.
  intro H. destruct r as [a b c]. cbn [GenD.Skip_c] in H.
  unfold GenD.Skip_ssz_append. cbn [GenD.Skip_a GenD.Skip_b GenD.Skip_c]. leaf_meta.
  cbn [bind]. change (unwrap_or_panic (checked_add 0 2)) with (Ok 2 : outcome N). cbn [bind].
  change (unwrap_or_panic (checked_add 2 4)) with (Ok 6 : outcome N). cbn [bind].
  unfold Gen.encoder_container. cbn [bind].
  unfold Gen.encoder_append_item, Gen.encoder_append. enc_fields.
  change (llen (@nil N)) with 0. change (usize_add 6 0) with (Ok 6 : outcome N). cbn [bind].
  rewrite gen_encode_length_eq. cbn [bind].
  rewrite (vec_u8_append c []) by lia. enc_fields.
  unfold Gen.encoder_finalize. enc_fields.
  reflexivity.
Qed.

Theorem derive_Skip_ssz_bytes_len r :
  6 + llen (GenD.Skip_c r) <= usize_max ->
  GenD.Skip_ssz_bytes_len r = Ok (bytes_len T_Skip (v_Skip r)).
Proof.
  intro H. destruct r as [a b c]. cbn [GenD.Skip_c] in H.
  unfold GenD.Skip_ssz_bytes_len. cbn [GenD.Skip_a GenD.Skip_b GenD.Skip_c].
  change GenD.Skip_enc_is_ssz_fixed_len with (Ok false : outcome bool). leaf_meta.
  cbn [bind]. change (unwrap_or_panic (checked_add 0 2)) with (Ok 2 : outcome N). cbn [bind].
  rewrite gen_BYTES_PER_LENGTH_OFFSET. unfold BYTES_PER_LENGTH_OFFSET.
  change (unwrap_or_panic (checked_add 2 4)) with (Ok 6 : outcome N). cbn [bind].
  rewrite (vec_u8_bytes_len c) by lia. cbn [bind]. rewrite bytes_len_list_u8.
  unfold checked_add at 1. destruct (6 + llen c <=? usize_max) eqn:E1; [|apply N.leb_gt in E1; lia]. cbn [unwrap_or_panic bind].
  f_equal. unfold T_Skip, v_Skip. cbn [GenD.Skip_a GenD.Skip_c].
  rewrite bytes_len_container. cbn [forallb e_is_fixed andb]. cbv iota.
  cbn [combine map sumN fst snd]. unfold field_len. cbn [e_is_fixed e_fixed_len].
  rewrite bytes_len_list_u8. unfold BYTES_PER_LENGTH_OFFSET. change (N.of_nat 2) with 2. lia.
Qed.

(** decoding: the live fields are the model's; the skipped field is its [Default] *)
Theorem derive_Skip_from_ssz_bytes bs :
  omap v_Skip (GenD.Skip_from_ssz_bytes bs) = dec T_Skip bs /\
  (forall r, GenD.Skip_from_ssz_bytes bs = Ok r -> GenD.Skip_b r = 0).
Proof.
  unfold GenD.Skip_from_ssz_bytes.
  change GenD.Skip_dec_is_ssz_fixed_len with (Ok false : outcome bool). leaf_meta.
  cbn [bind]. unfold Gen.builder_new. cbn [bind].
  unfold T_Skip. rewrite dec_container.
  change (true && forallb d_is_fixed [TUint 2; TList (TUint 1)]) with false. cbv iota.
  unfold regs_of. cbn [map d_is_fixed d_fixed_len]. change (N.of_nat 2) with 2. unfold BYTES_PER_LENGTH_OFFSET.
  unfold builder_build. cbn [register_all].
  set (s0 := {| Gen.SszDecoderBuilder_bytes := bs; Gen.SszDecoderBuilder_items := []; Gen.SszDecoderBuilder_offsets := []; Gen.SszDecoderBuilder_items_index := 0 |}).
  change builder_new with (st_abs s0).
  replace bs with (Gen.SszDecoderBuilder_bytes s0) by reflexivity.
  reg_step2 s0 true 2. rewrite <- Es, <- Eb.
  reg_step2 s false 4. rewrite <- Es0, <- Eb0.
  build_step s1.
  cbn [decode_all].
  change (fun b : bytes => Gen.vec_from_ssz_bytes true 1 Gen.u8_from_ssz_bytes b) with d_vec_u8.
  dec_step2 its Gen.u16_from_ssz_bytes (TUint 2) VUint gen_u16_from_ssz_bytes_eq.
  dec_step2 itm d_vec_u8 (TList (TUint 1)) v_list d_vec_u8_eq.
  split; [reflexivity|]. intros r Hr. injection Hr as <-. reflexivity.
Qed.

(** ** [WrapSkip]: a transparent struct with a skipped field next to the wrapped one *)
Definition T_WrapSkip : ty := TWrap (TUint 4).
Definition v_WrapSkip (w : GenD.WrapSkip) : val := VUint (GenD.WrapSkip_inner w).

Theorem derive_WrapSkip_metadata :
  GenD.WrapSkip_enc_is_ssz_fixed_len = Ok (e_is_fixed T_WrapSkip) /\ GenD.WrapSkip_enc_ssz_fixed_len = Ok (e_fixed_len T_WrapSkip) /\
  GenD.WrapSkip_dec_is_ssz_fixed_len = Ok (d_is_fixed T_WrapSkip) /\ GenD.WrapSkip_dec_ssz_fixed_len = Ok (d_fixed_len T_WrapSkip).
Proof. repeat split; vm_compute; reflexivity. Qed.
Theorem derive_WrapSkip_ssz_append w buf : GenD.WrapSkip_ssz_append w buf = Ok (append T_WrapSkip (v_WrapSkip w) buf).
Proof. reflexivity. Qed.
Theorem derive_WrapSkip_ssz_bytes_len w : GenD.WrapSkip_ssz_bytes_len w = Ok (bytes_len T_WrapSkip (v_WrapSkip w)).
Proof. reflexivity. Qed.
Theorem derive_WrapSkip_from_ssz_bytes bs :
  omap v_WrapSkip (GenD.WrapSkip_from_ssz_bytes bs) = dec T_WrapSkip bs /\
  (forall w, GenD.WrapSkip_from_ssz_bytes bs = Ok w -> GenD.WrapSkip_tag w = 0).
Proof.
  unfold GenD.WrapSkip_from_ssz_bytes, T_WrapSkip. change (dec (TWrap (TUint 4)) bs) with (dec (TUint 4) bs). rewrite <- (gen_u32_from_ssz_bytes_eq bs).
  destruct (Gen.u32_from_ssz_bytes bs) as [x| |]; cbn [bind omap]; close2.
  split; [reflexivity|]. intros w Hw. injection Hw as <-. reflexivity.
Qed.

(** ** [Fixed3]: an all-fixed container with a [bool] and a byte array *)
Definition T_Fixed3 : ty := TContainer true [TBool; TBytesN 4; TUint 8].
Definition v_Fixed3 (r : GenD.Fixed3) : val := VCont [VBool (GenD.Fixed3_a r); VBytes (GenD.Fixed3_b r); VUint (GenD.Fixed3_c r)].

Theorem derive_Fixed3_metadata :
  GenD.Fixed3_enc_is_ssz_fixed_len = Ok (e_is_fixed T_Fixed3) /\ GenD.Fixed3_enc_ssz_fixed_len = Ok (e_fixed_len T_Fixed3) /\
  GenD.Fixed3_dec_is_ssz_fixed_len = Ok (d_is_fixed T_Fixed3) /\ GenD.Fixed3_dec_ssz_fixed_len = Ok (d_fixed_len T_Fixed3).
Proof. repeat split; vm_compute; reflexivity. Qed.

Theorem derive_Fixed3_ssz_append r buf :
  GenD.Fixed3_ssz_append r buf = Ok (append T_Fixed3 (v_Fixed3 r) buf).
Proof.
  unfold GenD.Fixed3_ssz_append. destruct r as [[|] b c]; cbn; unfold enc_run, enc_container, enc_append, enc_finalize; cbn;
  rewrite app_nil_r; reflexivity.
Qed.

Theorem derive_Fixed3_ssz_bytes_len r :
  GenD.Fixed3_ssz_bytes_len r = Ok (bytes_len T_Fixed3 (v_Fixed3 r)).
Proof. reflexivity. Qed.

Theorem derive_Fixed3_from_ssz_bytes bs :
  omap v_Fixed3 (GenD.Fixed3_from_ssz_bytes bs) = dec T_Fixed3 bs.
Proof.
  unfold GenD.Fixed3_from_ssz_bytes.
  change GenD.Fixed3_dec_is_ssz_fixed_len with (Ok true : outcome bool).
  change GenD.Fixed3_dec_ssz_fixed_len with (Ok 13 : outcome N).
  change (Gen.array_dec_ssz_fixed_len 4) with (Ok 4 : outcome N). leaf_meta.
  cbn [bind]. rewrite llen_len.
  unfold T_Fixed3. rewrite dec_container.
  change (true && forallb d_is_fixed [TBool; TBytesN 4; TUint 8]) with true. cbv iota.
  change (sumN (map d_fixed_len [TBool; TBytesN 4; TUint 8])) with 13.
  destruct (len bs =? 13); cbn [negb omap]; [|reflexivity].
  cbn [map split_dec]. change (d_fixed_len TBool) with 1. change (d_fixed_len (TBytesN 4)) with 4. change (d_fixed_len (TUint 8)) with 8.
  rewrite split_at_n_eq.
  destruct (split_at bs 1) as [[s1 r1]| |]; cbn [bind fst snd omap]; try reflexivity.
  rewrite <- (gen_bool_from_ssz_bytes_eq s1).
  destruct (Gen.bool_from_ssz_bytes s1) as [a| |]; cbn [bind omap]; try reflexivity.
  rewrite split_at_n_eq.
  destruct (split_at r1 4) as [[s2 r2]| |]; cbn [bind fst snd omap]; try reflexivity.
  rewrite <- (gen_array_from_ssz_bytes_eq 4 s2). change (N.of_nat 4) with 4.
  destruct (Gen.array_from_ssz_bytes 4 s2) as [b| |]; cbn [bind omap]; try reflexivity.
  rewrite split_at_n_eq.
  destruct (split_at r2 8) as [[s3 r3]| |]; cbn [bind fst snd omap]; try reflexivity.
  rewrite <- (gen_u64_from_ssz_bytes_eq s3).
  destruct (Gen.u64_from_ssz_bytes s3) as [c| |]; reflexivity.
Qed.

(** ** [TE]: a transparent enum (Encode only): the bytes of the variant's payload, nothing else *)
Definition T_TE : ty := TTransEnum [TList (TUint 1); TList (TUint 2)].
Definition v_TE (u : GenD.TE) : val :=
  match u with GenD.TE_A x => VUnion 0 (v_list x) | GenD.TE_B x => VUnion 1 (v_list x) end.

Theorem derive_TE_metadata : GenD.TE_enc_is_ssz_fixed_len = Ok (e_is_fixed T_TE).
Proof. vm_compute. reflexivity. Qed.

Theorem derive_TE_ssz_append u buf :
  (match u with GenD.TE_A x => llen x <= usize_max | GenD.TE_B x => 2 * llen x <= usize_max end) ->
  GenD.TE_ssz_append u buf = Ok (append T_TE (v_TE u) buf).
Proof.
  intro H. destruct u as [x|x]; unfold GenD.TE_ssz_append; leaf_meta; cbn [bind].
  - rewrite vec_u8_append by exact H. reflexivity.
  - rewrite vec_u16_append by exact H. reflexivity.
Qed.
Theorem derive_TE_ssz_bytes_len u :
  (match u with GenD.TE_A x => llen x <= usize_max | GenD.TE_B x => 2 * llen x <= usize_max end) ->
  GenD.TE_ssz_bytes_len u = Ok (bytes_len T_TE (v_TE u)).
Proof.
  intro H. destruct u as [x|x]; unfold GenD.TE_ssz_bytes_len; leaf_meta; cbn [bind].
  - rewrite vec_u8_bytes_len by exact H. reflexivity.
  - rewrite vec_u16_bytes_len by exact H. reflexivity.
Qed.

(** ** [Outer]: user types as fields (a fixed container, a variable container and a union) *)
Definition T_Outer : ty := TContainer true [T_FixedPair; T_Mixed; T_U2].
Definition v_Outer (r : GenD.Outer) : val := VCont [v_FixedPair (GenD.Outer_x r); v_Mixed (GenD.Outer_y r); v_U2 (GenD.Outer_z r)].

Theorem derive_Outer_metadata :
  GenD.Outer_enc_is_ssz_fixed_len = Ok (e_is_fixed T_Outer) /\ GenD.Outer_enc_ssz_fixed_len = Ok (e_fixed_len T_Outer) /\
  GenD.Outer_dec_is_ssz_fixed_len = Ok (d_is_fixed T_Outer) /\ GenD.Outer_dec_ssz_fixed_len = Ok (d_fixed_len T_Outer).
Proof. repeat split; vm_compute; reflexivity. Qed.

Ltac user_meta :=
  change GenD.FixedPair_enc_is_ssz_fixed_len with (Ok true : outcome bool) in *;
  change GenD.FixedPair_enc_ssz_fixed_len with (Ok 3 : outcome N) in *;
  change GenD.FixedPair_dec_is_ssz_fixed_len with (Ok true : outcome bool) in *;
  change GenD.FixedPair_dec_ssz_fixed_len with (Ok 3 : outcome N) in *;
  change GenD.Mixed_enc_is_ssz_fixed_len with (Ok false : outcome bool) in *;
  change GenD.Mixed_enc_ssz_fixed_len with (Ok 4 : outcome N) in *;
  change GenD.Mixed_dec_is_ssz_fixed_len with (Ok false : outcome bool) in *;
  change GenD.Mixed_dec_ssz_fixed_len with (Ok 4 : outcome N) in *;
  change GenD.U2_enc_is_ssz_fixed_len with (Ok false : outcome bool) in *;
  change GenD.U2_dec_is_ssz_fixed_len with (Ok false : outcome bool) in *.

Theorem derive_Outer_ssz_append r buf :
  14 + llen (GenD.Mixed_b (GenD.Outer_y r)) + 2 * llen (GenD.Mixed_d (GenD.Outer_y r)) <= usize_max ->
  (match GenD.Outer_z r with GenD.U2_B x => llen x <= usize_max | _ => True end) ->
  11 + llen (append T_Mixed (v_Mixed (GenD.Outer_y r)) []) <= usize_max ->
  GenD.Outer_ssz_append r buf = Ok (append T_Outer (v_Outer r) buf).
Proof.
  intros H1 H2 H3. destruct r as [x y z]. cbn [GenD.Outer_x GenD.Outer_y GenD.Outer_z] in *.
  unfold GenD.Outer_ssz_append. cbn [GenD.Outer_x GenD.Outer_y GenD.Outer_z]. user_meta. leaf_meta.
  cbn [bind]. change (unwrap_or_panic (checked_add 0 3)) with (Ok 3 : outcome N). cbn [bind].
  change (unwrap_or_panic (checked_add 3 4)) with (Ok 7 : outcome N). cbn [bind].
  change (unwrap_or_panic (checked_add 7 4)) with (Ok 11 : outcome N). cbn [bind].
  unfold Gen.encoder_container. cbn [bind].
  unfold Gen.encoder_append_item, Gen.encoder_append. enc_fields.
  rewrite derive_FixedPair_ssz_append. enc_fields.
  change (llen (@nil N)) with 0. change (usize_add 11 0) with (Ok 11 : outcome N). cbn [bind].
  rewrite gen_encode_length_eq. cbn [bind].
  rewrite (derive_Mixed_ssz_append y []) by exact H1. enc_fields.
  unfold usize_add. destruct (11 + llen (append T_Mixed (v_Mixed y) []) <=? usize_max) eqn:E; [|apply N.leb_gt in E; lia]. cbn [bind].
  rewrite gen_encode_length_eq. cbn [bind].
  rewrite (derive_U2_ssz_append z) by exact H2. enc_fields.
  unfold Gen.encoder_finalize. enc_fields.
  reflexivity.
Qed.

Theorem derive_Outer_ssz_bytes_len r :
  14 + llen (GenD.Mixed_b (GenD.Outer_y r)) + 2 * llen (GenD.Mixed_d (GenD.Outer_y r)) <= usize_max ->
  (match GenD.Outer_z r with GenD.U2_B x => llen x < usize_max | _ => True end) ->
  11 + bytes_len T_Mixed (v_Mixed (GenD.Outer_y r)) + bytes_len T_U2 (v_U2 (GenD.Outer_z r)) <= usize_max ->
  GenD.Outer_ssz_bytes_len r = Ok (bytes_len T_Outer (v_Outer r)).
Proof.
  intros H1 H2 H3. destruct r as [x y z]. cbn [GenD.Outer_x GenD.Outer_y GenD.Outer_z] in *.
  unfold GenD.Outer_ssz_bytes_len. cbn [GenD.Outer_x GenD.Outer_y GenD.Outer_z].
  change GenD.Outer_enc_is_ssz_fixed_len with (Ok false : outcome bool). user_meta. leaf_meta.
  cbn [bind]. change (unwrap_or_panic (checked_add 0 3)) with (Ok 3 : outcome N). cbn [bind].
  rewrite gen_BYTES_PER_LENGTH_OFFSET. unfold BYTES_PER_LENGTH_OFFSET.
  change (unwrap_or_panic (checked_add 3 4)) with (Ok 7 : outcome N). cbn [bind].
  rewrite (derive_Mixed_ssz_bytes_len y) by exact H1. cbn [bind].
  set (LY := bytes_len T_Mixed (v_Mixed y)) in *.
  rewrite (derive_U2_ssz_bytes_len z) by exact H2.
  set (LZ := bytes_len T_U2 (v_U2 z)) in *.
  unfold checked_add at 1. destruct (7 + LY <=? usize_max) eqn:E1; [|apply N.leb_gt in E1; lia]. cbn [unwrap_or_panic bind].
  unfold checked_add at 1. destruct (7 + LY + 4 <=? usize_max) eqn:E2; [|apply N.leb_gt in E2; lia]. cbn [unwrap_or_panic bind].
  unfold checked_add at 1. destruct (7 + LY + 4 + LZ <=? usize_max) eqn:E3; [|apply N.leb_gt in E3; lia]. cbn [unwrap_or_panic bind].
  f_equal. unfold T_Outer, v_Outer. cbn [GenD.Outer_x GenD.Outer_y GenD.Outer_z].
  rewrite bytes_len_container.
  change (forallb e_is_fixed [T_FixedPair; T_Mixed; T_U2]) with false. cbv iota.
  cbn [combine map sumN fst snd]. unfold field_len.
  change (e_is_fixed T_FixedPair) with true. change (e_is_fixed T_Mixed) with false. change (e_is_fixed T_U2) with false.
  change (e_fixed_len T_FixedPair) with 3. cbv iota. fold LY LZ. unfold BYTES_PER_LENGTH_OFFSET. lia.
Qed.

Theorem derive_Outer_from_ssz_bytes bs :
  omap v_Outer (GenD.Outer_from_ssz_bytes bs) = dec T_Outer bs.
Proof.
  unfold GenD.Outer_from_ssz_bytes.
  change GenD.Outer_dec_is_ssz_fixed_len with (Ok false : outcome bool). user_meta. leaf_meta.
  cbn [bind]. unfold Gen.builder_new. cbn [bind].
  unfold T_Outer. rewrite dec_container.
  change (true && forallb d_is_fixed [T_FixedPair; T_Mixed; T_U2]) with false. cbv iota.
  unfold regs_of. cbn [map].
  change (d_is_fixed T_FixedPair) with true. change (d_is_fixed T_Mixed) with false. change (d_is_fixed T_U2) with false.
  change (d_fixed_len T_FixedPair) with 3. change (d_fixed_len T_Mixed) with 4. change (d_fixed_len T_U2) with 4.
  cbv iota. unfold BYTES_PER_LENGTH_OFFSET.
  unfold builder_build. cbn [register_all].
  set (s0 := {| Gen.SszDecoderBuilder_bytes := bs; Gen.SszDecoderBuilder_items := []; Gen.SszDecoderBuilder_offsets := []; Gen.SszDecoderBuilder_items_index := 0 |}).
  change builder_new with (st_abs s0).
  replace bs with (Gen.SszDecoderBuilder_bytes s0) by reflexivity.
  reg_step2 s0 true 3. rewrite <- Es, <- Eb.
  reg_step2 s false 4. rewrite <- Es0, <- Eb0.
  reg_step2 s1 false 4. rewrite <- Es1, <- Eb1.
  build_step s2.
  cbn [decode_all].
  dec_step2 its GenD.FixedPair_from_ssz_bytes T_FixedPair v_FixedPair derive_FixedPair_from_ssz_bytes.
  dec_step2 itm GenD.Mixed_from_ssz_bytes T_Mixed v_Mixed derive_Mixed_from_ssz_bytes.
  dec_step2 itm0 GenD.U2_from_ssz_bytes T_U2 v_U2 derive_U2_from_ssz_bytes.
  reflexivity.
Qed.

Print Assumptions derive2_metadata.
Print Assumptions derive_Skip_ssz_append.
Print Assumptions derive_Skip_ssz_bytes_len.
Print Assumptions derive_Skip_from_ssz_bytes.
Print Assumptions derive_WrapSkip_from_ssz_bytes.
Print Assumptions derive_Fixed3_ssz_append.
Print Assumptions derive_Fixed3_from_ssz_bytes.
Print Assumptions derive_TE_ssz_append.
Print Assumptions derive_TE_ssz_bytes_len.
Print Assumptions derive_Outer_ssz_append.
Print Assumptions derive_Outer_ssz_bytes_len.
Print Assumptions derive_Outer_from_ssz_bytes.

(** decoding a transparent enum: the first variant whose decoder accepts (a panic of a variant's decoder is a panic) *)
Theorem derive_TE_from_ssz_bytes bs : omap v_TE (GenD.TE_from_ssz_bytes bs) = dec T_TE bs.
Proof.
  unfold GenD.TE_from_ssz_bytes, T_TE. rewrite dec_trans. cbn [map first_ok]. leaf_meta. cbn [bind].
  change (8 / 8) with 1. change (16 / 8) with 2.
  change (Gen.vec_from_ssz_bytes true 1 Gen.u8_from_ssz_bytes bs) with (d_vec_u8 bs).
  change (Gen.vec_from_ssz_bytes true 2 Gen.u16_from_ssz_bytes bs) with (d_vec_u16 bs).
  rewrite <- (d_vec_u8_eq bs), <- (d_vec_u16_eq bs).
  destruct (d_vec_u8 bs) as [l| |]; cbn [omap]; try reflexivity.
  destruct (d_vec_u16 bs) as [l| |]; reflexivity.
Qed.
Print Assumptions derive_TE_from_ssz_bytes.
