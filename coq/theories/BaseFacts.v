(** * Facts about little-endian words, slicing and chunks. *)
From SSZ Require Import Base.
From Coq Require Import ZArith ZifyN ZifyNat ZifyBool.
Open Scope N_scope.
Ltac Zify.zify_post_hook ::= Z.div_mod_to_equations.

Lemma len_nil : len [] = 0. Proof. reflexivity. Qed.
Lemma len_cons x (l : bytes) : len (x :: l) = len l + 1.
Proof. unfold len. cbn [length]. lia. Qed.
Lemma len_app (a b : bytes) : len (a ++ b) = len a + len b.
Proof. unfold len. rewrite app_length. lia. Qed.

Lemma wfbb_wfb bs : wfbb bs = true <-> wfb bs.
Proof.
  unfold wfbb, wfb. rewrite forallb_forall, Forall_forall.
  split; intros H x Hx; specialize (H x Hx); lia.
Qed.

Lemma wfb_app a b : wfb (a ++ b) <-> wfb a /\ wfb b.
Proof. unfold wfb. apply Forall_app. Qed.


Lemma In_firstn_in {A} (n : nat) (l : list A) x : In x (firstn n l) -> In x l.
Proof.
  revert l; induction n as [|n IH]; intros [|y l]; cbn; try tauto.
  intros [->|H]; auto.
Qed.
Lemma In_skipn_in {A} (n : nat) (l : list A) x : In x (skipn n l) -> In x l.
Proof.
  revert l; induction n as [|n IH]; intros [|y l]; cbn; try tauto.
  intros H; right; auto.
Qed.
Lemma wfb_firstn n bs : wfb bs -> wfb (firstn n bs).
Proof. unfold wfb. rewrite !Forall_forall. intros H x Hx. apply H. eapply In_firstn_in; eauto. Qed.
Lemma wfb_skipn n bs : wfb bs -> wfb (skipn n bs).
Proof. unfold wfb. rewrite !Forall_forall. intros H x Hx. apply H. eapply In_skipn_in; eauto. Qed.
Lemma wfb_take n bs : wfb bs -> wfb (take n bs).
Proof. apply wfb_firstn. Qed.
Lemma wfb_drop n bs : wfb bs -> wfb (drop n bs).
Proof. apply wfb_skipn. Qed.

(** ** le_bytes / le_val *)
Lemma le_bytes_length k n : length (le_bytes k n) = k.
Proof. revert n; induction k as [|k IH]; intros n; cbn [le_bytes length]; auto. Qed.

Lemma wfb_le_bytes k n : wfb (le_bytes k n).
Proof.
  revert n; induction k as [|k IH]; intros n; cbn [le_bytes]; [constructor|].
  constructor; [apply N.mod_lt; lia | apply IH].
Qed.

Lemma le_val_le_bytes k n : n < 256 ^ N.of_nat k -> le_val (le_bytes k n) = n.
Proof.
  revert n; induction k as [|k IH]; intros n Hn.
  - cbn in *. lia.
  - cbn [le_bytes le_val]. rewrite IH.
    + pose proof (N.div_mod n 256). lia.
    + rewrite Nat2N.inj_succ, N.pow_succ_r' in Hn.
      apply N.div_lt_upper_bound; lia.
Qed.

Lemma le_val_bound bs : wfb bs -> le_val bs < 256 ^ N.of_nat (length bs).
Proof.
  induction 1 as [|b bs Hb _ IH]; cbn [le_val length].
  - cbn. lia.
  - rewrite Nat2N.inj_succ, N.pow_succ_r'. nia.
Qed.

Lemma le_bytes_le_val bs : wfb bs -> le_bytes (length bs) (le_val bs) = bs.
Proof.
  induction 1 as [|b bs Hb _ IH]; cbn [le_val length le_bytes]; auto.
  f_equal.
  - replace (b + 256 * le_val bs) with (b + le_val bs * 256) by lia.
    rewrite N.mod_add by lia. apply N.mod_small; auto.
  - replace (b + 256 * le_val bs) with (le_val bs * 256 + b) by lia.
    rewrite N.div_add_l by lia. rewrite (N.div_small b 256) by auto.
    rewrite N.add_0_r. exact IH.
Qed.

Lemma le_bytes_inj k a b :
  a < 256 ^ N.of_nat k -> b < 256 ^ N.of_nat k -> le_bytes k a = le_bytes k b -> a = b.
Proof.
  intros Ha Hb H. rewrite <- (le_val_le_bytes k a Ha), <- (le_val_le_bytes k b Hb). now rewrite H.
Qed.

(** ** take / drop / ranges *)
Lemma take_drop n (bs : bytes) : take n bs ++ drop n bs = bs.
Proof. apply firstn_skipn. Qed.

Lemma len_take n bs : n <= len bs -> len (take n bs) = n.
Proof. unfold len, take. intros H. rewrite firstn_length. lia. Qed.
Lemma len_drop n bs : len (drop n bs) = len bs - n.
Proof. unfold len, drop. rewrite skipn_length. lia. Qed.

Lemma take_app_exact (a b : bytes) : take (len a) (a ++ b) = a.
Proof.
  unfold take, len. rewrite Nat2N.id.
  rewrite firstn_app, Nat.sub_diag, firstn_all. cbn. apply app_nil_r.
Qed.
Lemma drop_app_exact (a b : bytes) : drop (len a) (a ++ b) = b.
Proof.
  unfold drop, len. rewrite Nat2N.id.
  rewrite skipn_app, Nat.sub_diag, skipn_all. reflexivity.
Qed.

Lemma drop_0 (bs : bytes) : drop 0 bs = bs. Proof. reflexivity. Qed.
Lemma take_all (bs : bytes) : take (len bs) bs = bs.
Proof. unfold take, len. rewrite Nat2N.id. apply firstn_all. Qed.
Lemma drop_all (bs : bytes) : drop (len bs) bs = [].
Proof. unfold drop, len. rewrite Nat2N.id. apply skipn_all. Qed.

Lemma skipn_skipn' {A} (x y : nat) (l : list A) : skipn x (skipn y l) = skipn (y + x) l.
Proof.
  revert l; induction y as [|y IH]; intros l; cbn [skipn Nat.add]; [reflexivity|].
  destruct l as [|z l]; [destruct x; reflexivity|]. apply IH.
Qed.
Lemma drop_drop a b (bs : bytes) : drop a (drop b bs) = drop (b + a) bs.
Proof.
  unfold drop. rewrite skipn_skipn'. f_equal. lia.
Qed.

Lemma get_range_some bs a b s :
  get_range bs a b = Some s <-> (a <= b /\ b <= len bs /\ s = take (b - a) (drop a bs)).
Proof.
  unfold get_range.
  destruct (a <=? b) eqn:E1; destruct (b <=? len bs) eqn:E2; cbn [andb];
    split; try discriminate; try (intros [? [? ?]]; lia).
  - intros [= <-]. repeat split; lia.
  - intros [_ [_ ->]]. reflexivity.
Qed.

Lemma get_from_some bs a s : get_from bs a = Some s <-> (a <= len bs /\ s = drop a bs).
Proof.
  unfold get_from. destruct (a <=? len bs) eqn:E; split; try discriminate.
  - intros [= <-]. split; [lia|reflexivity].
  - intros [_ ->]. reflexivity.
  - intros [? _]. lia.
Qed.

(** ** chunks *)
Lemma chunks_fuel_concat fuel n bs :
  (0 < n)%nat -> (length bs <= fuel)%nat -> concat (chunks_fuel fuel n bs) = bs.
Proof.
  intros Hn. revert bs. induction fuel as [|f IH]; intros bs Hl.
  - destruct bs; cbn in *; [reflexivity|lia].
  - destruct bs as [|b bs]; [reflexivity|].
    cbn [chunks_fuel concat]. rewrite IH.
    + apply firstn_skipn.
    + rewrite skipn_length. cbn [length] in *. lia.
Qed.
Lemma chunks_concat n bs : (0 < n)%nat -> concat (chunks n bs) = bs.
Proof. intros. apply chunks_fuel_concat; auto. Qed.
