(** * ListViewFacts: decoding by collection, at every depth.
    [dec t] is [dec (list_view t)] followed by [collect_rec t]: the bytes a type with sets / maps inside accepts
    are exactly the bytes its entry-list view accepts, and the value is the collection of the listed entries
    (collected innermost first).  C19's theorems state this for one level; this is the general form, which the
    direct oracle for maps and sets relies on when an entry itself holds a set or a map. *)
From SSZ Require Import Base Offsets Builder Types Codec CodecUnfold ListView.
From Coq Require Import List ZArith Lia Bool.
Import ListNotations.
Open Scope N_scope.

(** ** [omap] / [mapM] / the list decoders are functorial *)
Lemma omap_id {A} (o : outcome A) : omap (fun x => x) o = o.
Proof. destruct o; reflexivity. Qed.
Lemma omap_omap {A B C} (f : A -> B) (g : B -> C) (o : outcome A) : omap g (omap f o) = omap (fun x => g (f x)) o.
Proof. destruct o; reflexivity. Qed.
Lemma omap_ext {A B} (f g : A -> B) (o : outcome A) : (forall x, f x = g x) -> omap f o = omap g o.
Proof. intro H. destruct o; cbn [omap]; [rewrite H|..]; reflexivity. Qed.

Lemma mapM_ext' {A B} (f g : A -> outcome B) l : (forall x, f x = g x) -> mapM f l = mapM g l.
Proof. intro H. induction l as [|x r IH]; cbn [mapM]; [reflexivity|]. rewrite H, IH. reflexivity. Qed.
Lemma mapM_omap' {A B C} (d : A -> outcome B) (g : B -> C) l :
  mapM (fun s => omap g (d s)) l = omap (map g) (mapM d l).
Proof.
  induction l as [|x r IH]; cbn [mapM]; [reflexivity|].
  destruct (d x) as [y| |]; cbn [omap bind]; try reflexivity.
  rewrite IH. destruct (mapM d r); reflexivity.
Qed.

Lemma lv_items_ext {A} (d d' : bytes -> outcome A) bs first num : (forall s, d s = d' s) -> forall fuel i off,
  lv_items d bs first num fuel i off = lv_items d' bs first num fuel i off.
Proof.
  intro H. induction fuel as [|fuel IH]; intros i off; cbn [lv_items]; [reflexivity|].
  match goal with |- context [match ?X with Ok _ => _ | Err => _ | Panic => _ end] => destruct X as [[s off']| |] end; try reflexivity.
  rewrite H, IH. reflexivity.
Qed.
Lemma lv_items_omap' {A B} (d : bytes -> outcome A) (g : A -> B) bs first num : forall fuel i off,
  lv_items (fun s => omap g (d s)) bs first num fuel i off
  = (omap (map g) (fst (lv_items d bs first num fuel i off)), snd (lv_items d bs first num fuel i off)).
Proof.
  induction fuel as [|fuel IH]; intros i off; cbn [lv_items]; [reflexivity|].
  match goal with |- context [match ?X with Ok _ => _ | Err => _ | Panic => _ end] => destruct X as [[s off']| |] end; try reflexivity.
  destruct (d s) as [x| |]; cbn [omap]; try reflexivity.
  rewrite IH. cbn [fst snd]. destruct (fst (lv_items d bs first num fuel (i + 1) off')); reflexivity.
Qed.
Lemma decode_list_var_ext {A} (d d' : bytes -> outcome A) c bs mx : (forall s, d s = d' s) ->
  decode_list_var d c bs mx = decode_list_var d' c bs mx.
Proof.
  intro H. unfold decode_list_var, decode_list_var_full. destruct bs as [|b0 br]; [reflexivity|].
  destruct (read_offset (b0 :: br)) as [first| |]; try reflexivity.
  destruct (sanitize_offset first None (len (b0 :: br)) (Some first)); try reflexivity.
  destruct (negb (first mod BYTES_PER_LENGTH_OFFSET =? 0) || (first <? BYTES_PER_LENGTH_OFFSET)); [reflexivity|].
  destruct (is_some_and mx _); [reflexivity|]. rewrite (lv_items_ext d d' _ _ _ H). reflexivity.
Qed.
Lemma decode_list_var_omap' {A B} (d : bytes -> outcome A) (g : A -> B) bs mx :
  decode_list_var (fun s => omap g (d s)) CVec bs mx = omap (map g) (decode_list_var d CVec bs mx).
Proof.
  unfold decode_list_var, decode_list_var_full. destruct bs as [|b0 br]; [reflexivity|].
  destruct (read_offset (b0 :: br)) as [first| |]; try reflexivity.
  destruct (sanitize_offset first None (len (b0 :: br)) (Some first)); try reflexivity.
  destruct (negb (first mod BYTES_PER_LENGTH_OFFSET =? 0) || (first <? BYTES_PER_LENGTH_OFFSET)); [reflexivity|].
  destruct (is_some_and mx _); [reflexivity|]. cbn [fst]. rewrite lv_items_omap'. cbn [fst].
  destruct (fst (lv_items d (b0 :: br) first (first / BYTES_PER_LENGTH_OFFSET) _ 1 first)); reflexivity.
Qed.

Lemma dec_seq_ext {A} f l (d d' : bytes -> outcome A) bs : (forall s, d s = d' s) -> dec_seq f l d bs = dec_seq f l d' bs.
Proof.
  intro H. unfold dec_seq. destruct bs as [|b0 br]; [reflexivity|]. destruct f.
  - destruct (l =? 0); [reflexivity|]. apply mapM_ext'. exact H.
  - apply decode_list_var_ext. exact H.
Qed.
Lemma dec_seq_omap {A B} f l (d : bytes -> outcome A) (g : A -> B) bs :
  dec_seq f l (fun s => omap g (d s)) bs = omap (map g) (dec_seq f l d bs).
Proof.
  unfold dec_seq. destruct bs as [|b0 br]; [reflexivity|]. destruct f.
  - destruct (l =? 0); [reflexivity|]. apply mapM_omap'.
  - apply decode_list_var_omap'.
Qed.
(** the form the main proof uses: a decoder that is pointwise [omap g] of another *)
Lemma dec_seq_collect {A B} f l (d : bytes -> outcome B) (d' : bytes -> outcome A) (g : A -> B) bs :
  (forall s, d s = omap g (d' s)) -> dec_seq f l d bs = omap (map g) (dec_seq f l d' bs).
Proof. intro H. rewrite (dec_seq_ext f l d (fun s => omap g (d' s)) bs H). apply dec_seq_omap. Qed.

(** ** the view keeps the size metadata: sets, maps and lists are all variable-size *)
Lemma list_view_meta t : d_is_fixed (list_view t) = d_is_fixed t /\ d_fixed_len (list_view t) = d_fixed_len t.
Proof.
  induction t using ty_ind'; try (split; reflexivity); try (cbn [list_view d_is_fixed d_fixed_len]; split; reflexivity).
  - (* container *)
    cbn [list_view]. rewrite !d_is_fixed_container, !d_fixed_len_container.
    assert (Hf : forallb d_is_fixed (map list_view fs) = forallb d_is_fixed fs).
    { induction H as [|f r [Hf _] _ IH]; cbn [map forallb]; [reflexivity|]. rewrite Hf, IH. reflexivity. }
    assert (Hl : map d_fixed_len (map list_view fs) = map d_fixed_len fs).
    { clear - H. induction H as [|f r [_ Hl] _ IH]; cbn [map]; [reflexivity|]. rewrite Hl, IH. reflexivity. }
    rewrite Hf, Hl. split; reflexivity.
  - (* wrap *) cbn [list_view d_is_fixed d_fixed_len]. exact IHt.
Qed.

Lemma regs_of_list_view fs : regs_of (map list_view fs) = regs_of fs.
Proof.
  unfold regs_of. induction fs as [|f r IH]; cbn [map]; [reflexivity|].
  destruct (list_view_meta f) as [-> ->]. rewrite IH. reflexivity.
Qed.

(** ** containers *)
Fixpoint collect_fields (fs : list ty) (vs : list val) : list val :=
  match fs, vs with
  | f :: fr, x :: xr => collect_rec f x :: collect_fields fr xr
  | _, _ => vs
  end.
Lemma collect_rec_container d fs vs : collect_rec (TContainer d fs) (VCont vs) = VCont (collect_fields fs vs).
Proof.
  reflexivity.
Qed.

Definition DecView (t : ty) : Prop := forall bs, dec t bs = omap (collect_rec t) (dec (list_view t) bs).

Lemma decode_all_collect fs : Forall DecView fs -> forall items,
  decode_all items (map dec fs) = omap (collect_fields fs) (decode_all items (map dec (map list_view fs))).
Proof.
  induction 1 as [|f r Hf _ IH]; intros items; cbn [map decode_all]; [reflexivity|].
  unfold decode_next. destruct items as [|s rest]; [reflexivity|].
  rewrite (Hf s). destruct (dec (list_view f) s) as [x| |]; cbn [omap bind fst snd]; try reflexivity.
  rewrite IH. destruct (decode_all rest (map dec (map list_view r))); reflexivity.
Qed.

Lemma split_dec_collect fs : Forall DecView fs -> forall bs,
  split_dec (map (fun f => (d_fixed_len f, dec f)) fs) bs
  = omap (collect_fields fs) (split_dec (map (fun f => (d_fixed_len f, dec f)) (map list_view fs)) bs).
Proof.
  induction 1 as [|f r Hf _ IH]; intros bs; cbn [map split_dec]; [reflexivity|].
  destruct (list_view_meta f) as [_ ->].
  destruct (split_at bs (d_fixed_len f)) as [[a b]| |]; cbn [bind fst snd omap]; try reflexivity.
  rewrite (Hf a). destruct (dec (list_view f) a) as [x| |]; cbn [omap bind]; try reflexivity.
  rewrite IH. destruct (split_dec _ b); reflexivity.
Qed.

(** ** unions and transparent enums *)
Fixpoint collect_pick (ts : list ty) (j : nat) (x : val) : val :=
  match ts, j with
  | t' :: _, O => collect_rec t' x
  | _ :: r, S j' => collect_pick r j' x
  | [], _ => x
  end.
Lemma collect_rec_union ts i x : collect_rec (TUnion ts) (VUnion i x) = VUnion i (collect_pick ts i x).
Proof. cbn [collect_rec]. f_equal. revert i. induction ts as [|t r IH]; intros [|i]; cbn [collect_pick]; try reflexivity. apply IH. Qed.
Lemma collect_rec_trans ts i x : collect_rec (TTransEnum ts) (VUnion i x) = VUnion i (collect_pick ts i x).
Proof. cbn [collect_rec]. f_equal. revert i. induction ts as [|t r IH]; intros [|i]; cbn [collect_pick]; try reflexivity. apply IH. Qed.

Lemma first_ok_collect ts : Forall DecView ts -> forall bs pre,
  first_ok (map dec ts) bs (length pre)
  = omap (collect_rec (TTransEnum (pre ++ ts))) (first_ok (map dec (map list_view ts)) bs (length pre)).
Proof.
  induction 1 as [|t r Ht _ IH]; intros bs pre; cbn [map first_ok]; [reflexivity|].
  rewrite (Ht bs). destruct (dec (list_view t) bs) as [x| |]; cbn [omap]; try reflexivity.
  - rewrite collect_rec_trans. f_equal. f_equal.
    clear. induction pre as [|p pr IHp]; cbn [app length collect_pick]; [reflexivity|exact IHp].
  - specialize (IH bs (pre ++ [t])). rewrite app_length in IH. cbn [length] in IH.
    replace (length pre + 1)%nat with (S (length pre)) in IH by lia. rewrite IH.
    rewrite <- app_assoc. reflexivity.
Qed.

Lemma dec_list a bs : dec (TList a) bs = omap VList (dec_seq (d_is_fixed a) (d_fixed_len a) (dec a) bs).
Proof. reflexivity. Qed.
Definition dec_entry (k w : ty) (s : bytes) : outcome val :=
  do items <- builder_build [(d_is_fixed k, d_fixed_len k); (d_is_fixed w, d_fixed_len w)] s;
  do xs <- decode_all items [dec k; dec w]; Ok (VCont xs).
Lemma dec_map k w bs :
  dec (TMap k w) bs =
  omap (fun l => VList (collect_entries true l))
    (dec_seq (d_is_fixed k && d_is_fixed w)
       (if d_is_fixed k && d_is_fixed w then d_fixed_len k + d_fixed_len w else BYTES_PER_LENGTH_OFFSET)
       (dec_entry k w) bs).
Proof. reflexivity. Qed.

(** ** the theorem *)
Theorem dec_by_collection t : DecView t.
Proof.
  induction t using ty_ind'; intro bs.
  - (* uint *) cbn [list_view collect_rec]. symmetry. apply omap_id.
  - cbn [list_view collect_rec]. symmetry. apply omap_id.
  - cbn [list_view collect_rec]. symmetry. apply omap_id.
  - cbn [list_view collect_rec]. symmetry. apply omap_id.
  - cbn [list_view collect_rec]. symmetry. apply omap_id.
  - (* list *)
    cbn [list_view dec]. destruct (list_view_meta t) as [-> ->].
    rewrite (dec_seq_collect _ _ (dec t) (dec (list_view t)) (collect_rec t) bs IHt).
    rewrite !omap_omap. apply omap_ext. intro l. reflexivity.
  - (* set *)
    cbn [list_view dec]. destruct (list_view_meta t) as [-> ->].
    rewrite (dec_seq_collect _ _ (dec t) (dec (list_view t)) (collect_rec t) bs IHt).
    rewrite !omap_omap. apply omap_ext. intro l. reflexivity.
  - (* map *)
    cbn [list_view]. rewrite dec_map, dec_list. rewrite d_is_fixed_container, d_fixed_len_container. cbn [forallb map sumN].
    destruct (list_view_meta t1) as [-> ->]. destruct (list_view_meta t2) as [-> ->].
    rewrite andb_true_r, N.add_0_r.
    rewrite (dec_seq_collect _ _ (dec_entry t1 t2) (dec (TContainer false [list_view t1; list_view t2]))
               (collect_entry (collect_rec t1) (collect_rec t2)) bs).
    + rewrite !omap_omap. apply omap_ext. intro l. reflexivity.
    + intro s. unfold dec_entry. rewrite dec_container. cbn [andb]. unfold regs_of. cbn [map].
      destruct (list_view_meta t1) as [-> ->]. destruct (list_view_meta t2) as [-> ->].
      destruct (builder_build _ s) as [items| |]; cbn [bind omap]; try reflexivity.
      cbn [decode_all]. unfold decode_next. destruct items as [|s1 rest]; [reflexivity|].
      rewrite (IHt1 s1). destruct (dec (list_view t1) s1) as [x| |]; cbn [omap bind fst snd]; try reflexivity.
      destruct rest as [|s2 rest']; [reflexivity|].
      rewrite (IHt2 s2). destruct (dec (list_view t2) s2) as [y| |]; cbn [omap bind fst snd]; reflexivity.
  - (* option *)
    cbn [list_view dec]. destruct (split_union_bytes bs) as [[sel body]| |]; cbn [bind omap]; try reflexivity.
    destruct (sel =? 0); [destruct body; reflexivity|]. destruct (sel =? 1); [|reflexivity].
    rewrite (IHt body), !omap_omap. apply omap_ext. intro x. reflexivity.
  - (* container *)
    cbn [list_view]. rewrite !dec_container.
    assert (Hf : forallb d_is_fixed (map list_view fs) = forallb d_is_fixed fs).
    { clear - fs. induction fs as [|f r IH]; cbn [map forallb]; [reflexivity|]. destruct (list_view_meta f) as [-> _]. rewrite IH. reflexivity. }
    assert (Hl : map d_fixed_len (map list_view fs) = map d_fixed_len fs).
    { clear - fs. induction fs as [|f r IH]; cbn [map]; [reflexivity|]. destruct (list_view_meta f) as [_ ->]. rewrite IH. reflexivity. }
    rewrite Hf, Hl, regs_of_list_view.
    destruct (d && forallb d_is_fixed fs).
    + destruct (negb (len bs =? sumN (map d_fixed_len fs))); [reflexivity|].
      rewrite (split_dec_collect fs H bs), !omap_omap. apply omap_ext. intro vs. reflexivity.
    + destruct (builder_build (regs_of fs) bs) as [items| |]; cbn [bind omap]; try reflexivity.
      rewrite (decode_all_collect fs H items), !omap_omap. apply omap_ext. intro vs. reflexivity.
  - (* union *)
    cbn [list_view]. rewrite !dec_union.
    destruct (split_union_bytes bs) as [[sel body]| |]; cbn [bind omap fst snd]; try reflexivity.
    generalize (N.to_nat sel) as j. intro j.
    assert (G : forall pre ts, Forall DecView ts -> forall i,
      match nth_error ts i with Some t => omap (VUnion (length pre + i)) (dec t body) | None => Err end
      = omap (collect_rec (TUnion (pre ++ ts)))
          match nth_error (map list_view ts) i with Some t => omap (VUnion (length pre + i)) (dec t body) | None => Err end).
    { intros pre ts0 Hts. revert pre. induction Hts as [|t r Ht _ IH]; intros pre [|i]; cbn [nth_error map]; try reflexivity.
      - rewrite (Ht body), !omap_omap. apply omap_ext. intro x. rewrite collect_rec_union. f_equal.
        rewrite Nat.add_0_r. clear. induction pre as [|p pr IHp]; cbn [app length collect_pick]; [reflexivity|exact IHp].
      - specialize (IH (pre ++ [t]) i). rewrite app_length in IH. cbn [length] in IH.
        replace (length pre + 1 + i)%nat with (length pre + S i)%nat in IH by lia. rewrite IH.
        rewrite <- app_assoc. reflexivity. }
    exact (G [] vs H j).
  - (* tag *) cbn [list_view collect_rec]. symmetry. apply omap_id.
  - (* transparent enum *)
    cbn [list_view]. rewrite !dec_trans. exact (first_ok_collect vs H bs []).
  - (* wrap *) cbn [list_view dec collect_rec]. apply IHt.
  - cbn [list_view collect_rec]. symmetry. apply omap_id.
  - cbn [list_view collect_rec]. symmetry. apply omap_id.
  - cbn [list_view collect_rec]. symmetry. apply omap_id.
  - (* legacy option *)
    cbn [list_view dec]. destruct (len bs <? BYTES_PER_LENGTH_OFFSET); [reflexivity|].
    destruct (split_at bs BYTES_PER_LENGTH_OFFSET) as [[a b]| |]; cbn [bind omap fst snd]; try reflexivity.
    destruct (read_offset a) as [index| |]; cbn [bind omap]; try reflexivity.
    destruct (index =? 0); [destruct b; reflexivity|]. destruct (index =? 1); [|reflexivity].
    rewrite (IHt b), !omap_omap. apply omap_ext. intro x. reflexivity.
Qed.
Print Assumptions dec_by_collection.
