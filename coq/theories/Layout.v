(** * Layout: the spec-side description of "fixed parts, offset words and variable parts tile
    the input", shared by the encoder, builder and list-decoder theorems (C09, C10, C01-C04).

    A part is [(is_fixed, content)].  [assemble nf parts] is the byte string in which every
    fixed part appears in place, every variable part is represented in place by the 4-byte
    little-endian word of its start position (counted from [nf], the size of the fixed
    portion), and the variable parts follow in order.  Definitions only. *)
From SSZ Require Export Offsets.

Definition part := (bool * bytes)%type.

(** Size of the fixed portion: fixed parts as they are, 4 bytes per variable part. *)
Definition fixed_size (parts : list part) : N :=
  sumN (map (fun p : part => if fst p then len (snd p) else BYTES_PER_LENGTH_OFFSET) parts).

(** The fixed portion, [off] being the start position of the next variable part. *)
Fixpoint assemble_fixed (off : N) (parts : list part) : bytes :=
  match parts with
  | [] => []
  | (true, b) :: r => b ++ assemble_fixed off r
  | (false, b) :: r => encode_length off ++ assemble_fixed (off + len b) r
  end.

Definition var_concat (parts : list part) : bytes :=
  concat (map (fun p : part => if fst p then [] else snd p) parts).

Definition assemble (nf : N) (parts : list part) : bytes :=
  assemble_fixed nf parts ++ var_concat parts.

(** Every offset word written by [assemble_fixed] is below 2^32 (so it is the position itself,
    not the position modulo 2^32). *)
Fixpoint offsets_fit (off : N) (parts : list part) : Prop :=
  match parts with
  | [] => True
  | (true, _) :: r => offsets_fit off r
  | (false, b) :: r => off < 4294967296 /\ offsets_fit (off + len b) r
  end.

(** The offsets [assemble_fixed] writes, as numbers (start positions of the variable parts). *)
Fixpoint offsets_of (off : N) (parts : list part) : list N :=
  match parts with
  | [] => []
  | (true, _) :: r => offsets_of off r
  | (false, b) :: r => off :: offsets_of (off + len b) r
  end.

(** [bs] is tiled by [slices] according to the registration sequence [regs]
    ([(is_fixed, ssz_fixed_len)] per item): one slice per registered item, fixed items have
    their registered length, and [bs] is exactly fixed parts / offset words / variable parts. *)
Definition Tiles (regs : list (bool * N)) (bs : bytes) (slices : list bytes) : Prop :=
  length slices = length regs /\
  let parts := combine (map fst regs) slices in
  Forall2 (fun (r : bool * N) (s : bytes) => fst r = true -> len s = snd r) regs slices /\
  offsets_fit (fixed_size parts) parts /\
  bs = assemble (fixed_size parts) parts.

(** The same for a list of variable-size items: a table of [length slices] offsets. *)
Definition TilesList (bs : bytes) (slices : list bytes) : Prop :=
  let parts := map (fun s => (false, s)) slices in
  slices <> [] /\
  offsets_fit (4 * N.of_nat (length slices)) parts /\
  bs = assemble (4 * N.of_nat (length slices)) parts.
