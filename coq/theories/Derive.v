(** * Derive: model of [#[derive(Encode, Decode)]] (ssz_derive/src/lib.rs).

    A derive input is abstracted to what the macro inspects: the behaviour attributes, and per
    field its type, the skip flags, a [with] module, whether it is named and how many [#[ssz]]
    attributes it carries; per enum variant the list of its field types.  [derive] returns the
    schema [Encode] writes and the schema [Decode] reads, or [None] where the macro panics (a
    compile error).  Definitions only. *)
From SSZ Require Export Types.

Record field := {
  f_ty : ty;
  f_skip_ser : bool;        (* #[ssz(skip_serializing)] *)
  f_skip_de : bool;         (* #[ssz(skip_deserializing)] *)
  f_with : option ty;       (* #[ssz(with = "module")]: the field is coded by the module's functions; the
                               schema the module implements is given (a four_byte_option_impl! module
                               for Option<T> implements TLegacyOpt T; a fixed-size custom codec
                               implements whatever fixed-size schema it writes) *)
  f_nattrs : nat            (* number of #[ssz(..)] attributes on the field *)
}.

Inductive sbeh := SContainer | STransparent | SOther.        (* struct_behaviour: absent or "container" / "transparent" / anything else *)
Inductive ebeh := EUnion | ETransparent | ETag | EAbsent | EOther.

Inductive defn :=
| DStruct (enum_attr : bool) (b : sbeh) (named : bool) (fs : list field)
| DEnum (struct_attr : bool) (b : ebeh) (vs : list (list ty)).

Definition field_schema (f : field) : ty := match f_with f with Some s => s | None => f_ty f end.

(** [parse_ssz_fields]: more than one ssz attribute on a field is a panic. *)
Definition attrs_ok (fs : list field) : bool := forallb (fun f => Nat.leb (f_nattrs f) 1) fs.

(** [compute_union_selectors]: index as u8, at least one and at most 128 variants. *)
Definition selectors_ok (n : nat) : bool := Nat.leb 1 n && Nat.leb n 128.
Definition union_selectors (n : nat) : list N := map N.of_nat (seq 0 n).

Definition one_field (v : list ty) : option ty := match v with [t] => Some t | _ => None end.
Fixpoint all_some {A} (l : list (option A)) : option (list A) :=
  match l with
  | [] => Some []
  | Some x :: r => match all_some r with Some xs => Some (x :: xs) | None => None end
  | None :: _ => None
  end.

(** [ssz_encode_derive]: the schema written, or None for a compile error. *)
Definition derive_enc (d : defn) : option ty :=
  match d with
  | DStruct enum_attr b named fs =>
      if enum_attr then None
      else if negb (attrs_ok fs) then None
      else
        match b with
        | SOther => None
        | SContainer =>
            let live := filter (fun f => negb (f_skip_ser f)) fs in
            (* live fields must be named (skipped ones are passed over before the check) *)
            if negb named && negb (match live with [] => true | _ => false end) then None
            else Some (TContainer true (map field_schema live))
        | STransparent =>
            (* keyed on skip_deserializing in BOTH derives *)
            match filter (fun f => negb (f_skip_de f)) fs with
            | [f] => Some (TWrap (f_ty f))
            | _ => None
            end
        end
  | DEnum struct_attr b vs =>
      if struct_attr then None
      else
        match b with
        | EAbsent | EOther => None
        | EUnion =>
            match all_some (map one_field vs) with
            | Some ts => if selectors_ok (length ts) then Some (TUnion ts) else None
            | None => None
            end
        | ETag =>
            if forallb (fun v : list ty => match v with [] => true | _ => false end) vs
            then (if selectors_ok (length vs) then Some (TTag (length vs)) else None)
            else None
        | ETransparent =>
            match all_some (map one_field vs) with
            | Some ts => Some (TTransEnum ts)
            | None => None
            end
        end
  end.

(** [ssz_decode_derive]: the schema read. *)
Definition derive_dec (d : defn) : option ty :=
  match d with
  | DStruct enum_attr b named fs =>
      if enum_attr then None
      else if negb (attrs_ok fs) then None
      else
        match b with
        | SOther => None
        | SContainer =>
            (* every field must be named, skipped or not *)
            if negb named && negb (match fs with [] => true | _ => false end) then None
            else Some (TContainer true (map field_schema (filter (fun f => negb (f_skip_de f)) fs)))
        | STransparent =>
            match filter (fun f => negb (f_skip_de f)) fs with
            | [f] => Some (TWrap (f_ty f))
            | _ => None
            end
        end
  | DEnum _ _ _ => derive_enc d
  end.

(** [#[derive(Encode, Decode)]]: both must expand. *)
Definition derive (d : defn) : option (ty * ty) :=
  match derive_enc d, derive_dec d with
  | Some e, Some r => Some (e, r)
  | _, _ => None
  end.
