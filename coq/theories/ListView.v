(** * ListView: the entry-list view of a type and the collection it denotes.
    [list_view t] reads every set / map inside [t] as the plain list of its entries; [collect_rec t] turns a
    value of [list_view t] into the value of [t] it denotes (each inner list of entries collected, innermost
    first).  ListViewFacts.v proves that the decoder of [t] *is* the decoder of [list_view t] followed by
    [collect_rec t] -- C19's "decode by collection", at every depth.  Definitions only (extracted: the direct
    oracle for maps and sets uses them). *)
From SSZ Require Import Base Types.
Import ListNotations.

Fixpoint list_view (t : ty) : ty :=
  match t with
  | TList a => TList (list_view a)
  | TSet a => TList (list_view a)
  | TMap k w => TList (TContainer false [list_view k; list_view w])
  | TOption a => TOption (list_view a)
  | TLegacyOpt a => TLegacyOpt (list_view a)
  | TWrap a => TWrap (list_view a)
  | TContainer d fs => TContainer d (map list_view fs)
  | TUnion ts => TUnion (map list_view ts)
  | TTransEnum ts => TTransEnum (map list_view ts)
  | _ => t
  end.

Definition collect_entry (ck cw : val -> val) (e : val) : val :=
  match e with
  | VCont [x; y] => VCont [ck x; cw y]
  | _ => e
  end.

Fixpoint collect_rec (t : ty) (v : val) {struct t} : val :=
  match t with
  | TList a => match v with VList es => VList (map (collect_rec a) es) | _ => v end
  | TSet a => match v with VList es => VList (collect_entries false (map (collect_rec a) es)) | _ => v end
  | TMap k w =>
      match v with
      | VList es => VList (collect_entries true (map (collect_entry (collect_rec k) (collect_rec w)) es))
      | _ => v
      end
  | TOption a => match v with VSome x => VSome (collect_rec a x) | _ => v end
  | TLegacyOpt a => match v with VSome x => VSome (collect_rec a x) | _ => v end
  | TWrap a => collect_rec a v
  | TContainer _ fs =>
      match v with
      | VCont vs =>
          VCont ((fix go (fs : list ty) (vs : list val) : list val :=
                    match fs, vs with
                    | f :: fr, x :: xr => collect_rec f x :: go fr xr
                    | _, _ => vs
                    end) fs vs)
      | _ => v
      end
  | TUnion ts | TTransEnum ts =>
      match v with
      | VUnion i x =>
          VUnion i ((fix pick (ts : list ty) (j : nat) : val :=
                       match ts, j with
                       | t' :: _, O => collect_rec t' x
                       | _ :: r, S j' => pick r j'
                       | [], _ => x
                       end) ts i)
      | _ => v
      end
  | _ => v
  end.
