(** * Hex round trip and the serde form of bitfields (C18). *)
From SSZ Require Import Base BaseFacts Bitfield BitfieldFacts BitfieldOps BitfieldOpsFacts Hex.
From Coq Require Import ZArith ZifyN ZifyNat ZifyBool.
Ltac Zify.zify_post_hook ::= Z.div_mod_to_equations.
Open Scope N_scope.

Lemma digit_val_hex_digit d : d < 16 -> digit_val (hex_digit d) = Some d.
Proof.
  intros H. unfold hex_digit, digit_val.
  destruct (d <? 10) eqn:E.
  - replace ((48 <=? 48 + d) && (48 + d <=? 57)) with true by lia. f_equal. lia.
  - replace ((48 <=? 87 + d) && (87 + d <=? 57)) with false by lia.
    replace ((97 <=? 87 + d) && (87 + d <=? 102)) with true by lia. f_equal. lia.
Qed.

Lemma bytes_of_hex_of_bytes bs : wfb bs -> bytes_of_hex (hex_of_bytes bs) = Some bs.
Proof.
  induction 1 as [|b bs Hb _ IH]; [reflexivity|].
  unfold hex_of_bytes in *. cbn [map concat app bytes_of_hex].
  rewrite !digit_val_hex_digit, IH by (try apply N.div_lt_upper_bound; try apply N.mod_lt; lia).
  f_equal. f_equal. pose proof (N.div_mod b 16). lia.
Qed.

Theorem hex_round_trip bs : wfb bs -> prefixed_hex_decode (hex_encode bs) = Some bs.
Proof. intros H. unfold hex_encode, prefixed_hex_decode. now apply bytes_of_hex_of_bytes. Qed.

(** the accepted strings: "0x" followed by an even number of hex digits *)
Theorem prefixed_hex_decode_some s bs :
  prefixed_hex_decode s = Some bs <-> exists h, s = 48 :: 120 :: h /\ bytes_of_hex h = Some bs.
Proof.
  split.
  - unfold prefixed_hex_decode. destruct s as [|a [|b r]]; try discriminate.
    + destruct a as [|p]; try discriminate. repeat (destruct p; try discriminate).
    + intros H. destruct (a =? 48) eqn:Ea; destruct (b =? 120) eqn:Eb.
      * apply N.eqb_eq in Ea, Eb. subst. eauto.
      * exfalso. apply N.eqb_neq in Eb. destruct a as [|p]; try discriminate.
        repeat (destruct p; try discriminate). destruct b as [|q]; try discriminate.
        repeat (destruct q; try discriminate). now apply Eb.
      * exfalso. apply N.eqb_neq in Ea. destruct a as [|p]; try discriminate.
        repeat (destruct p; try discriminate). now apply Ea.
      * exfalso. apply N.eqb_neq in Ea. destruct a as [|p]; try discriminate.
        repeat (destruct p; try discriminate). now apply Ea.
  - intros (h & -> & H). exact H.
Qed.

Lemma bytes_of_hex_even s bs : bytes_of_hex s = Some bs -> length s = (2 * length bs)%nat.
Proof.
  revert bs. induction s as [s IH] using (well_founded_induction (Wf_nat.well_founded_ltof _ (@length N))).
  intros bs H. destruct s as [|a [|b r]]; cbn [bytes_of_hex] in H.
  - injection H as <-. reflexivity.
  - discriminate.
  - destruct (digit_val a), (digit_val b), (bytes_of_hex r) as [bs'|] eqn:E; try discriminate.
    injection H as <-. cbn [length]. rewrite (IH r ltac:(unfold Wf_nat.ltof; cbn [length]; lia) bs' E). lia.
Qed.

Lemma digit_val_lt c x : digit_val c = Some x -> x < 16.
Proof.
  unfold digit_val.
  destruct ((48 <=? c) && (c <=? 57)) eqn:E1; [intros [= <-]; lia|].
  destruct ((97 <=? c) && (c <=? 102)) eqn:E2; [intros [= <-]; lia|].
  destruct ((65 <=? c) && (c <=? 70)) eqn:E3; [intros [= <-]; lia|discriminate].
Qed.

Lemma wfb_bytes_of_hex s bs : bytes_of_hex s = Some bs -> wfb bs.
Proof.
  revert bs. induction s as [s IH] using (well_founded_induction (Wf_nat.well_founded_ltof _ (@length N))).
  intros bs H. destruct s as [|a [|b r]]; cbn [bytes_of_hex] in H.
  - injection H as <-. constructor.
  - discriminate.
  - destruct (digit_val a) as [x|] eqn:Ex; [|discriminate].
    destruct (digit_val b) as [y|] eqn:Ey; [|discriminate].
    destruct (bytes_of_hex r) as [bs'|] eqn:E; [|discriminate].
    injection H as <-. constructor.
    + apply digit_val_lt in Ex, Ey. assert (G : 16 * x + y < 256) by lia. exact G.
    + apply (IH r ltac:(unfold Wf_nat.ltof; cbn [length]; lia) bs' E).
Qed.

(** Serde round trip of every bitfield; the serialized form is "0x" + lowercase hex of SSZ. *)
Theorem serde_round_trip fl b bits : R fl b bits -> serde_de fl (serde_ser fl b) = Ok b.
Proof.
  intros HR. unfold serde_de, serde_ser.
  destruct (decode_ssz_round_trip fl b bits HR) as [Hw Hd].
  now rewrite (hex_round_trip _ Hw).
Qed.

Theorem serde_ser_form fl b : serde_ser fl b = 48 :: 120 :: hex_of_bytes (i_ssz fl b).
Proof. reflexivity. Qed.

(** Deserializing succeeds exactly on "0x" + even-length hex of a byte string that SSZ decoding
    accepts, and yields the same value. *)
Theorem serde_de_ok fl s b :
  serde_de fl s = Ok b <->
  exists h bs, s = 48 :: 120 :: h /\ bytes_of_hex h = Some bs /\ i_decode fl bs = Ok b.
Proof.
  unfold serde_de. split.
  - destruct (prefixed_hex_decode s) as [bs|] eqn:E; [|discriminate].
    intros Hd. apply prefixed_hex_decode_some in E as (h & -> & Hh). eauto.
  - intros (h & bs & -> & Hh & Hd). cbn [prefixed_hex_decode]. now rewrite Hh.
Qed.

(** hex digits are exactly [0-9a-fA-F] *)
Theorem digit_val_some c :
  (exists x, digit_val c = Some x) <->
  (48 <= c <= 57) \/ (97 <= c <= 102) \/ (65 <= c <= 70).
Proof.
  unfold digit_val. split.
  - intros [x H].
    destruct ((48 <=? c) && (c <=? 57)) eqn:E1; [left; lia|].
    destruct ((97 <=? c) && (c <=? 102)) eqn:E2; [right; left; lia|].
    destruct ((65 <=? c) && (c <=? 70)) eqn:E3; [right; right; lia|discriminate].
  - intros [H|[H|H]].
    + replace ((48 <=? c) && (c <=? 57)) with true by lia. eauto.
    + replace ((48 <=? c) && (c <=? 57)) with false by lia.
      replace ((97 <=? c) && (c <=? 102)) with true by lia. eauto.
    + replace ((48 <=? c) && (c <=? 57)) with false by lia.
      replace ((97 <=? c) && (c <=? 102)) with false by lia.
      replace ((65 <=? c) && (c <=? 70)) with true by lia. eauto.
Qed.
