(** * GenEquivArb: the [Arbitrary] generators of [BitVector<N>] / [BitList<N>] (C20), as written in the source,
    are the model's [arb_bitvector] / [arb_bitlist].  The two [Unstructured] operations are primitives (RustSem.v). *)
From SSZ Require Import Base RustSem Bitfield BaseFacts BitfieldFacts Generated GenEquiv GenEquivBits.
From Coq Require Import ZArith ZifyN ZifyBool ZifyNat Lia.
Open Scope N_scope.

Lemma llen_repeat_n (x : N) n : llen (repeat_n x n) = n.
Proof. unfold llen, repeat_n. rewrite repeat_length. lia. Qed.

Lemma wfb_fill_buffer data n : wfb data -> wfb (fst (fill_buffer data n)).
Proof.
  intro H. unfold fill_buffer. cbn [fst]. apply wfb_app. split; [apply wfb_take; exact H|].
  change (repeat_n 0 (n - N.min n (len data))) with (zeros (n - N.min n (len data))). apply wfb_zeros.
Qed.

Lemma len_fill_buffer data n : len (fst (fill_buffer data n)) = n.
Proof.
  unfold fill_buffer. cbn [fst]. rewrite len_app. unfold len, take, repeat_n. rewrite firstn_length, repeat_length.
  fold (len data). unfold len. lia.
Qed.

Theorem gen_bitvector_arbitrary_eq n data :
  omap bf_abs (Gen.bitvector_arbitrary n data) = arb_bitvector n data.
Proof.
  unfold Gen.bitvector_arbitrary, arb_bitvector. rewrite gen_bytes_for_bit_len_eq. cbn [bind]. rewrite llen_repeat_n.
  apply gen_bitvector_from_bytes_eq.
Qed.

Theorem gen_bitlist_arbitrary_eq n data :
  wfb data -> 8 * n <= usize_max ->
  omap bf_abs (Gen.bitlist_arbitrary n data) = arb_bitlist n data.
Proof.
  intros Hw Hn. unfold Gen.bitlist_arbitrary, arb_bitlist. cbn [bind]. rewrite llen_repeat_n.
  apply gen_bitlist_from_bytes_eq.
  - apply wfb_fill_buffer. unfold arbitrary_usize, fill_buffer. cbn [snd]. apply wfb_drop. exact Hw.
  - rewrite len_fill_buffer. unfold arbitrary_usize. cbn [fst]. lia.
Qed.

Print Assumptions gen_bitvector_arbitrary_eq.
Print Assumptions gen_bitlist_arbitrary_eq.
