(** * GenEquivBits: the bitfield functions that [rs2v] derives from the Rust text ([Generated.v]:
    the rest of [impl<T> Bitfield<T>], the BitList / BitVector / BitVectorDynamic impls and their
    [Encode] / [Decode] impls) are equal to the hand-written model of [Bitfield.v] for every input.

    Where the Rust code does checked [usize] arithmetic that the model leaves unbounded
    ([len + 1], [bytes.len() * 8], [i * 8 + 7]) the equality is stated under the hypothesis that
    makes the arithmetic fit ([8 * len bytes <= usize::MAX], i.e. a byte vector that can exist);
    [highest_set_bit] additionally needs the bytes to be bytes ([wfb]), because [leading_zeros]
    is a [u8] operation. *)
From SSZ Require Import Base RustSem Offsets Bitfield BaseFacts Generated GenEquiv.
From Coq Require Import ZArith ZifyN ZifyBool ZifyNat Lia.
Open Scope N_scope.
Ltac Zify.zify_post_hook ::= Z.div_mod_to_equations.

Lemma wfb_In bs x : wfb bs -> In x bs -> x < 256.
Proof. unfold wfb. rewrite Forall_forall. auto. Qed.

Lemma Ok_inj {A} (a b : A) : Ok a = Ok b -> a = b.
Proof. intro H. injection H as H. exact H. Qed.

Lemma repeat_n_zeros n : repeat_n 0 n = zeros n. Proof. reflexivity. Qed.

Lemma omap_bf_abs_ok bs l : omap bf_abs (Ok {| Gen.Bitfield_bytes := bs; Gen.Bitfield_len := l |}) = Ok {| bf_bytes := bs; bf_len := l |}.
Proof. reflexivity. Qed.

(** ** simple accessors *)
Theorem gen_bitfield_into_raw_bytes_eq b : Gen.bitfield_into_raw_bytes b = Ok (bf_bytes (bf_abs b)).
Proof. reflexivity. Qed.
Theorem gen_bitfield_as_slice_eq b : Gen.bitfield_as_slice b = Ok (bf_bytes (bf_abs b)).
Proof. reflexivity. Qed.
Theorem gen_bitfield_is_zero_eq b : Gen.bitfield_is_zero b = Ok (is_zero (bf_abs b)).
Proof. reflexivity. Qed.
Theorem gen_bitfield_eq_eq a b : Gen.bitfield_eq a b = Ok (bf_eqb (bf_abs a) (bf_abs b)).
Proof. reflexivity. Qed.

Theorem gen_bitfield_difference_eq a o :
  omap bf_abs (Gen.bitfield_difference a o) = Ok (difference (bf_abs a) (bf_abs o)).
Proof.
  unfold Gen.bitfield_difference, difference.
  pose proof (gen_bitfield_difference_inplace_eq a o) as H.
  destruct (Gen.bitfield_difference_inplace a o) as [r| |]; cbn [omap bind] in *; try discriminate.
  exact H.
Qed.

(** ** [num_set_bits]: the checked sum cannot overflow *)
Lemma popcount_fuel_le f b : popcount_fuel f b <= N.of_nat f.
Proof.
  revert b. induction f as [|f IH]; intro b; cbn [popcount_fuel]; [lia|].
  specialize (IH (b / 2)). pose proof (N.mod_lt b 2). lia.
Qed.
Lemma count_ones8_le b : count_ones8 b <= 8.
Proof. apply (popcount_fuel_le 8). Qed.

Lemma usize_sum_from l : forall acc, acc + 8 * llen l <= usize_max ->
  fold_m usize_add (map count_ones8 l) acc = Ok (acc + sumN (map count_ones8 l)).
Proof.
  induction l as [|x r IH]; intros acc H; cbn [map fold_m sumN].
  - f_equal. lia.
  - pose proof (count_ones8_le x) as Hx. unfold llen in H. cbn [length] in H.
    unfold usize_add at 1.
    destruct (acc + count_ones8 x <=? usize_max) eqn:E; [|apply N.leb_gt in E; lia].
    cbn [bind]. rewrite IH by (unfold llen; lia). f_equal. lia.
Qed.

Theorem gen_bitfield_num_set_bits_eq b :
  8 * len (bf_bytes (bf_abs b)) <= usize_max ->
  Gen.bitfield_num_set_bits b = Ok (num_set_bits (bf_abs b)).
Proof.
  intro H. unfold Gen.bitfield_num_set_bits, num_set_bits, usize_sum.
  rewrite (map_ext _ count_ones8) by reflexivity.
  cbn [bf_abs bf_bytes] in *. rewrite usize_sum_from by (rewrite llen_len; lia). reflexivity.
Qed.

(** ** [highest_set_bit]: [iter().enumerate().rev().find(..)] is the forward scan of the model *)
Definition enum_from {A} (i : N) (l : list A) : list (N * A) :=
  combine (map (fun k => i + N.of_nat k) (seq 0 (length l))) l.

Lemma enumerate_n_from {A} (l : list A) : enumerate_n l = enum_from 0 l.
Proof.
  unfold enumerate_n, enum_from, range_up, llen. rewrite N.sub_0_r, Nnat.Nat2N.id. reflexivity.
Qed.

Lemma enum_from_cons {A} i (x : A) r : enum_from i (x :: r) = (i, x) :: enum_from (i + 1) r.
Proof.
  unfold enum_from. cbn [length]. rewrite <- cons_seq, <- seq_shift, map_cons, map_map. cbn [combine].
  f_equal; [f_equal; lia|]. f_equal. apply map_ext. intro k. lia.
Qed.

Lemma find_app {A} (p : A -> bool) l1 l2 :
  find p (l1 ++ l2) = match find p l1 with Some x => Some x | None => find p l2 end.
Proof. induction l1 as [|x r IH]; cbn [app find]; [reflexivity|]. destruct (p x); [reflexivity | exact IH]. Qed.

Definition hsb_pred (p : N * N) : bool := let '(_, byte) := p in 0 <? byte.

Lemma hsb_go_find bs : forall i acc,
  hsb_go bs i acc =
  match find hsb_pred (rev (enum_from i bs)) with
  | Some (j, b) => Some (j * 8 + N.log2 b)
  | None => acc
  end.
Proof.
  induction bs as [|x r IH]; intros i acc; [reflexivity|].
  cbn [hsb_go]. rewrite IH, enum_from_cons. cbn [rev]. rewrite find_app.
  destruct (find hsb_pred (rev (enum_from (i + 1) r))) as [[j b]|]; [reflexivity|].
  cbn [find hsb_pred]. destruct (0 <? x); reflexivity.
Qed.

Lemma In_enum_from {A} i (l : list A) j x : In (j, x) (enum_from i l) -> i <= j < i + llen l /\ In x l.
Proof.
  revert i. induction l as [|y r IH]; intros i H; [destruct H|].
  rewrite enum_from_cons in H. destruct H as [H|H].
  - injection H as <- <-. unfold llen. cbn [length]. split; [lia | left; reflexivity].
  - apply IH in H. unfold llen in *. cbn [length]. split; [lia | right; tauto].
Qed.

Theorem gen_bitfield_highest_set_bit_eq b :
  wfb (bf_bytes (bf_abs b)) -> 8 * len (bf_bytes (bf_abs b)) <= usize_max ->
  Gen.bitfield_highest_set_bit b = Ok (highest_set_bit (bf_abs b)).
Proof.
  intros Hw Hl. unfold Gen.bitfield_highest_set_bit, highest_set_bit. cbn [bf_abs bf_bytes] in *.
  set (bs := Gen.Bitfield_bytes b) in *.
  rewrite hsb_go_find, enumerate_n_from.
  change (fun '(_, byte) => 0 <? byte) with hsb_pred.
  destruct (find hsb_pred (rev (enum_from 0 bs))) as [[j x]|] eqn:E; cbn [opt_mapm]; [|reflexivity].
  apply find_some in E. destruct E as (Hin & Hp). apply in_rev, In_enum_from in Hin.
  destruct Hin as (Hj & Hx). cbn [hsb_pred] in Hp. apply N.ltb_lt in Hp.
  assert (Hx256 : x < 256) by (eapply wfb_In; eassumption).
  assert (Hlog : N.log2 x <= 7).
  { destruct (N.le_gt_cases (N.log2 x) 7) as [|Hc]; [assumption|].
    exfalso. assert (8 <= N.log2 x) by lia. apply N.log2_le_pow2 in H; lia. }
  rewrite llen_len in Hj.
  unfold usize_mul. destruct (j * 8 <=? usize_max) eqn:E1; [|apply N.leb_gt in E1; lia]. cbn [bind].
  unfold usize_add. destruct (j * 8 + 7 <=? usize_max) eqn:E2; [|apply N.leb_gt in E2; lia]. cbn [bind].
  unfold usize_sub, leading_zeros8. destruct (x =? 0) eqn:E3; [apply N.eqb_eq in E3; lia|].
  destruct (7 - N.log2 x <=? j * 8 + 7) eqn:E4; [|apply N.leb_gt in E4; lia].
  cbn [bind]. do 2 f_equal. lia.
Qed.

(** ** constructors *)
Theorem gen_bitlist_with_capacity_eq n k : omap bf_abs (Gen.bitlist_with_capacity n k) = bl_with_capacity n k.
Proof.
  unfold Gen.bitlist_with_capacity, bl_with_capacity. destruct (k <=? n); [|reflexivity].
  rewrite gen_bytes_for_bit_len_eq. reflexivity.
Qed.
Theorem gen_bitlist_max_len_eq n : Gen.bitlist_max_len n = Ok n. Proof. reflexivity. Qed.
Theorem gen_bitvector_capacity_eq n : Gen.bitvector_capacity n = Ok n. Proof. reflexivity. Qed.
Theorem gen_bitvector_new_eq n : omap bf_abs (Gen.bitvector_new n) = Ok (bv_new n).
Proof. unfold Gen.bitvector_new, bv_new. cbn [Gen.bitvector_capacity bind]. rewrite gen_bytes_for_bit_len_eq. reflexivity. Qed.
Theorem gen_bitdyn_new_eq l : omap bf_abs (Gen.bitdyn_new l) = bd_new l.
Proof.
  unfold Gen.bitdyn_new, bd_new. destruct (l =? 0); [reflexivity|].
  destruct (l mod 8 =? 0); cbn [negb]; [|reflexivity]. rewrite gen_bytes_for_bit_len_eq. reflexivity.
Qed.

(** ** byte-level conversions *)
Lemma resize_n_bytes (bs : bytes) n : resize_n bs n 0 = resize_bytes bs n.
Proof. unfold resize_n, resize_bytes. rewrite llen_len. reflexivity. Qed.

Theorem gen_bitlist_into_bytes_eq n b :
  bf_len (bf_abs b) < usize_max ->
  Gen.bitlist_into_bytes n b = bl_into_bytes (bf_abs b).
Proof.
  intro H. unfold Gen.bitlist_into_bytes, bl_into_bytes. cbn [Gen.bitfield_len bind bf_abs bf_len bf_bytes] in *.
  set (l := Gen.Bitfield_len b) in *.
  unfold usize_add. destruct (l + 1 <=? usize_max) eqn:E; [|apply N.leb_gt in E; lia]. cbn [bind].
  rewrite gen_bytes_for_bit_len_eq. cbn [bind]. rewrite resize_n_bytes.
  pose proof (gen_bitfield_from_raw_bytes_eq (resize_bytes (Gen.Bitfield_bytes b) (bytes_for_bit_len (l + 1))) (l + 1)) as Hr.
  destruct (Gen.bitfield_from_raw_bytes _ (l + 1)) as [b1| |]; destruct (from_raw_bytes _ (l + 1)) as [c1| |];
    cbn [omap unwrap_res bind] in *; try discriminate; try reflexivity.
  injection Hr as <-.
  pose proof (gen_bitfield_set_eq b1 l true) as Hs.
  destruct (Gen.bitfield_set b1 l true) as [b2| |]; destruct (bf_set (bf_abs b1) l true) as [c2| |];
    cbn [omap unwrap_res bind] in *; try discriminate; try reflexivity.
  injection Hs as <-. reflexivity.
Qed.

Lemma truncate_n_take (bs : bytes) n : truncate_n bs n = take n bs.
Proof. reflexivity. Qed.

Lemma from_raw_bytes_bytes bs n c : from_raw_bytes bs n = Ok c -> bf_bytes c = bs.
Proof.
  unfold from_raw_bytes. destruct (n =? 0).
  - destruct bs as [|b0 [|]]; try discriminate. destruct (b0 =? 0); [|discriminate].
    intro H. apply (f_equal (fun o => match o with Ok c => bf_bytes c | _ => [b0] end)) in H. symmetry. exact H.
  - destruct (negb _); [discriminate|]. destruct (rev bs); [discriminate|].
    destruct (N.land _ _ =? 0); [|discriminate].
    intro H. apply (f_equal (fun o => match o with Ok c => bf_bytes c | _ => bs end)) in H. symmetry. exact H.
Qed.

Theorem gen_bitlist_from_bytes_eq n bs :
  wfb bs -> 8 * len bs <= usize_max ->
  omap bf_abs (Gen.bitlist_from_bytes n bs) = bl_from_bytes n bs.
Proof.
  intros Hw Hl. unfold Gen.bitlist_from_bytes, bl_from_bytes. rewrite !llen_len.
  unfold usize_mul. destruct (len bs * 8 <=? usize_max) eqn:E; [|apply N.leb_gt in E; lia]. cbn [bind].
  pose proof (gen_bitfield_from_raw_bytes_eq bs (len bs * 8)) as Hr.
  destruct (Gen.bitfield_from_raw_bytes bs (len bs * 8)) as [b1| |] eqn:Eg;
    destruct (from_raw_bytes bs (len bs * 8)) as [c1| |] eqn:Em;
    cbn [omap bind] in *; try discriminate; try reflexivity.
  injection Hr as <-.
  assert (Hb1 : Gen.Bitfield_bytes b1 = bs) by (exact (from_raw_bytes_bytes _ _ _ Em)).
  assert (Hb1' : bf_bytes (bf_abs b1) = bs) by exact Hb1.
  rewrite gen_bitfield_highest_set_bit_eq by (rewrite Hb1'; assumption).
  cbn [bind]. destruct (highest_set_bit (bf_abs b1)) as [l|] eqn:Eh; cbn [ok_or bind omap]; [|reflexivity].
  assert (Hlb : l < 8 * len bs).
  { unfold highest_set_bit in Eh. rewrite hsb_go_find in Eh. cbn [bf_abs bf_bytes] in Eh. rewrite Hb1 in Eh.
    destruct (find hsb_pred (rev (enum_from 0 bs))) as [[j x]|] eqn:Ef; [|discriminate].
    injection Eh as <-. apply find_some in Ef. destruct Ef as (Hin & Hp). apply in_rev, In_enum_from in Hin.
    destruct Hin as (Hj & Hx). cbn [hsb_pred] in Hp. apply N.ltb_lt in Hp.
    assert (Hx256 : x < 256) by (eapply wfb_In; eassumption).
    assert (N.log2 x <= 7).
    { destruct (N.le_gt_cases (N.log2 x) 7) as [|Hc]; [assumption|].
      exfalso. assert (H8 : 8 <= N.log2 x) by lia. apply N.log2_le_pow2 in H8; lia. }
    rewrite llen_len in Hj. lia. }
  unfold usize_add. destruct (l / 8 + 1 <=? usize_max) eqn:E2; [|apply N.leb_gt in E2; lia]. cbn [bind].
  destruct (l / 8 + 1 =? len bs); cbn [negb omap]; [|reflexivity].
  cbn [Gen.bitlist_max_len bind]. destruct (l <=? n); cbn [omap]; [|reflexivity].
  pose proof (gen_bitfield_set_eq b1 l false) as Hs.
  destruct (Gen.bitfield_set b1 l false) as [b2| |]; destruct (bf_set (bf_abs b1) l false) as [c2| |];
    cbn [omap unwrap_res bind] in *; try discriminate; try reflexivity.
  injection Hs as <-. cbn [Gen.bitfield_into_raw_bytes bind]. rewrite gen_bytes_for_bit_len_eq. cbn [bind].
  apply gen_bitfield_from_raw_bytes_eq.
Qed.

Theorem gen_bitvector_into_bytes_eq n b : Gen.bitvector_into_bytes n b = Ok (bv_into_bytes (bf_abs b)).
Proof. reflexivity. Qed.
Theorem gen_bitvector_from_bytes_eq n bs : omap bf_abs (Gen.bitvector_from_bytes n bs) = bv_from_bytes n bs.
Proof. unfold Gen.bitvector_from_bytes, bv_from_bytes. cbn [Gen.bitvector_capacity bind]. apply gen_bitfield_from_raw_bytes_eq. Qed.
Theorem gen_bitdyn_into_bytes_eq b : Gen.bitdyn_into_bytes b = Ok (bd_into_bytes (bf_abs b)).
Proof. reflexivity. Qed.
Theorem gen_bitdyn_from_bytes_with_len_eq bs l :
  8 * len bs <= usize_max ->
  omap bf_abs (Gen.bitdyn_from_bytes_with_len bs l) = bd_from_bytes_with_len bs l.
Proof.
  intro H. unfold Gen.bitdyn_from_bytes_with_len, bd_from_bytes_with_len. rewrite llen_len.
  unfold usize_mul. destruct (len bs * 8 <=? usize_max) eqn:E; [|apply N.leb_gt in E; lia]. cbn [bind].
  destruct (l =? len bs * 8); cbn [negb omap]; [|reflexivity]. apply gen_bitfield_from_raw_bytes_eq.
Qed.

(** ** the index loops of the set operations *)
Lemma mapm_app {A B} (g : A -> outcome B) l1 l2 :
  mapM g (l1 ++ l2) = do a <- mapM g l1; do b <- mapM g l2; Ok (a ++ b).
Proof.
  induction l1 as [|x r IH]; cbn [app mapM bind].
  - destruct (mapM g l2); reflexivity.
  - destruct (g x); cbn [bind]; try reflexivity. rewrite IH.
    destruct (mapM g r); cbn [bind]; try reflexivity. destruct (mapM g l2); reflexivity.
Qed.

Lemma mapm_length {A B} (g : A -> outcome B) l r : mapM g l = Ok r -> length r = length l.
Proof.
  revert r. induction l as [|x t IH]; intros r H; cbn [mapM] in H.
  - injection H as <-. reflexivity.
  - destruct (g x); cbn [bind] in H; try discriminate. destruct (mapM g t) as [ys| |]; cbn [bind] in H; try discriminate.
    injection H as <-. cbn [length]. f_equal. apply IH. reflexivity.
Qed.

Lemma set_at_nat_mid {A} (p : list A) x s v : set_at_nat (p ++ x :: s) (length p) v = Ok (p ++ v :: s).
Proof. induction p as [|y r IH]; cbn [app length set_at_nat]; [reflexivity|]. rewrite IH. reflexivity. Qed.

Lemma upd_at_mid (p : list N) x s v : upd_at (p ++ x :: s) (N.of_nat (length p)) v = p ++ v :: s.
Proof.
  induction p as [|y r IH]; cbn [app length upd_at].
  - reflexivity.
  - replace (N.of_nat (S (length r)) =? 0) with false by (symmetry; apply N.eqb_neq; lia).
    replace (N.of_nat (S (length r)) - 1) with (N.of_nat (length r)) by lia. rewrite IH. reflexivity.
Qed.

Lemma upd_at_mid' (p : list N) x s v k : length p = k -> upd_at (p ++ x :: s) (N.of_nat k) v = p ++ v :: s.
Proof. intros <-. apply upd_at_mid. Qed.

Lemma skipn_cons_nth {A} (l : list A) k : (k < length l)%nat -> exists x, skipn k l = x :: skipn (S k) l.
Proof.
  revert k. induction l as [|y r IH]; intros k H; [cbn in H; lia|].
  destruct k; [eexists; reflexivity|]. cbn [skipn]. apply IH. cbn [length] in H. lia.
Qed.

(** [for i in 0..rb.len() { rb[i] = g(i) }] computes [g] at every index, left to right. *)
Lemma fill_loop (g : N -> outcome N) rb l :
  fold_m (fun r i => do v <- g i; do upd <- set_at (Gen.Bitfield_bytes r) i v; Ok (Gen.set_Bitfield_bytes r upd))
         (range_up 0 (llen rb)) {| Gen.Bitfield_bytes := rb; Gen.Bitfield_len := l |}
  = omap (fun bs => {| Gen.Bitfield_bytes := bs; Gen.Bitfield_len := l |}) (mapM g (range_up 0 (llen rb))).
Proof.
  set (F := fun r i => do v <- g i; do upd <- set_at (Gen.Bitfield_bytes r) i v; Ok (Gen.set_Bitfield_bytes r upd)).
  assert (H : forall k, (k <= length rb)%nat ->
            fold_m F (range_up 0 (N.of_nat k)) {| Gen.Bitfield_bytes := rb; Gen.Bitfield_len := l |}
            = omap (fun vs => {| Gen.Bitfield_bytes := vs ++ skipn k rb; Gen.Bitfield_len := l |}) (mapM g (range_up 0 (N.of_nat k)))).
  { induction k as [|k IH]; intro Hk; [reflexivity|].
    rewrite Nnat.Nat2N.inj_succ, range_up_S, fold_m_app, mapm_app, IH by lia.
    destruct (mapM g (range_up 0 (N.of_nat k))) as [vs| |] eqn:Em; cbn [omap bind]; try reflexivity.
    cbn [mapM fold_m]. unfold F at 1. destruct (g (N.of_nat k)) as [v| |]; cbn [bind omap]; try reflexivity.
    cbn [Gen.Bitfield_bytes]. apply mapm_length in Em.
    assert (Hlen : length vs = k).
    { rewrite Em. unfold range_up. rewrite map_length, seq_length. lia. }
    destruct (skipn_cons_nth rb k) as (x & Hx); [lia|]. rewrite Hx.
    unfold set_at. rewrite Nnat.Nat2N.id, <- Hlen, set_at_nat_mid. cbn [bind].
    unfold Gen.set_Bitfield_bytes. cbn [Gen.Bitfield_bytes Gen.Bitfield_len]. rewrite <- app_assoc. reflexivity. }
  unfold llen. rewrite H by lia.
  destruct (mapM g (range_up 0 (N.of_nat (length rb)))) as [vs| |] eqn:Em; cbn [omap]; try reflexivity.
  rewrite skipn_all, app_nil_r. reflexivity.
Qed.

(** the same loop through [iter_mut().enumerate()]: [*byte = g(i)] cannot fail *)
Lemma fill_loop_upd (g : N -> N) rb l :
  fold_m (fun r i => Ok (Gen.set_Bitfield_bytes r (upd_at (Gen.Bitfield_bytes r) i (g i))))
         (range_up 0 (llen rb)) {| Gen.Bitfield_bytes := rb; Gen.Bitfield_len := l |}
  = Ok {| Gen.Bitfield_bytes := map g (range_up 0 (llen rb)); Gen.Bitfield_len := l |}.
Proof.
  set (F := fun r i => Ok (Gen.set_Bitfield_bytes r (upd_at (Gen.Bitfield_bytes r) i (g i)))).
  assert (H : forall k, (k <= length rb)%nat ->
            fold_m F (range_up 0 (N.of_nat k)) {| Gen.Bitfield_bytes := rb; Gen.Bitfield_len := l |}
            = Ok {| Gen.Bitfield_bytes := map g (range_up 0 (N.of_nat k)) ++ skipn k rb; Gen.Bitfield_len := l |}).
  { induction k as [|k IH]; intro Hk; [reflexivity|].
    rewrite Nnat.Nat2N.inj_succ, range_up_S, fold_m_app, IH by lia. cbn [bind fold_m]. unfold F at 1.
    cbn [Gen.Bitfield_bytes bind]. f_equal. unfold Gen.set_Bitfield_bytes. cbn [Gen.Bitfield_bytes Gen.Bitfield_len]. f_equal.
    destruct (skipn_cons_nth rb k) as (x & Hx); [lia|]. rewrite Hx.
    assert (Hlen : length (map g (range_up 0 (N.of_nat k))) = k).
    { unfold range_up. rewrite !map_length, seq_length. lia. }
    rewrite (upd_at_mid' _ _ _ _ _ Hlen), map_app, <- app_assoc. reflexivity. }
  unfold llen. rewrite H by lia. rewrite skipn_all, app_nil_r. reflexivity.
Qed.

Lemma fold_m_ext {S X} (F G : S -> X -> outcome S) l s : (forall s x, F s x = G s x) -> fold_m F l s = fold_m G l s.
Proof.
  intro H. revert s. induction l as [|x r IH]; intro s; cbn [fold_m]; [reflexivity|].
  rewrite H. destruct (G s x); cbn [bind]; [apply IH | reflexivity | reflexivity].
Qed.

(** [mapM] over the index range, read from the head of the operands *)
Lemma range_up_succ n : range_up 0 (N.of_nat (S n)) = 0 :: map N.succ (range_up 0 (N.of_nat n)).
Proof.
  unfold range_up. rewrite !N.sub_0_r, !Nnat.Nat2N.id. rewrite <- cons_seq, <- seq_shift, map_cons, !map_map.
  f_equal. apply map_ext. intro k. lia.
Qed.

Lemma mapm_map {A B C} (g : B -> outcome C) (h : A -> B) l : mapM g (map h l) = mapM (fun x => g (h x)) l.
Proof. induction l as [|x r IH]; cbn [map mapM]; [reflexivity|]. rewrite IH. reflexivity. Qed.

Lemma mapm_ext {A B} (g h : A -> outcome B) l : (forall x, g x = h x) -> mapM g l = mapM h l.
Proof. intro H. induction l as [|x r IH]; cbn [mapM]; [reflexivity|]. rewrite H, IH. reflexivity. Qed.

Lemma index_at_succ {A} (x : A) r i : index_at (x :: r) (N.succ i) = index_at r i.
Proof. unfold index_at. rewrite Nnat.N2Nat.inj_succ. reflexivity. Qed.

Lemma and_index_mapm n : forall a o,
  mapM (fun i => do t1 <- index_at a i; do t2 <- index_at o i; Ok (N.land t1 t2)) (range_up 0 (N.of_nat n))
  = and_index n a o.
Proof.
  induction n as [|n IH]; intros a o; [reflexivity|].
  rewrite range_up_succ. cbn [mapM and_index]. rewrite mapm_map.
  destruct a as [|x ar]; [reflexivity|]. destruct o as [|y or]; [reflexivity|].
  change (index_at (x :: ar) 0) with (Ok x). change (index_at (y :: or) 0) with (Ok y). cbn [bind].
  rewrite (mapm_ext _ (fun i => do t1 <- index_at ar i; do t2 <- index_at or i; Ok (N.land t1 t2)))
    by (intro i; rewrite !index_at_succ; reflexivity).
  rewrite IH. destruct (and_index n ar or); reflexivity.
Qed.

Lemma get_at_succ {A} (x : A) r i : get_at (x :: r) (N.succ i) = get_at r i.
Proof. unfold get_at. rewrite Nnat.N2Nat.inj_succ. reflexivity. Qed.

Lemma get_at_nil {A} i : @get_at A [] i = None.
Proof. unfold get_at. destruct (N.to_nat i); reflexivity. Qed.

Lemma zip_get_map (f : N -> N -> N) n : forall a o,
  map (fun i => f (opt_unwrap_or (get_at a i) 0) (opt_unwrap_or (get_at o i) 0)) (range_up 0 (N.of_nat n))
  = zip_get_or0 f n a o.
Proof.
  induction n as [|n IH]; intros a o; [reflexivity|].
  rewrite range_up_succ. cbn [map zip_get_or0]. rewrite map_map. f_equal.
  - destruct a, o; reflexivity.
  - rewrite <- IH. apply map_ext. intro i.
    destruct a as [|x ar], o as [|y or]; cbn [tl]; rewrite ?get_at_succ, ?get_at_nil; reflexivity.
Qed.

Lemma mapm_pure {A B} (g : A -> B) l : mapM (fun x => Ok (g x)) l = Ok (map g l).
Proof. induction l as [|x r IH]; cbn [mapM map bind]; [reflexivity|]. rewrite IH. reflexivity. Qed.

(** ** BitList / BitVector / Dynamic set operations *)
Definition and_body (a o : Gen.Bitfield) (result : Gen.Bitfield) (i : N) : outcome Gen.Bitfield :=
  do t1 <- index_at (Gen.Bitfield_bytes a) i;
  do t2 <- index_at (Gen.Bitfield_bytes o) i;
  do upd <- set_at (Gen.Bitfield_bytes result) i (N.land t1 t2);
  Ok (Gen.set_Bitfield_bytes result upd).

Lemma and_loop a o rb l :
  omap bf_abs (fold_m (and_body a o) (range_up 0 (llen rb)) {| Gen.Bitfield_bytes := rb; Gen.Bitfield_len := l |})
  = do bs <- and_index (length rb) (Gen.Bitfield_bytes a) (Gen.Bitfield_bytes o); Ok {| bf_bytes := bs; bf_len := l |}.
Proof.
  rewrite (fold_m_ext _ (fun r i => do v <- (do t1 <- index_at (Gen.Bitfield_bytes a) i; do t2 <- index_at (Gen.Bitfield_bytes o) i; Ok (N.land t1 t2));
                                   do upd <- set_at (Gen.Bitfield_bytes r) i v; Ok (Gen.set_Bitfield_bytes r upd))).
  2:{ intros s x. unfold and_body. destruct (index_at (Gen.Bitfield_bytes a) x); cbn [bind]; try reflexivity.
      destruct (index_at (Gen.Bitfield_bytes o) x); reflexivity. }
  rewrite fill_loop. unfold llen. rewrite and_index_mapm.
  destruct (and_index (length rb) _ _); reflexivity.
Qed.

Definition or_body (f : N -> N -> N) (a o : Gen.Bitfield) (result : Gen.Bitfield) (i : N) : outcome Gen.Bitfield :=
  do upd <- set_at (Gen.Bitfield_bytes result) i
              (f (opt_unwrap_or (get_at (Gen.Bitfield_bytes a) i) 0) (opt_unwrap_or (get_at (Gen.Bitfield_bytes o) i) 0));
  Ok (Gen.set_Bitfield_bytes result upd).

Lemma or_loop f a o rb l :
  omap bf_abs (fold_m (or_body f a o) (range_up 0 (llen rb)) {| Gen.Bitfield_bytes := rb; Gen.Bitfield_len := l |})
  = Ok {| bf_bytes := zip_get_or0 f (length rb) (Gen.Bitfield_bytes a) (Gen.Bitfield_bytes o); bf_len := l |}.
Proof.
  rewrite (fold_m_ext _ (fun r i => do v <- Ok (f (opt_unwrap_or (get_at (Gen.Bitfield_bytes a) i) 0) (opt_unwrap_or (get_at (Gen.Bitfield_bytes o) i) 0));
                                   do upd <- set_at (Gen.Bitfield_bytes r) i v; Ok (Gen.set_Bitfield_bytes r upd)))
    by (intros; reflexivity).
  rewrite fill_loop, mapm_pure. unfold llen. rewrite zip_get_map. reflexivity.
Qed.

Theorem gen_bitlist_intersection_eq n a o :
  omap bf_abs (Gen.bitlist_intersection n a o) = bl_intersection n (bf_abs a) (bf_abs o).
Proof.
  unfold Gen.bitlist_intersection, bl_intersection. cbn [Gen.bitfield_len bind bf_abs bf_len bf_bytes].
  pose proof (gen_bitlist_with_capacity_eq n (N.min (Gen.Bitfield_len a) (Gen.Bitfield_len o))) as Hc.
  destruct (Gen.bitlist_with_capacity n _) as [[rb rl]| |]; destruct (bl_with_capacity n _) as [r| |];
    cbn [omap unwrap_res bind] in *; try discriminate; try reflexivity.
  injection Hc as <-. cbn [bf_abs bf_bytes bf_len Gen.Bitfield_bytes Gen.Bitfield_len].
  change (fold_m _ (range_up 0 (llen rb)) ?s) with (fold_m (and_body a o) (range_up 0 (llen rb)) s).
  rewrite <- (and_loop a o rb rl).
  destruct (fold_m (and_body a o) _ _) as [s| |]; reflexivity.
Qed.

Theorem gen_bitlist_union_eq n a o :
  omap bf_abs (Gen.bitlist_union n a o) = bl_union n (bf_abs a) (bf_abs o).
Proof.
  unfold Gen.bitlist_union, bl_union. cbn [Gen.bitfield_len bind bf_abs bf_len bf_bytes].
  pose proof (gen_bitlist_with_capacity_eq n (N.max (Gen.Bitfield_len a) (Gen.Bitfield_len o))) as Hc.
  destruct (Gen.bitlist_with_capacity n _) as [[rb rl]| |]; destruct (bl_with_capacity n _) as [r| |];
    cbn [omap unwrap_res bind] in *; try discriminate; try reflexivity.
  injection Hc as <-. cbn [bf_abs bf_bytes bf_len Gen.Bitfield_bytes Gen.Bitfield_len].
  change (fold_m _ (range_up 0 (llen rb)) ?s) with (fold_m (or_body N.lor a o) (range_up 0 (llen rb)) s).
  pose proof (or_loop N.lor a o rb rl) as Hl.
  destruct (fold_m (or_body N.lor a o) _ _) as [s| |]; cbn [omap bind] in *; try discriminate.
  exact Hl.
Qed.

Theorem gen_bitlist_is_subset_eq n a o : Gen.bitlist_is_subset n a o = Ok (bf_is_subset (bf_abs a) (bf_abs o)).
Proof.
  unfold Gen.bitlist_is_subset, bf_is_subset. pose proof (gen_bitfield_difference_eq a o) as H.
  destruct (Gen.bitfield_difference a o) as [r| |]; cbn [omap bind] in *; try discriminate.
  apply (f_equal (fun x => match x with Ok c => c | _ => bf_abs r end)) in H.
  rewrite <- H. reflexivity.
Qed.

Theorem gen_bitvector_is_subset_eq n a o : Gen.bitvector_is_subset n a o = Ok (bf_is_subset (bf_abs a) (bf_abs o)).
Proof. exact (gen_bitlist_is_subset_eq n a o). Qed.

Theorem gen_bitvector_intersection_eq n a o :
  omap bf_abs (Gen.bitvector_intersection n a o) = bv_intersection n (bf_abs a) (bf_abs o).
Proof.
  unfold Gen.bitvector_intersection, bv_intersection.
  pose proof (gen_bitvector_new_eq n) as Hc.
  destruct (Gen.bitvector_new n) as [[rb rl]| |]; cbn [omap bind] in *; try discriminate.
  apply Ok_inj in Hc. rewrite <- Hc. cbn [bf_bytes bf_len bf_abs Gen.Bitfield_bytes Gen.Bitfield_len].
  change (fold_m _ (range_up 0 (llen rb)) ?s) with (fold_m (and_body a o) (range_up 0 (llen rb)) s).
  rewrite <- (and_loop a o rb rl).
  destruct (fold_m (and_body a o) _ _) as [s| |]; reflexivity.
Qed.

Theorem gen_bitvector_union_eq n a o :
  omap bf_abs (Gen.bitvector_union n a o) = Ok (bv_union n (bf_abs a) (bf_abs o)).
Proof.
  unfold Gen.bitvector_union, bv_union.
  pose proof (gen_bitvector_new_eq n) as Hc.
  destruct (Gen.bitvector_new n) as [[rb rl]| |]; cbn [omap bind] in *; try discriminate.
  apply Ok_inj in Hc. rewrite <- Hc. cbn [bf_bytes bf_len bf_abs Gen.Bitfield_bytes Gen.Bitfield_len].
  change (fold_m _ (range_up 0 (llen rb)) ?s) with (fold_m (or_body N.lor a o) (range_up 0 (llen rb)) s).
  pose proof (or_loop N.lor a o rb rl) as Hl.
  destruct (fold_m (or_body N.lor a o) _ _) as [s| |]; cbn [omap bind] in *; try discriminate.
  exact Hl.
Qed.

Lemma bitdyn_binop_eq f (G : Gen.Bitfield -> Gen.Bitfield -> outcome Gen.Bitfield) a o :
  (forall a o, G a o =
     do t1 <- Gen.bitfield_len a; do t2 <- Gen.bitfield_len o;
     do q <- Gen.bitdyn_new (N.max t1 t2);
     do st <- fold_m (fun result i => Ok (Gen.set_Bitfield_bytes result (upd_at (Gen.Bitfield_bytes result) i
                       (f (opt_unwrap_or (get_at (Gen.Bitfield_bytes a) i) 0) (opt_unwrap_or (get_at (Gen.Bitfield_bytes o) i) 0)))))
                     (range_up 0 (llen (Gen.Bitfield_bytes q))) q;
     Ok st) ->
  omap bf_abs (G a o) = bd_binop f (bf_abs a) (bf_abs o).
Proof.
  intro HG. rewrite HG. unfold bd_binop. cbn [Gen.bitfield_len bind bf_abs bf_len bf_bytes].
  pose proof (gen_bitdyn_new_eq (N.max (Gen.Bitfield_len a) (Gen.Bitfield_len o))) as Hc.
  destruct (Gen.bitdyn_new _) as [[rb rl]| |]; destruct (bd_new _) as [r| |];
    cbn [omap bind] in *; try discriminate; try reflexivity.
  injection Hc as <-. cbn [bf_bytes bf_len Gen.Bitfield_bytes].
  rewrite (fill_loop_upd (fun i => f (opt_unwrap_or (get_at (Gen.Bitfield_bytes a) i) 0) (opt_unwrap_or (get_at (Gen.Bitfield_bytes o) i) 0)) rb rl).
  cbn [bind omap bf_abs Gen.Bitfield_bytes Gen.Bitfield_len]. unfold llen. rewrite zip_get_map. reflexivity.
Qed.

Theorem gen_bitdyn_intersection_eq a o : omap bf_abs (Gen.bitdyn_intersection a o) = bd_intersection (bf_abs a) (bf_abs o).
Proof. apply (bitdyn_binop_eq N.land Gen.bitdyn_intersection). intros; reflexivity. Qed.
Theorem gen_bitdyn_union_eq a o : omap bf_abs (Gen.bitdyn_union a o) = bd_union (bf_abs a) (bf_abs o).
Proof. apply (bitdyn_binop_eq N.lor Gen.bitdyn_union). intros; reflexivity. Qed.


(** ** [iter()], [BitIter::next] and [resize]: the iterator loop is the model's [set_all] over [bf_iter] *)
Theorem gen_bitfield_iter_eq b :
  Gen.bitfield_iter b = Ok {| Gen.BitIter_bitfield := b; Gen.BitIter_i := 0 |}.
Proof. reflexivity. Qed.

Theorem gen_bititer_next_eq b i :
  Gen.bititer_next {| Gen.BitIter_bitfield := b; Gen.BitIter_i := i |} =
  match bf_get (bf_abs b) i with
  | Ok x => do s <- usize_add i 1; Ok (Some x, {| Gen.BitIter_bitfield := b; Gen.BitIter_i := s |})
  | Err => Ok (None, {| Gen.BitIter_bitfield := b; Gen.BitIter_i := i |})
  | Panic => Panic
  end.
Proof.
  unfold Gen.bititer_next. cbn [Gen.BitIter_bitfield Gen.BitIter_i]. rewrite gen_bitfield_get_eq.
  destruct (bf_get (bf_abs b) i); cbn [outcome_ok bind]; try reflexivity.
Qed.

Lemma bf_get_not_panic b i : bf_get b i <> Panic.
Proof. unfold bf_get. destruct (i <? bf_len b); [|discriminate]. destruct (nthN _ _); discriminate. Qed.

Definition resize_body (resized : Gen.Bitfield) (p : N * bool) : outcome Gen.Bitfield :=
  let '(i, bit) := p in do st <- Gen.bitfield_set resized i bit; Ok st.

Lemma resize_loop b : bf_len (bf_abs b) <= usize_max -> forall d i st,
  i <= bf_len (bf_abs b) -> d = N.to_nat (bf_len (bf_abs b) - i) ->
  omap bf_abs (for_iter_from Gen.bititer_next resize_body (S d) {| Gen.BitIter_bitfield := b; Gen.BitIter_i := i |} i st)
  = set_all (bf_abs st) i (iter_fuel d (bf_abs b) i).
Proof.
  intros Hmax. induction d as [|d IH]; intros i st Hi Hd.
  - assert (i = bf_len (bf_abs b)) by lia. subst i.
    cbn [for_iter_from iter_fuel set_all]. rewrite gen_bititer_next_eq.
    unfold bf_get. rewrite N.ltb_irrefl. reflexivity.
  - cbn [for_iter_from iter_fuel]. rewrite gen_bititer_next_eq.
    pose proof (bf_get_not_panic (bf_abs b) i) as Hnp.
    destruct (bf_get (bf_abs b) i) as [x| |]; cbn [bind set_all omap]; try reflexivity; [|contradiction].
    unfold usize_add. destruct (i + 1 <=? usize_max) eqn:E; [|apply N.leb_gt in E; lia]. cbn [bind].
    unfold resize_body at 1. pose proof (gen_bitfield_set_eq st i x) as Es.
    destruct (Gen.bitfield_set st i x) as [s'| |]; destruct (bf_set (bf_abs st) i x) as [t'| |];
      cbn [omap bind] in *; try discriminate; try reflexivity.
    apply Ok_inj in Es. rewrite <- Es. apply IH; lia.
Qed.

Theorem gen_bitlist_resize_eq n m b :
  bf_len (bf_abs b) <= usize_max ->
  omap bf_abs (Gen.bitlist_resize n m b) = bl_resize n m (bf_abs b).
Proof.
  intro H. unfold Gen.bitlist_resize, bl_resize. destruct (m <? n); [reflexivity|].
  pose proof (gen_bitlist_with_capacity_eq m m) as Hc.
  destruct (Gen.bitlist_with_capacity m m) as [r| |]; destruct (bl_with_capacity m m) as [r'| |];
    cbn [omap bind] in *; try discriminate; try reflexivity.
  apply Ok_inj in Hc. subst r'. cbn [Gen.bitfield_iter bind Gen.BitIter_bitfield].
  unfold for_iter_enum, bf_iter.
  change (fun (resized : Gen.Bitfield) '(i, bit) => do st_3 <- Gen.bitfield_set resized i bit; Ok st_3) with resize_body.
  pose proof (resize_loop b H (N.to_nat (bf_len (bf_abs b))) 0 r ltac:(lia) ltac:(f_equal; lia)) as HL.
  change (Gen.Bitfield_len b) with (bf_len (bf_abs b)).
  destruct (for_iter_from Gen.bititer_next resize_body _ _ 0 r) as [s| |]; cbn [omap bind] in *; exact HL.
Qed.

(** ** the SSZ codec of the three flavours ([Encode] / [Decode] impls) *)
Theorem gen_bitlist_enc_is_fixed_eq n : Gen.bitlist_enc_is_ssz_fixed_len n = Ok false. Proof. reflexivity. Qed.
Theorem gen_bitlist_dec_is_fixed_eq n : Gen.bitlist_dec_is_ssz_fixed_len n = Ok false. Proof. reflexivity. Qed.
Theorem gen_bitvector_enc_is_fixed_eq n : Gen.bitvector_enc_is_ssz_fixed_len n = Ok true. Proof. reflexivity. Qed.
Theorem gen_bitvector_dec_is_fixed_eq n : Gen.bitvector_dec_is_ssz_fixed_len n = Ok true. Proof. reflexivity. Qed.
Theorem gen_bitdyn_enc_is_fixed_eq : Gen.bitdyn_enc_is_ssz_fixed_len = Ok false. Proof. reflexivity. Qed.
Theorem gen_bitdyn_dec_is_fixed_eq : Gen.bitdyn_dec_is_ssz_fixed_len = Ok false. Proof. reflexivity. Qed.
Theorem gen_bitvector_enc_fixed_len_eq n : Gen.bitvector_enc_ssz_fixed_len n = Ok (bytes_for_bit_len n).
Proof. apply gen_bytes_for_bit_len_eq. Qed.
Theorem gen_bitvector_dec_fixed_len_eq n : Gen.bitvector_dec_ssz_fixed_len n = Ok (bytes_for_bit_len n).
Proof. apply gen_bytes_for_bit_len_eq. Qed.

Theorem gen_bitlist_ssz_append_eq n b buf :
  bf_len (bf_abs b) < usize_max ->
  Gen.bitlist_ssz_append n b buf = do bs <- bl_into_bytes (bf_abs b); Ok (buf ++ bs).
Proof. intro H. unfold Gen.bitlist_ssz_append. rewrite gen_bitlist_into_bytes_eq by exact H. reflexivity. Qed.
Theorem gen_bitlist_ssz_bytes_len_eq n b :
  bf_len (bf_abs b) < usize_max ->
  Gen.bitlist_ssz_bytes_len n b = do bs <- bl_into_bytes (bf_abs b); Ok (len bs).
Proof. intro H. unfold Gen.bitlist_ssz_bytes_len. rewrite gen_bitlist_into_bytes_eq by exact H. reflexivity. Qed.
Theorem gen_bitlist_from_ssz_bytes_eq n bs :
  wfb bs -> 8 * len bs <= usize_max ->
  omap bf_abs (Gen.bitlist_from_ssz_bytes n bs) = bl_from_bytes n bs.
Proof. apply gen_bitlist_from_bytes_eq. Qed.

Theorem gen_bitvector_ssz_append_eq n b buf : Gen.bitvector_ssz_append n b buf = Ok (buf ++ bv_into_bytes (bf_abs b)).
Proof. reflexivity. Qed.
Theorem gen_bitvector_ssz_bytes_len_eq n b : Gen.bitvector_ssz_bytes_len n b = Ok (len (bf_bytes (bf_abs b))).
Proof. reflexivity. Qed.
Theorem gen_bitvector_from_ssz_bytes_eq n bs : omap bf_abs (Gen.bitvector_from_ssz_bytes n bs) = bv_from_bytes n bs.
Proof. apply gen_bitvector_from_bytes_eq. Qed.

Theorem gen_bitdyn_ssz_append_eq b buf : Gen.bitdyn_ssz_append b buf = Ok (buf ++ bd_into_bytes (bf_abs b)).
Proof. reflexivity. Qed.
Theorem gen_bitdyn_ssz_bytes_len_eq b : Gen.bitdyn_ssz_bytes_len b = Ok (len (bf_bytes (bf_abs b))).
Proof. reflexivity. Qed.
Theorem gen_bitdyn_from_ssz_bytes_eq bs :
  8 * len bs <= usize_max ->
  omap bf_abs (Gen.bitdyn_from_ssz_bytes bs) = bd_decode bs.
Proof.
  intro H. unfold Gen.bitdyn_from_ssz_bytes, bd_decode. rewrite !llen_len.
  destruct bs as [|x r]; [reflexivity|].
  replace (len (x :: r) =? 0) with false by (symmetry; apply N.eqb_neq; unfold len; cbn [length]; lia).
  unfold usize_mul. destruct (len (x :: r) * 8 <=? usize_max) eqn:E; [|apply N.leb_gt in E; lia]. cbn [bind].
  apply gen_bitfield_from_raw_bytes_eq.
Qed.

(** The equivalences rest on no axioms. *)
Print Assumptions gen_bitfield_highest_set_bit_eq.
Print Assumptions gen_bitfield_num_set_bits_eq.
Print Assumptions gen_bitfield_difference_eq.
Print Assumptions gen_bitlist_into_bytes_eq.
Print Assumptions gen_bitlist_from_bytes_eq.
Print Assumptions gen_bitlist_intersection_eq.
Print Assumptions gen_bitlist_union_eq.
Print Assumptions gen_bitvector_intersection_eq.
Print Assumptions gen_bitvector_union_eq.
Print Assumptions gen_bitdyn_intersection_eq.
Print Assumptions gen_bitdyn_union_eq.
Print Assumptions gen_bitdyn_from_ssz_bytes_eq.
Print Assumptions gen_bitlist_ssz_append_eq.
Print Assumptions gen_bitlist_resize_eq.

(** [Hash]: what the source feeds to the hasher is the model's [bf_hash_stream] *)
Theorem gen_bitfield_hash_eq b st : Gen.bitfield_hash b st = Ok (st ++ bf_hash_stream (bf_abs b)).
Proof.
  unfold Gen.bitfield_hash, hash_bytes, hash_usize, bf_hash_stream. destruct b as [bs l]. cbn [Gen.Bitfield_bytes Gen.Bitfield_len bf_abs bf_bytes bf_len].
  rewrite <- !app_assoc. reflexivity.
Qed.
Print Assumptions gen_bitfield_hash_eq.

Theorem gen_bitvector_default_eq n : Gen.bitvector_default n = Gen.bitvector_new n.
Proof. reflexivity. Qed.
Print Assumptions gen_bitvector_default_eq.
