(** * Size prediction is exact (C07, dynamic part). *)
From SSZ Require Import Base BaseFacts Offsets OffsetsFacts Encoder EncoderFacts Layout LayoutFacts
     Bitfield Types Codec Spec CodecUnfold MetaFacts AppendFacts LeafIface.
From Coq Require Import ZArith ZifyN ZifyNat ZifyBool.
Ltac Zify.zify_post_hook ::= Z.div_mod_to_equations.
Open Scope N_scope.

Definition size_ok (t : ty) : Prop :=
  forall v, has_ty t v = true ->
    bytes_len t v = len (enc t v) /\ (e_is_fixed t = true -> len (enc t v) = e_fixed_len t).

Lemma enc_option_some t x : enc (TOption t) (VSome x) = 1 :: enc t x.
Proof. unfold enc at 1. cbn [append]. rewrite append_spec. reflexivity. Qed.
Lemma enc_legacy_some t x : enc (TLegacyOpt t) (VSome x) = encode_length 1 ++ enc t x.
Proof. unfold enc at 1. cbn [append]. rewrite append_spec. reflexivity. Qed.
Lemma enc_union ts i x :
  enc (TUnion ts) (VUnion i x) =
  match nth_error ts i with Some t => N.of_nat i :: enc t x | None => [] end.
Proof.
  unfold enc at 1. rewrite append_union. destruct (nth_error ts i); [|reflexivity].
  rewrite append_spec. reflexivity.
Qed.
Lemma enc_trans ts i x :
  enc (TTransEnum ts) (VUnion i x) =
  match nth_error ts i with Some t => enc t x | None => [] end.
Proof. unfold enc at 1. rewrite append_trans. destruct (nth_error ts i); reflexivity. Qed.

Lemma seq_enc_len f encs :
  len (seq_enc f encs) =
  if f then sumN (map len encs) else sumN (map len encs) + 4 * N.of_nat (length encs).
Proof.
  unfold seq_enc. destruct f.
  - apply len_concat.
  - rewrite asm_len. induction encs as [|e encs IH]; cbn [map sumN length fst snd]; [reflexivity|].
    rewrite IH. lia.
Qed.

Lemma size_seq t vs :
  size_ok t -> forallb (has_ty t) vs = true ->
  seq_bytes_len (e_is_fixed t) (e_fixed_len t) (map (bytes_len t) vs)
  = len (seq_enc (e_is_fixed t) (map (enc t) vs)).
Proof.
  intros Ht Hvs. rewrite seq_enc_len. unfold seq_bytes_len. rewrite !map_length.
  destruct (e_is_fixed t) eqn:Ef.
  - induction vs as [|v vs IH]; cbn [map sumN length forallb] in *; [lia|].
    apply andb_prop in Hvs as [Hv Hvs]. destruct (Ht v Hv) as [_ Hl]. first [rewrite (Hl Ef) | rewrite (Hl eq_refl)]. rewrite <- (IH Hvs). lia.
  - unfold BYTES_PER_LENGTH_OFFSET. f_equal.
    induction vs as [|v vs IH]; cbn [map sumN forallb] in *; [reflexivity|].
    apply andb_prop in Hvs as [Hv Hvs]. destruct (Ht v Hv) as [Hb _]. rewrite Hb, (IH Hvs). rewrite map_map. reflexivity.
Qed.

Lemma size_container d fs : Forall size_ok fs -> size_ok (TContainer d fs).
Proof.
  intros HF v Hv. destruct v; try discriminate. rewrite has_ty_container in Hv.
  rewrite enc_container, asm_len, bytes_len_container, e_is_fixed_container, e_fixed_len_container.
  assert (G : forall vs, has_ty_fields fs vs = true ->
     sumN (map (fun p : part => if fst p then len (snd p) else 4 + len (snd p)) (cont_parts fs vs))
     = sumN (map (fun p => field_len (fst p) (snd p)) (combine fs vs)) /\
     (forallb e_is_fixed fs = true ->
      sumN (map (fun p => field_len (fst p) (snd p)) (combine fs vs)) = sumN (map e_fixed_len fs))).
  { clear vs Hv. induction HF as [|f fs Hf _ IH]; intros [|x vs] Hv; try discriminate.
    - cbn. auto.
    - rewrite has_ty_fields_cons in Hv. apply andb_prop in Hv as [Hx Hvs].
      destruct (IH vs Hvs) as [I1 I2]. destruct (Hf x Hx) as [Hb Hl].
      assert (Hh : (if e_is_fixed f then len (enc f x) else 4 + len (enc f x)) = field_len f x).
      { unfold field_len, BYTES_PER_LENGTH_OFFSET.
        destruct (e_is_fixed f) eqn:Ef; [first [rewrite (Hl Ef) | rewrite (Hl eq_refl)]|rewrite Hb]; reflexivity. }
      unfold cont_parts in *. cbn [combine map sumN fst snd forallb].
      rewrite I1, Hh. split; [reflexivity|].
      intros Hall. apply andb_prop in Hall as [Hf1 Hall]. rewrite (I2 Hall).
      unfold field_len. rewrite Hf1. reflexivity. }
  destruct (G vs Hv) as [G1 G2]. rewrite G1.
  destruct (forallb e_is_fixed fs) eqn:Eall.
  - split; [symmetry; auto|auto].
  - split; [reflexivity|discriminate].
Qed.

Lemma size_map k v : size_ok k -> size_ok v -> size_ok (TMap k v).
Proof.
  intros Hk Hv x Hx. destruct x as [| | |es| | | | | |]; try discriminate.
  cbn [has_ty] in Hx. apply andb_prop in Hx as [Hes _].
  assert (Hshape : Forall (fun e => exists a c, e = VCont [a; c]) es).
  { apply Forall_forall. intros e He. rewrite forallb_forall in Hes. specialize (Hes e He).
    destruct e; try discriminate. destruct vs as [|a [|c [|? ?]]]; try discriminate. eauto. }
  assert (Hty : forallb (has_ty (TContainer false [k; v])) es = true).
  { apply forallb_forall. intros e He. rewrite forallb_forall in Hes. specialize (Hes e He).
    destruct e; try discriminate. destruct vs as [|a [|c [|? ?]]]; try discriminate.
    rewrite has_ty_container. unfold has_ty_fields. cbn [length Nat.eqb combine forallb fst snd andb].
    now rewrite andb_true_r. }
  assert (Hc : size_ok (TContainer false [k; v])) by (apply size_container; constructor; [exact Hk|constructor; [exact Hv|constructor]]).
  rewrite (enc_map k v es Hshape), enc_list. split; [|discriminate].
  rewrite <- (size_seq _ es Hc Hty). cbn [bytes_len].
  rewrite e_is_fixed_container, e_fixed_len_container. cbn [forallb map sumN].
  rewrite !andb_true_r, N.add_0_r.
  unfold seq_bytes_len. rewrite !map_length.
  destruct (e_is_fixed k && e_is_fixed v) eqn:Ekv; [reflexivity|]. f_equal. f_equal.
  apply map_ext_in. intros e He. rewrite Forall_forall in Hshape. destruct (Hshape e He) as (a & c & ->).
  now rewrite N.add_0_r.
Qed.

Theorem size_facts (L : LeafFacts) t : size_ok t.
Proof.
  induction t using ty_ind'.
  - (* TUint *) intros v Hv. destruct v; try discriminate. unfold enc. cbn [append bytes_len e_fixed_len app].
    unfold len. rewrite le_bytes_length. auto.
  - intros v Hv. destruct v; try discriminate. unfold enc. cbn. auto.
  - intros v Hv. destruct v; try discriminate. unfold enc. cbn [append bytes_len e_fixed_len app].
    unfold len. rewrite le_bytes_length. auto.
  - (* TBytesN *) intros v Hv. destruct v; try discriminate. cbn [has_ty] in Hv.
    apply andb_prop in Hv as [_ Hl]. apply Nat.eqb_eq in Hl.
    unfold enc. cbn [append bytes_len e_fixed_len app]. unfold len. rewrite Hl. auto.
  - intros v Hv. destruct v; try discriminate. unfold enc. cbn [append bytes_len app]. split; [reflexivity|discriminate].
  - (* TList *) intros v Hv. destruct v; try discriminate. cbn [has_ty] in Hv.
    rewrite enc_list. split; [|discriminate]. cbn [bytes_len]. now apply size_seq.
  - (* TSet *) intros v Hv. destruct v; try discriminate. cbn [has_ty] in Hv. apply andb_prop in Hv as [Hv _].
    rewrite enc_set. split; [|discriminate]. cbn [bytes_len]. now apply size_seq.
  - now apply size_map.
  - (* TOption *) intros v Hv. destruct v; try discriminate.
    + unfold enc. cbn. split; [reflexivity|discriminate].
    + cbn [has_ty] in Hv. destruct (IHt v Hv) as [Hb _]. rewrite enc_option_some.
      cbn [bytes_len]. rewrite Hb, len_cons. split; [reflexivity|discriminate].
  - now apply size_container.
  - (* TUnion *) intros v Hv. destruct v; try discriminate. rewrite has_ty_union in Hv.
    apply andb_prop in Hv as [_ Hv]. unfold pick_has_ty in Hv.
    rewrite enc_union, bytes_len_union. destruct (nth_error vs i) as [t|] eqn:E; [|discriminate].
    rewrite Forall_forall in H. destruct (H t (nth_error_In _ _ E) v Hv) as [Hb _].
    rewrite Hb, len_cons. split; [reflexivity|discriminate].
  - (* TTag *) intros v Hv. destruct v; try discriminate. unfold enc. cbn. auto.
  - (* TTransEnum *) intros v Hv. destruct v; try discriminate. rewrite has_ty_trans in Hv.
    unfold pick_has_ty in Hv. rewrite enc_trans, bytes_len_trans.
    destruct (nth_error vs i) as [t|] eqn:E; [|discriminate].
    rewrite Forall_forall in H. destruct (H t (nth_error_In _ _ E) v Hv) as [Hb _].
    split; [exact Hb|discriminate].
  - (* TWrap *) intros v Hv. exact (IHt v Hv).
  - (* TBitVector *) intros v Hv. destruct v; try discriminate. cbn [has_ty] in Hv. apply N.eqb_eq in Hv.
    unfold enc. cbn [append bytes_len e_fixed_len app]. split; [reflexivity|]. intros _.
    now apply (lf_bv_len L).
  - intros v Hv. destruct v; try discriminate. unfold enc. cbn [append bytes_len app]. split; [reflexivity|discriminate].
  - intros v Hv. destruct v; try discriminate. unfold enc. cbn [append bytes_len app]. split; [reflexivity|discriminate].
  - (* TLegacyOpt *) intros v Hv. destruct v; try discriminate.
    + unfold enc. cbn [append bytes_len app]. rewrite encode_length_len. split; [reflexivity|discriminate].
    + cbn [has_ty] in Hv. destruct (IHt v Hv) as [Hb Hl]. rewrite enc_legacy_some, len_app, encode_length_len.
      cbn [bytes_len]. split; [|discriminate]. unfold BYTES_PER_LENGTH_OFFSET.
      destruct (e_is_fixed t) eqn:Ef; [first [rewrite (Hl Ef) | rewrite (Hl eq_refl)]|rewrite Hb]; lia.
Qed.
