(** * GenEquivEnc: the [Encode] impls that [rs2v] derives from the Rust text of
    ssz/src/encode/impls.rs and the rest of [SszEncoder] ([Generated.v]) are the corresponding
    cases of the type-generic model encoder [Codec.append] / [Codec.bytes_len].

    As on the decode side, trait-generic impls are translated in dictionary-passing style; the
    [Encode] members of a parameter type are pure functions ([T::ssz_append : A -> bytes -> bytes],
    [T::ssz_bytes_len : A -> N]): the trait's signatures are infallible.  Instantiated with the
    model's own [append t] / [bytes_len t] they give the recursive cases of the model.

    The source does checked [usize] arithmetic on lengths and offsets where the model is unbounded;
    the equalities are stated under the hypothesis that those numbers fit a [usize]. *)
From SSZ Require Import Base RustSem Offsets Encoder Types Codec BaseFacts Generated GenEquiv.
From Coq Require Import ZArith ZifyN ZifyBool ZifyNat Lia.
Open Scope N_scope.
Ltac Zify.zify_post_hook ::= Z.div_mod_to_equations.

(** ** leaf types *)
Theorem gen_uint_ssz_append n buf :
  Gen.u8_ssz_append n buf = Ok (append (TUint 1) (VUint n) buf) /\
  Gen.u16_ssz_append n buf = Ok (append (TUint 2) (VUint n) buf) /\
  Gen.u32_ssz_append n buf = Ok (append (TUint 4) (VUint n) buf) /\
  Gen.u64_ssz_append n buf = Ok (append (TUint 8) (VUint n) buf) /\
  Gen.u128_ssz_append n buf = Ok (append (TUint 16) (VUint n) buf) /\
  Gen.usize_ssz_append n buf = Ok (append (TUint 8) (VUint n) buf) /\
  Gen.u256_ssz_append n buf = Ok (append (TUint 32) (VUint n) buf) /\
  Gen.alloy_u128_ssz_append n buf = Ok (append (TUint 16) (VUint n) buf) /\
  Gen.nonzero_ssz_append n buf = Ok (append TNonZero (VUint n) buf).
Proof. repeat split; reflexivity. Qed.

Theorem gen_uint_ssz_bytes_len n :
  Gen.u8_ssz_bytes_len n = Ok (bytes_len (TUint 1) (VUint n)) /\
  Gen.u16_ssz_bytes_len n = Ok (bytes_len (TUint 2) (VUint n)) /\
  Gen.u32_ssz_bytes_len n = Ok (bytes_len (TUint 4) (VUint n)) /\
  Gen.u64_ssz_bytes_len n = Ok (bytes_len (TUint 8) (VUint n)) /\
  Gen.u128_ssz_bytes_len n = Ok (bytes_len (TUint 16) (VUint n)) /\
  Gen.usize_ssz_bytes_len n = Ok (bytes_len (TUint 8) (VUint n)) /\
  Gen.u256_ssz_bytes_len n = Ok (bytes_len (TUint 32) (VUint n)) /\
  Gen.alloy_u128_ssz_bytes_len n = Ok (bytes_len (TUint 16) (VUint n)) /\
  Gen.nonzero_ssz_bytes_len n = Ok (bytes_len TNonZero (VUint n)).
Proof. repeat split; reflexivity. Qed.

Theorem gen_uint_enc_metadata :
  Gen.u8_enc_is_ssz_fixed_len = Ok (e_is_fixed (TUint 1)) /\ Gen.u8_enc_ssz_fixed_len = Ok (e_fixed_len (TUint 1)) /\
  Gen.u16_enc_is_ssz_fixed_len = Ok (e_is_fixed (TUint 2)) /\ Gen.u16_enc_ssz_fixed_len = Ok (e_fixed_len (TUint 2)) /\
  Gen.u32_enc_is_ssz_fixed_len = Ok (e_is_fixed (TUint 4)) /\ Gen.u32_enc_ssz_fixed_len = Ok (e_fixed_len (TUint 4)) /\
  Gen.u64_enc_is_ssz_fixed_len = Ok (e_is_fixed (TUint 8)) /\ Gen.u64_enc_ssz_fixed_len = Ok (e_fixed_len (TUint 8)) /\
  Gen.u128_enc_is_ssz_fixed_len = Ok (e_is_fixed (TUint 16)) /\ Gen.u128_enc_ssz_fixed_len = Ok (e_fixed_len (TUint 16)) /\
  Gen.usize_enc_is_ssz_fixed_len = Ok (e_is_fixed (TUint 8)) /\ Gen.usize_enc_ssz_fixed_len = Ok (e_fixed_len (TUint 8)) /\
  Gen.u256_enc_is_ssz_fixed_len = Ok (e_is_fixed (TUint 32)) /\ Gen.u256_enc_ssz_fixed_len = Ok (e_fixed_len (TUint 32)) /\
  Gen.alloy_u128_enc_is_ssz_fixed_len = Ok (e_is_fixed (TUint 16)) /\ Gen.alloy_u128_enc_ssz_fixed_len = Ok (e_fixed_len (TUint 16)) /\
  Gen.nonzero_enc_is_ssz_fixed_len = Ok (e_is_fixed TNonZero) /\ Gen.nonzero_enc_ssz_fixed_len = Ok (e_fixed_len TNonZero) /\
  Gen.bool_enc_is_ssz_fixed_len = Ok (e_is_fixed TBool) /\ Gen.bool_enc_ssz_fixed_len = Ok (e_fixed_len TBool).
Proof. repeat split; reflexivity. Qed.

Theorem gen_bool_ssz_append b buf : Gen.bool_ssz_append b buf = Ok (append TBool (VBool b) buf).
Proof. destruct b; reflexivity. Qed.
Theorem gen_bool_ssz_bytes_len b : Gen.bool_ssz_bytes_len b = Ok (bytes_len TBool (VBool b)).
Proof. reflexivity. Qed.

Theorem gen_bytes_ssz_append bs buf :
  (forall n, Gen.array_ssz_append n bs buf = Ok (append (TBytesN (N.to_nat n)) (VBytes bs) buf)) /\
  (forall n, Gen.fixedbytes_ssz_append n bs buf = Ok (append (TBytesN (N.to_nat n)) (VBytes bs) buf)) /\
  Gen.address_ssz_append bs buf = Ok (append (TBytesN 20) (VBytes bs) buf) /\
  Gen.bloom_ssz_append bs buf = Ok (append (TBytesN 256) (VBytes bs) buf) /\
  Gen.alloy_bytes_ssz_append bs buf = Ok (append TByteList (VBytes bs) buf).
Proof. repeat split; reflexivity. Qed.

Theorem gen_bytes_ssz_bytes_len bs :
  (forall n, Gen.array_ssz_bytes_len (N.of_nat n) bs = Ok (bytes_len (TBytesN n) (VBytes bs))) /\
  (forall n, Gen.fixedbytes_ssz_bytes_len (N.of_nat n) bs = Ok (bytes_len (TBytesN n) (VBytes bs))) /\
  Gen.address_ssz_bytes_len bs = Ok (bytes_len (TBytesN 20) (VBytes bs)) /\
  Gen.bloom_ssz_bytes_len bs = Ok (bytes_len (TBytesN 256) (VBytes bs)) /\
  Gen.alloy_bytes_ssz_bytes_len bs = Ok (bytes_len TByteList (VBytes bs)).
Proof. repeat split; reflexivity. Qed.

(** the dictionary of a parameter type whose encoder is the model's: [T::ssz_append], [T::ssz_bytes_len] *)
Definition app_of (t : ty) : val -> bytes -> outcome bytes := fun x b => Ok (append t x b).
Definition len_of (t : ty) : val -> outcome N := fun x => Ok (bytes_len t x).

(** ** [Option<T>], [Arc<T>], [&T] *)
Theorem gen_option_ssz_append t x buf :
  Gen.option_ssz_append (app_of t) (Some x) buf = Ok (append (TOption t) (VSome x) buf) /\
  Gen.option_ssz_append (app_of t) None buf = Ok (append (TOption t) VNone buf).
Proof. split; reflexivity. Qed.

Theorem gen_option_ssz_bytes_len t x :
  bytes_len t x < usize_max ->
  Gen.option_ssz_bytes_len (len_of t) (Some x) = Ok (bytes_len (TOption t) (VSome x)) /\
  Gen.option_ssz_bytes_len (len_of t) None = Ok (bytes_len (TOption t) VNone).
Proof.
  intro H. split; [|reflexivity]. unfold Gen.option_ssz_bytes_len, len_of, checked_add. cbn [bytes_len bind].
  destruct (bytes_len t x + 1 <=? usize_max) eqn:E; [reflexivity | apply N.leb_gt in E; lia].
Qed.

Theorem gen_wrap_ssz_append t x buf :
  Gen.arc_ssz_append (app_of t) x buf = Ok (append (TWrap t) x buf) /\
  Gen.ref_ssz_append (app_of t) x buf = Ok (append (TWrap t) x buf).
Proof. split; destruct t; reflexivity. Qed.

Theorem gen_wrap_ssz_bytes_len t x :
  Gen.arc_ssz_bytes_len (len_of t) x = Ok (bytes_len (TWrap t) x) /\
  Gen.ref_ssz_bytes_len (len_of t) x = Ok (bytes_len (TWrap t) x).
Proof. split; destruct t; reflexivity. Qed.

(** ** [SszEncoder::container], [SszEncoder::append] *)
Theorem gen_encoder_container_eq buf n : omap enc_abs (Gen.encoder_container buf n) = Ok (enc_container buf n).
Proof. reflexivity. Qed.

Theorem gen_encoder_append_item_eq {A} (f : bool) (app : A -> bytes -> bytes) s x :
  Gen.SszEncoder_offset s + len (Gen.SszEncoder_variable_bytes s) <= usize_max ->
  omap enc_abs (Gen.encoder_append_item f (fun a b => Ok (app a b)) s x) = Ok (enc_append (enc_abs s) f (app x)).
Proof.
  intro H. unfold Gen.encoder_append_item.
  pose proof (gen_encoder_append_eq s f (fun buf => app x buf) H) as E. cbv beta in E.
  destruct (Gen.encoder_append s f _) as [s'| |]; cbn [omap bind] in *; try discriminate.
  exact E.
Qed.

(** ** [sequence_ssz_append] *)
Lemma fold_m_ext_local {S X} (F G : S -> X -> outcome S) l s : (forall s x, F s x = G s x) -> fold_m F l s = fold_m G l s.
Proof.
  intro H. revert s. induction l as [|x r IH]; intro s; cbn [fold_m]; [reflexivity|].
  rewrite H. destruct (G s x); cbn [bind]; [apply IH | reflexivity | reflexivity].
Qed.

(** every offset the encoder writes fits a [usize] *)
Fixpoint fits_run {A} (app : A -> bytes -> bytes) (off : N) (var : bytes) (items : list A) : Prop :=
  match items with
  | [] => True
  | x :: r => off + len var <= usize_max /\ fits_run app off (app x var) r
  end.

Lemma fixed_loop {A} (app : A -> bytes -> bytes) items : forall buf,
  fold_m (fun buf item => do b <- Ok (app item buf); Ok b) items buf = Ok (fold_left (fun b a => a b) (map app items) buf).
Proof. induction items as [|x r IH]; intro buf; [reflexivity|]. cbn [fold_m bind map fold_left]. apply IH. Qed.

Lemma var_loop {A} (app : A -> bytes -> bytes) items : forall s,
  fits_run app (Gen.SszEncoder_offset s) (Gen.SszEncoder_variable_bytes s) items ->
  omap enc_abs (fold_m (fun encoder item => do st <- Gen.encoder_append_item false (fun a b => Ok (app a b)) encoder item; Ok st) items s)
  = Ok (fold_left (fun st it => enc_append st (fst it) (snd it)) (map (fun a => (false, a)) (map app items)) (enc_abs s)).
Proof.
  induction items as [|x r IH]; intros s H; [reflexivity|].
  cbn [fits_run] in H. destruct H as (H0 & Hr). cbn [fold_m map fold_left fst snd].
  pose proof (gen_encoder_append_item_eq false app s x H0) as E.
  destruct (Gen.encoder_append_item false _ s x) as [s'| |]; cbn [omap bind] in *; try discriminate.
  apply (f_equal (fun o => match o with Ok c => c | _ => enc_abs s' end)) in E. rewrite <- E. apply IH.
  assert (Eo : Gen.SszEncoder_offset s' = e_offset (enc_abs s')) by reflexivity.
  assert (Ev : Gen.SszEncoder_variable_bytes s' = e_var (enc_abs s')) by reflexivity.
  rewrite Eo, Ev, E. exact Hr.
Qed.

Theorem gen_sequence_ssz_append_eq {A} (f : bool) (l : N) (app : A -> bytes -> bytes) items buf :
  (if f then l * llen items <= usize_max
   else llen items * 4 <= usize_max /\ fits_run app (llen items * 4) [] items) ->
  Gen.sequence_ssz_append f l (fun a b => Ok (app a b)) items buf = Ok (seq_append f (map app items) buf).
Proof.
  intro H. unfold Gen.sequence_ssz_append, seq_append. destruct f.
  - unfold usize_mul. destruct (l * llen items <=? usize_max) eqn:E; [|apply N.leb_gt in E; lia]. cbn [bind].
    rewrite (fold_m_ext_local _ (fun buf item => do b <- Ok (app item buf); Ok b)) by reflexivity.
    rewrite (fixed_loop app items buf). reflexivity.
  - destruct H as (H4 & Hf). rewrite gen_BYTES_PER_LENGTH_OFFSET. unfold BYTES_PER_LENGTH_OFFSET.
    unfold usize_mul. destruct (llen items * 4 <=? usize_max) eqn:E; [|apply N.leb_gt in E; lia]. cbn [bind Gen.encoder_container].
    pose proof (var_loop app items {| Gen.SszEncoder_offset := llen items * 4; Gen.SszEncoder_buf := buf; Gen.SszEncoder_variable_bytes := [] |} Hf) as HL.
    match goal with |- context [fold_m ?F items ?s] =>
      replace (fold_m F items s) with (fold_m (fun encoder item => do st <- Gen.encoder_append_item false (fun a b => Ok (app a b)) encoder item; Ok st) items s)
        by (apply fold_m_ext_local; intros; destruct (Gen.encoder_append_item false _ _ _); reflexivity) end.
    destruct (fold_m _ items _) as [s'| |]; cbn [omap bind] in *; try discriminate.
    apply (f_equal (fun o => match o with Ok c => c | _ => enc_abs s' end)) in HL.
    pose proof (gen_encoder_finalize_eq s') as HF.
    destruct (Gen.encoder_finalize s') as [s2| |]; cbn [omap bind] in *; try discriminate.
    apply (f_equal (fun o => match o with Ok c => c | _ => [] end)) in HF. rewrite HF, HL.
    unfold enc_run. rewrite map_length. unfold llen, enc_abs, enc_container.
    cbn [Gen.SszEncoder_offset Gen.SszEncoder_buf Gen.SszEncoder_variable_bytes]. reflexivity.
Qed.

(** ** [sequence_ssz_bytes_len] *)
Lemma usize_sum_ok l : forall acc, acc + sumN l <= usize_max -> fold_m usize_add l acc = Ok (acc + sumN l).
Proof.
  induction l as [|x r IH]; intros acc H; cbn [fold_m sumN] in *.
  - f_equal. lia.
  - unfold usize_add at 1. destruct (acc + x <=? usize_max) eqn:E; [|apply N.leb_gt in E; lia].
    cbn [bind]. rewrite IH by lia. f_equal. lia.
Qed.

Lemma mapM_pure_local {A B} (g : A -> B) l : mapM (fun x => Ok (g x)) l = Ok (map g l).
Proof. induction l as [|x r IH]; cbn [mapM map bind]; [reflexivity|]. rewrite IH. reflexivity. Qed.

Theorem gen_sequence_ssz_bytes_len_eq {A} (f : bool) (l : N) (bl : A -> N) items :
  (if f then l * llen items <= usize_max else sumN (map bl items) + 4 * llen items <= usize_max) ->
  Gen.sequence_ssz_bytes_len f l (fun a => Ok (bl a)) items = Ok (seq_bytes_len f l (map bl items)).
Proof.
  intro H. unfold Gen.sequence_ssz_bytes_len, seq_bytes_len. rewrite map_length. destruct f.
  - unfold usize_mul. destruct (l * llen items <=? usize_max) eqn:E; [reflexivity | apply N.leb_gt in E; lia].
  - rewrite (mapM_pure_local bl items). cbn [bind]. unfold usize_sum. rewrite usize_sum_ok by lia. cbn [bind].
    rewrite gen_BYTES_PER_LENGTH_OFFSET. unfold BYTES_PER_LENGTH_OFFSET.
    unfold usize_mul. destruct (4 * llen items <=? usize_max) eqn:E; [|apply N.leb_gt in E; lia]. cbn [bind].
    unfold usize_add. destruct (0 + sumN (map bl items) + 4 * llen items <=? usize_max) eqn:E2; [|apply N.leb_gt in E2; lia].
    reflexivity.
Qed.

(** ** [Vec<T>]: the list case of the model *)
Theorem gen_vec_ssz_append_eq t vs buf :
  (if e_is_fixed t then e_fixed_len t * llen vs <= usize_max
   else llen vs * 4 <= usize_max /\ fits_run (append t) (llen vs * 4) [] vs) ->
  Gen.vec_ssz_append (e_is_fixed t) (e_fixed_len t) (app_of t) vs buf = Ok (append (TList t) (VList vs) buf).
Proof.
  intro H. unfold Gen.vec_ssz_append, app_of. rewrite gen_sequence_ssz_append_eq by exact H. reflexivity.
Qed.

Theorem gen_vec_ssz_bytes_len_eq t vs :
  (if e_is_fixed t then e_fixed_len t * llen vs <= usize_max
   else sumN (map (bytes_len t) vs) + 4 * llen vs <= usize_max) ->
  Gen.vec_ssz_bytes_len (e_is_fixed t) (e_fixed_len t) (len_of t) vs = Ok (bytes_len (TList t) (VList vs)).
Proof.
  intro H. unfold Gen.vec_ssz_bytes_len, len_of. rewrite gen_sequence_ssz_bytes_len_eq by exact H. reflexivity.
Qed.

(** ** [SmallVec<[T; N]>] and [BTreeSet<T>] encode as the sequence of their elements (a set's in ascending order) *)
Theorem gen_smallvec_ssz_append_eq n t vs buf :
  (if e_is_fixed t then e_fixed_len t * llen vs <= usize_max
   else llen vs * 4 <= usize_max /\ fits_run (append t) (llen vs * 4) [] vs) ->
  Gen.smallvec_ssz_append n (e_is_fixed t) (e_fixed_len t) (app_of t) vs buf = Ok (append (TList t) (VList vs) buf).
Proof.
  intro H. unfold Gen.smallvec_ssz_append, app_of. rewrite gen_sequence_ssz_append_eq by exact H. reflexivity.
Qed.
Theorem gen_smallvec_ssz_bytes_len_eq n t vs :
  (if e_is_fixed t then e_fixed_len t * llen vs <= usize_max
   else sumN (map (bytes_len t) vs) + 4 * llen vs <= usize_max) ->
  Gen.smallvec_ssz_bytes_len n (e_is_fixed t) (e_fixed_len t) (len_of t) vs = Ok (bytes_len (TList t) (VList vs)).
Proof.
  intro H. unfold Gen.smallvec_ssz_bytes_len, len_of. rewrite gen_sequence_ssz_bytes_len_eq by exact H. reflexivity.
Qed.
Theorem gen_btreeset_ssz_append_eq t vs buf :
  (if e_is_fixed t then e_fixed_len t * llen vs <= usize_max
   else llen vs * 4 <= usize_max /\ fits_run (append t) (llen vs * 4) [] vs) ->
  Gen.btreeset_ssz_append (e_is_fixed t) (e_fixed_len t) (app_of t) vs buf = Ok (append (TSet t) (VList vs) buf).
Proof.
  intro H. unfold Gen.btreeset_ssz_append, app_of. rewrite gen_sequence_ssz_append_eq by exact H. reflexivity.
Qed.
Theorem gen_btreeset_ssz_bytes_len_eq t vs :
  (if e_is_fixed t then e_fixed_len t * llen vs <= usize_max
   else sumN (map (bytes_len t) vs) + 4 * llen vs <= usize_max) ->
  Gen.btreeset_ssz_bytes_len (e_is_fixed t) (e_fixed_len t) (len_of t) vs = Ok (bytes_len (TSet t) (VList vs)).
Proof.
  intro H. unfold Gen.btreeset_ssz_bytes_len, len_of. rewrite gen_sequence_ssz_bytes_len_eq by exact H. reflexivity.
Qed.

(** ** the other entry points: the default [as_ssz_bytes], its three overrides, [ssz_encode] *)
Theorem gen_default_as_ssz_bytes t x : Gen.encode_default_as_ssz_bytes (app_of t) x = Ok (enc t x).
Proof. reflexivity. Qed.
Theorem gen_ssz_encode_eq t x : Gen.ssz_encode (Gen.encode_default_as_ssz_bytes (app_of t)) x = Ok (enc t x).
Proof. reflexivity. Qed.
Theorem gen_as_ssz_bytes_overrides bs :
  (forall n, Gen.fixedbytes_as_ssz_bytes n bs = Gen.encode_default_as_ssz_bytes (Gen.fixedbytes_ssz_append n) bs) /\
  Gen.bloom_as_ssz_bytes bs = Gen.encode_default_as_ssz_bytes Gen.bloom_ssz_append bs /\
  Gen.alloy_bytes_as_ssz_bytes bs = Gen.encode_default_as_ssz_bytes Gen.alloy_bytes_ssz_append bs.
Proof. repeat split. Qed.

Print Assumptions gen_uint_ssz_append.
Print Assumptions gen_option_ssz_append.
Print Assumptions gen_option_ssz_bytes_len.
Print Assumptions gen_sequence_ssz_append_eq.
Print Assumptions gen_sequence_ssz_bytes_len_eq.
Print Assumptions gen_vec_ssz_append_eq.
Print Assumptions gen_vec_ssz_bytes_len_eq.
Print Assumptions gen_smallvec_ssz_append_eq.
Print Assumptions gen_smallvec_ssz_bytes_len_eq.
Print Assumptions gen_btreeset_ssz_append_eq.
Print Assumptions gen_btreeset_ssz_bytes_len_eq.
Print Assumptions gen_default_as_ssz_bytes.
Print Assumptions gen_ssz_encode_eq.
Print Assumptions gen_as_ssz_bytes_overrides.
