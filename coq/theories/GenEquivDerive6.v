(** * GenEquivDerive6: a union whose first payload type re-appears after a different one
    ([enum U3 { A(u8), B(u16), C(u8) }]): the selectors the derive macro writes and reads follow the declaration
    order (0, 1, 2), whatever the payload types are. *)
From SSZ Require Import Base RustSem Offsets Encoder Builder Types Codec CodecUnfold BaseFacts OffsetsFacts
     Generated GenEquiv GenEquivDec GenEquivEnc GenProps GeneratedDerive GenEquivDerive.
From Coq Require Import ZArith ZifyN ZifyBool ZifyNat Lia.
Open Scope N_scope.
Ltac Zify.zify_post_hook ::= Z.div_mod_to_equations.

Definition T_U3 : ty := TUnion [TUint 1; TUint 2; TUint 1].
Definition v_U3 (u : GenD.U3) : val :=
  match u with GenD.U3_A x => VUnion 0 (VUint x) | GenD.U3_B x => VUnion 1 (VUint x) | GenD.U3_C x => VUnion 2 (VUint x) end.

Theorem derive_U3_metadata :
  GenD.U3_enc_is_ssz_fixed_len = Ok (e_is_fixed T_U3) /\ GenD.U3_dec_is_ssz_fixed_len = Ok (d_is_fixed T_U3).
Proof. split; reflexivity. Qed.

Theorem derive_U3_ssz_append u buf : GenD.U3_ssz_append u buf = Ok (append T_U3 (v_U3 u) buf).
Proof. destruct u as [x|x|x]; reflexivity. Qed.

Theorem derive_U3_ssz_bytes_len u : GenD.U3_ssz_bytes_len u = Ok (bytes_len T_U3 (v_U3 u)).
Proof. destruct u as [x|x|x]; reflexivity. Qed.

Lemma dec_union3 t0 t1 t2 bs :
  dec (TUnion [t0; t1; t2]) bs =
  do p <- split_union_bytes bs;
  let (sel, body) := p in
  if sel =? 0 then omap (VUnion 0) (dec t0 body)
  else if sel =? 1 then omap (VUnion 1) (dec t1 body)
  else if sel =? 2 then omap (VUnion 2) (dec t2 body) else Err.
Proof.
  cbn [dec]. destruct (split_union_bytes bs) as [[sel body]| |]; cbn [bind]; try reflexivity.
  destruct (sel =? 0) eqn:E0. { apply N.eqb_eq in E0. subst. reflexivity. }
  destruct (sel =? 1) eqn:E1. { apply N.eqb_eq in E1. subst. reflexivity. }
  destruct (sel =? 2) eqn:E2. { apply N.eqb_eq in E2. subst. reflexivity. }
  apply N.eqb_neq in E0. apply N.eqb_neq in E1. apply N.eqb_neq in E2.
  destruct (N.to_nat sel) as [|[|[|n]]] eqn:En; try lia. reflexivity.
Qed.

Theorem derive_U3_from_ssz_bytes bs : omap v_U3 (GenD.U3_from_ssz_bytes bs) = dec T_U3 bs.
Proof.
  unfold GenD.U3_from_ssz_bytes. change (if true then ?a else ?b) with a.
  change (negb (127 =? Gen.MAX_UNION_SELECTOR)) with false. cbv iota beta.
  unfold T_U3. rewrite dec_union3, gen_split_union_bytes_eq.
  destruct (split_union_bytes bs) as [[sel body]| |]; cbn [bind omap]; try reflexivity.
  destruct (sel =? 0).
  - rewrite <- (gen_u8_from_ssz_bytes_eq body). destruct (Gen.u8_from_ssz_bytes body); reflexivity.
  - destruct (sel =? 1).
    + rewrite <- (gen_u16_from_ssz_bytes_eq body). destruct (Gen.u16_from_ssz_bytes body); reflexivity.
    + destruct (sel =? 2); [|reflexivity].
      rewrite <- (gen_u8_from_ssz_bytes_eq body). destruct (Gen.u8_from_ssz_bytes body); reflexivity.
Qed.

(** C15 for this definition: the selector written for a variant is its declaration index, and only 0, 1, 2 are read *)
Theorem Src_C15_U3_selectors u buf :
  exists rest, GenD.U3_ssz_append u buf = Ok (buf ++ (match u with GenD.U3_A _ => 0 | GenD.U3_B _ => 1 | GenD.U3_C _ => 2 end) :: rest).
Proof. rewrite derive_U3_ssz_append. destruct u as [x|x|x]; eexists; unfold T_U3; cbn [v_U3 append]; rewrite <- app_assoc; reflexivity. Qed.

Print Assumptions derive_U3_metadata.
Print Assumptions derive_U3_ssz_append.
Print Assumptions derive_U3_ssz_bytes_len.
Print Assumptions derive_U3_from_ssz_bytes.
Print Assumptions Src_C15_U3_selectors.
