(** * GenEquivSerde: the serde impls of the three bitfield types (C18), as written in the source, are the model's
    [serde_ser] / [serde_de]: "0x" + lowercase hex of the SSZ encoding; the prefixed hex string, then the SSZ
    decoder.  The hex crate's two functions are primitives (RustSem.v). *)
From SSZ Require Import Base RustSem Bitfield BitfieldOps Hex HexFacts Generated GenEquiv GenEquivBits.
From Coq Require Import ZArith ZifyN ZifyBool ZifyNat Lia.
Open Scope N_scope.
Local Arguments N.mul : simpl never.
Local Arguments N.add : simpl never.

Theorem gen_bitvector_serialize_eq n b : Gen.bitvector_serialize n b = Ok (serde_ser (FVec n) (bf_abs b)).
Proof. reflexivity. Qed.
Theorem gen_bitdyn_serialize_eq b : Gen.bitdyn_serialize b = Ok (serde_ser FDyn (bf_abs b)).
Proof. reflexivity. Qed.
Theorem gen_bitlist_serialize_eq n b :
  bf_len (bf_abs b) < usize_max ->
  Gen.bitlist_serialize n b = omap hex_encode (bl_into_bytes (bf_abs b)).
Proof.
  intro H. unfold Gen.bitlist_serialize, Gen.encode_default_as_ssz_bytes. rewrite gen_bitlist_ssz_append_eq by exact H.
  destruct (bl_into_bytes (bf_abs b)); reflexivity.
Qed.
(** when the list is encodable at all this is the model's serializer *)
Theorem gen_bitlist_serialize_model n b bs :
  bf_len (bf_abs b) < usize_max -> bl_into_bytes (bf_abs b) = Ok bs ->
  Gen.bitlist_serialize n b = Ok (serde_ser (FList n) (bf_abs b)).
Proof. intros H E. rewrite gen_bitlist_serialize_eq by exact H. unfold serde_ser, i_ssz. rewrite E. reflexivity. Qed.

Lemma prefixed_hex_decode_wfb s bs : prefixed_hex_decode s = Some bs -> wfb bs.
Proof. intro H. apply prefixed_hex_decode_some in H as (h & _ & Hh). exact (wfb_bytes_of_hex h bs Hh). Qed.

Theorem gen_bitvector_deserialize_eq n s : omap bf_abs (Gen.bitvector_deserialize n s) = serde_de (FVec n) s.
Proof.
  unfold Gen.bitvector_deserialize, serde_de. destruct (prefixed_hex_decode s) as [bs|]; cbn [ok_or bind i_decode]; [|reflexivity].
  apply gen_bitvector_from_ssz_bytes_eq.
Qed.
Theorem gen_bitlist_deserialize_eq n s :
  (forall bs, prefixed_hex_decode s = Some bs -> 8 * len bs <= usize_max) ->
  omap bf_abs (Gen.bitlist_deserialize n s) = serde_de (FList n) s.
Proof.
  intro Hs. unfold Gen.bitlist_deserialize, serde_de. destruct (prefixed_hex_decode s) as [bs|] eqn:E; cbn [ok_or bind i_decode]; [|reflexivity].
  apply gen_bitlist_from_ssz_bytes_eq; [exact (prefixed_hex_decode_wfb s bs E) | exact (Hs bs eq_refl)].
Qed.
Theorem gen_bitdyn_deserialize_eq s :
  (forall bs, prefixed_hex_decode s = Some bs -> 8 * len bs <= usize_max) ->
  omap bf_abs (Gen.bitdyn_deserialize s) = serde_de FDyn s.
Proof.
  intro Hs. unfold Gen.bitdyn_deserialize, serde_de. destruct (prefixed_hex_decode s) as [bs|] eqn:E; cbn [ok_or bind i_decode]; [|reflexivity].
  apply gen_bitdyn_from_ssz_bytes_eq. exact (Hs bs eq_refl).
Qed.

Print Assumptions gen_bitvector_serialize_eq.
Print Assumptions gen_bitdyn_serialize_eq.
Print Assumptions gen_bitlist_serialize_eq.
Print Assumptions gen_bitlist_serialize_model.
Print Assumptions gen_bitvector_deserialize_eq.
Print Assumptions gen_bitlist_deserialize_eq.
Print Assumptions gen_bitdyn_deserialize_eq.
