(** * Induction principle for [ty] and equations that replace the local fixpoints of the model
    by list functions, so that later proofs depend on this interface only. *)
From SSZ Require Import Base BaseFacts Offsets Encoder Builder Types Codec Spec.
Open Scope N_scope.

Section TyInd.
  Variable P : ty -> Prop.
  Hypothesis HUint : forall k, P (TUint k).
  Hypothesis HBool : P TBool.
  Hypothesis HNonZero : P TNonZero.
  Hypothesis HBytesN : forall n, P (TBytesN n).
  Hypothesis HByteList : P TByteList.
  Hypothesis HList : forall t, P t -> P (TList t).
  Hypothesis HSet : forall t, P t -> P (TSet t).
  Hypothesis HMap : forall k v, P k -> P v -> P (TMap k v).
  Hypothesis HOption : forall t, P t -> P (TOption t).
  Hypothesis HContainer : forall d fs, Forall P fs -> P (TContainer d fs).
  Hypothesis HUnion : forall vs, Forall P vs -> P (TUnion vs).
  Hypothesis HTag : forall n, P (TTag n).
  Hypothesis HTrans : forall vs, Forall P vs -> P (TTransEnum vs).
  Hypothesis HWrap : forall t, P t -> P (TWrap t).
  Hypothesis HBitVector : forall n, P (TBitVector n).
  Hypothesis HBitList : forall n, P (TBitList n).
  Hypothesis HBitDyn : P TBitDyn.
  Hypothesis HLegacy : forall t, P t -> P (TLegacyOpt t).

  Fixpoint ty_ind' (t : ty) : P t :=
    let fix all (l : list ty) : Forall P l :=
      match l with
      | [] => Forall_nil P
      | x :: r => Forall_cons x (ty_ind' x) (all r)
      end in
    match t with
    | TUint k => HUint k
    | TBool => HBool
    | TNonZero => HNonZero
    | TBytesN n => HBytesN n
    | TByteList => HByteList
    | TList a => HList a (ty_ind' a)
    | TSet a => HSet a (ty_ind' a)
    | TMap k v => HMap k v (ty_ind' k) (ty_ind' v)
    | TOption a => HOption a (ty_ind' a)
    | TContainer d fs => HContainer d fs (all fs)
    | TUnion vs => HUnion vs (all vs)
    | TTag n => HTag n
    | TTransEnum vs => HTrans vs (all vs)
    | TWrap a => HWrap a (ty_ind' a)
    | TBitVector n => HBitVector n
    | TBitList n => HBitList n
    | TBitDyn => HBitDyn
    | TLegacyOpt a => HLegacy a (ty_ind' a)
    end.
End TyInd.

(** ** metadata *)
Lemma e_is_fixed_container d fs : e_is_fixed (TContainer d fs) = forallb e_is_fixed fs.
Proof. cbn [e_is_fixed]. induction fs as [|f r IH]; cbn [forallb]; [reflexivity|]. now rewrite IH. Qed.
Lemma d_is_fixed_container d fs : d_is_fixed (TContainer d fs) = forallb d_is_fixed fs.
Proof. cbn [d_is_fixed]. induction fs as [|f r IH]; cbn [forallb]; [reflexivity|]. now rewrite IH. Qed.

Lemma e_fixed_len_container d fs :
  e_fixed_len (TContainer d fs) =
  if forallb e_is_fixed fs then sumN (map e_fixed_len fs) else BYTES_PER_LENGTH_OFFSET.
Proof.
  cbn [e_fixed_len]. fold (e_is_fixed (TContainer d fs)). rewrite e_is_fixed_container.
  destruct (forallb e_is_fixed fs); [|reflexivity].
  induction fs as [|f r IH]; cbn [map sumN]; [reflexivity|]. now rewrite IH.
Qed.
Lemma d_fixed_len_container d fs :
  d_fixed_len (TContainer d fs) =
  if forallb d_is_fixed fs then sumN (map d_fixed_len fs) else BYTES_PER_LENGTH_OFFSET.
Proof.
  cbn [d_fixed_len]. fold (d_is_fixed (TContainer d fs)). rewrite d_is_fixed_container.
  destruct (forallb d_is_fixed fs); [|reflexivity].
  induction fs as [|f r IH]; cbn [map sumN]; [reflexivity|]. now rewrite IH.
Qed.

(** ** has_ty *)
Definition has_ty_fields (fs : list ty) (vs : list val) : bool :=
  Nat.eqb (length fs) (length vs) && forallb (fun p => has_ty (fst p) (snd p)) (combine fs vs).

Lemma has_ty_container d fs vs : has_ty (TContainer d fs) (VCont vs) = has_ty_fields fs vs.
Proof.
  cbn [has_ty]. unfold has_ty_fields. revert vs.
  induction fs as [|f r IH]; intros [|v vs]; cbn [length Nat.eqb combine forallb andb fst snd]; try reflexivity.
  rewrite IH. destruct (has_ty f v); cbn [andb]; [reflexivity|]. now rewrite andb_false_r.
Qed.

Lemma has_ty_fields_cons f fs v vs :
  has_ty_fields (f :: fs) (v :: vs) = has_ty f v && has_ty_fields fs vs.
Proof.
  unfold has_ty_fields. cbn [length Nat.eqb combine forallb fst snd].
  destruct (has_ty f v); cbn [andb]; [reflexivity|]. now rewrite andb_false_r.
Qed.
Lemma has_ty_fields_nil_l vs : has_ty_fields [] vs = match vs with [] => true | _ => false end.
Proof. destruct vs; reflexivity. Qed.
Lemma has_ty_fields_nil_r fs : has_ty_fields fs [] = match fs with [] => true | _ => false end.
Proof. destruct fs; reflexivity. Qed.

Definition pick_has_ty (ts : list ty) (i : nat) (v : val) : bool :=
  match nth_error ts i with Some t => has_ty t v | None => false end.
Lemma has_ty_union ts i v :
  has_ty (TUnion ts) (VUnion i v) = Nat.leb (length ts) 128 && pick_has_ty ts i v.
Proof.
  cbn [has_ty]. f_equal. unfold pick_has_ty. revert i.
  induction ts as [|t r IH]; intros [|i]; cbn [nth_error]; try reflexivity. apply IH.
Qed.
Lemma has_ty_trans ts i v : has_ty (TTransEnum ts) (VUnion i v) = pick_has_ty ts i v.
Proof.
  cbn [has_ty]. unfold pick_has_ty. revert i.
  induction ts as [|t r IH]; intros [|i]; cbn [nth_error]; try reflexivity. apply IH.
Qed.

(** ** append *)
Definition cont_items (fs : list ty) (vs : list val) : list (bool * (bytes -> bytes)) :=
  map (fun p => (e_is_fixed (fst p), append (fst p) (snd p))) (combine fs vs).

Lemma append_container d fs vs buf :
  append (TContainer d fs) (VCont vs) buf =
  enc_run buf (sumN (map e_fixed_len fs)) (cont_items fs vs).
Proof.
  cbn [append]. f_equal.
  - induction fs as [|f r IH]; cbn [map sumN]; [reflexivity|]. now rewrite IH.
  - unfold cont_items. revert vs.
    induction fs as [|f r IH]; intros [|v vs]; cbn [combine map fst snd]; try reflexivity.
    now rewrite IH.
Qed.

Lemma append_union ts i x buf :
  append (TUnion ts) (VUnion i x) buf =
  match nth_error ts i with Some t => append t x (buf ++ [N.of_nat i]) | None => buf end.
Proof.
  cbn [append]. generalize (N.of_nat i) as sel. revert i.
  induction ts as [|t r IH]; intros [|i] sel; cbn [nth_error]; try reflexivity. apply IH.
Qed.
Lemma append_trans ts i x buf :
  append (TTransEnum ts) (VUnion i x) buf =
  match nth_error ts i with Some t => append t x buf | None => buf end.
Proof.
  cbn [append]. revert i.
  induction ts as [|t r IH]; intros [|i]; cbn [nth_error]; try reflexivity. apply IH.
Qed.

(** ** bytes_len *)
Definition field_len (f : ty) (x : val) : N :=
  if e_is_fixed f then e_fixed_len f else BYTES_PER_LENGTH_OFFSET + bytes_len f x.
Lemma bytes_len_container d fs vs :
  bytes_len (TContainer d fs) (VCont vs) =
  if forallb e_is_fixed fs then sumN (map e_fixed_len fs)
  else sumN (map (fun p => field_len (fst p) (snd p)) (combine fs vs)).
Proof.
  cbn [bytes_len]. fold (e_is_fixed (TContainer d fs)). rewrite e_is_fixed_container.
  fold (e_fixed_len (TContainer d fs)). rewrite e_fixed_len_container.
  destruct (forallb e_is_fixed fs); [reflexivity|].
  revert vs. induction fs as [|f r IH]; intros [|v vs]; cbn [combine map sumN fst snd]; try reflexivity.
  rewrite IH. reflexivity.
Qed.
Lemma bytes_len_union ts i x :
  bytes_len (TUnion ts) (VUnion i x) =
  match nth_error ts i with Some t => bytes_len t x + 1 | None => 0 end.
Proof.
  cbn [bytes_len]. revert i.
  induction ts as [|t r IH]; intros [|i]; cbn [nth_error]; try reflexivity. apply IH.
Qed.
Lemma bytes_len_trans ts i x :
  bytes_len (TTransEnum ts) (VUnion i x) =
  match nth_error ts i with Some t => bytes_len t x | None => 0 end.
Proof.
  cbn [bytes_len]. revert i.
  induction ts as [|t r IH]; intros [|i]; cbn [nth_error]; try reflexivity. apply IH.
Qed.

(** ** dec *)
Fixpoint split_dec (fs : list (N * (bytes -> outcome val))) (rest : bytes) : outcome (list val) :=
  match fs with
  | [] => Ok []
  | (l, d) :: fr =>
      do p <- split_at rest l;
      do x <- d (fst p);
      do xs <- split_dec fr (snd p);
      Ok (x :: xs)
  end.

Definition regs_of (fs : list ty) : list (bool * N) := map (fun f => (d_is_fixed f, d_fixed_len f)) fs.

Lemma dec_container d fs bs :
  dec (TContainer d fs) bs =
  if d && forallb d_is_fixed fs then
    if negb (len bs =? sumN (map d_fixed_len fs)) then Err
    else omap VCont (split_dec (map (fun f => (d_fixed_len f, dec f)) fs) bs)
  else
    do items <- builder_build (regs_of fs) bs;
    omap VCont (decode_all items (map dec fs)).
Proof.
  cbn [dec].
  replace ((fix all (fs0 : list ty) : bool :=
              match fs0 with [] => true | f :: r => d_is_fixed f && all r end) fs)
    with (forallb d_is_fixed fs)
    by (induction fs as [|f r IH]; cbn [forallb]; [reflexivity|]; now rewrite IH).
  destruct (d && forallb d_is_fixed fs).
  - replace ((fix sum (fs0 : list ty) : N :=
                match fs0 with [] => 0 | f :: r => d_fixed_len f + sum r end) fs)
      with (sumN (map d_fixed_len fs))
      by (induction fs as [|f r IH]; cbn [map sumN]; [reflexivity|]; now rewrite IH).
    destruct (negb (len bs =? sumN (map d_fixed_len fs))); [reflexivity|].
    f_equal. revert bs. induction fs as [|f r IH]; intros bs; cbn [map split_dec]; [reflexivity|].
    destruct (split_at bs (d_fixed_len f)) as [[a b]| |]; cbn [bind fst snd]; try reflexivity.
    destruct (dec f a); cbn [bind]; try reflexivity. rewrite IH. reflexivity.
  - unfold regs_of.
    replace ((fix go (fs0 : list ty) : list (bool * N) :=
                match fs0 with [] => [] | f :: r => (d_is_fixed f, d_fixed_len f) :: go r end) fs)
      with (map (fun f => (d_is_fixed f, d_fixed_len f)) fs)
      by (induction fs as [|f r IH]; cbn [map]; [reflexivity|]; now rewrite IH).
    replace ((fix go (fs0 : list ty) : list (bytes -> outcome val) :=
                match fs0 with [] => [] | f :: r => dec f :: go r end) fs)
      with (map dec fs)
      by (induction fs as [|f r IH]; cbn [map]; [reflexivity|]; now rewrite IH).
    reflexivity.
Qed.

Lemma dec_union ts bs :
  dec (TUnion ts) bs =
  do p <- split_union_bytes bs;
  match nth_error ts (N.to_nat (fst p)) with
  | Some t => omap (VUnion (N.to_nat (fst p))) (dec t (snd p))
  | None => Err
  end.
Proof.
  cbn [dec]. destruct (split_union_bytes bs) as [[sel body]| |]; cbn [bind fst snd]; try reflexivity.
  generalize (N.to_nat sel) at 2 4 as idx. generalize (N.to_nat sel) as j.
  induction ts as [|t r IH]; intros [|j] idx; cbn [nth_error]; try reflexivity. apply IH.
Qed.

Fixpoint first_ok (ds : list (bytes -> outcome val)) (bs : bytes) (idx : nat) : outcome val :=
  match ds with
  | [] => Err
  | d :: r => match d bs with
              | Ok x => Ok (VUnion idx x)
              | Err => first_ok r bs (S idx)
              | Panic => Panic
              end
  end.
Lemma dec_trans ts bs : dec (TTransEnum ts) bs = first_ok (map dec ts) bs 0.
Proof.
  cbn [dec]. generalize 0%nat as idx.
  induction ts as [|t r IH]; intros idx; cbn [map first_ok]; [reflexivity|].
  destruct (dec t bs); try reflexivity. apply IH.
Qed.

(** ** spec_enc *)
Definition spec_elems (fs : list ty) (vs : list val) : list (bool * bytes) :=
  map (fun p => (is_variable (fst p), spec_enc (fst p) (snd p))) (combine fs vs).
Lemma spec_enc_container d fs vs :
  spec_enc (TContainer d fs) (VCont vs) = spec_series (spec_elems fs vs).
Proof.
  cbn [spec_enc]. f_equal. unfold spec_elems. revert vs.
  induction fs as [|f r IH]; intros [|v vs]; cbn [combine map fst snd]; try reflexivity.
  now rewrite IH.
Qed.
Lemma is_variable_container d fs : is_variable (TContainer d fs) = existsb is_variable fs.
Proof. cbn [is_variable]. induction fs as [|f r IH]; cbn [existsb]; [reflexivity|]. now rewrite IH. Qed.
Lemma spec_enc_union ts i x :
  spec_enc (TUnion ts) (VUnion i x) =
  match nth_error ts i with Some t => N.of_nat i :: spec_enc t x | None => [] end.
Proof.
  cbn [spec_enc]. generalize (N.of_nat i) as sel. revert i.
  induction ts as [|t r IH]; intros [|i] sel; cbn [nth_error]; try reflexivity. apply IH.
Qed.
Lemma spec_enc_trans ts i x :
  spec_enc (TTransEnum ts) (VUnion i x) =
  match nth_error ts i with Some t => spec_enc t x | None => [] end.
Proof.
  cbn [spec_enc]. revert i.
  induction ts as [|t r IH]; intros [|i]; cbn [nth_error]; try reflexivity. apply IH.
Qed.

(** ** ty_all *)
Lemma ty_all_list p (fs : list ty) :
  (fix all fs := match fs with [] => true | f :: r => ty_all p f && all r end) fs = forallb (ty_all p) fs.
Proof. induction fs as [|f r IH]; cbn [forallb]; [reflexivity|]. now rewrite IH. Qed.
