(** * Offsets: the 4-byte length-offset word and [sanitize_offset]
    (ssz/src/encode.rs:139-166, ssz/src/decode.rs:75-94, 353-376, ssz/src/lib.rs:54-68). *)
From SSZ Require Export Base RustSem.

Definition BYTES_PER_LENGTH_OFFSET : N := 4.
Definition MAX_LENGTH_VALUE : N := 4294967295.
Definition BYTES_PER_UNION_SELECTOR : N := 1.
Definition MAX_UNION_SELECTOR : N := 127.

(** [encode_length]: [len.to_le_bytes()[0..4]]; the [debug_assert] is outside every statement
    (values >= 2^32 are excluded by the theorems' hypotheses); the release build truncates. *)
Definition encode_length (n : N) : bytes := le_bytes 4 (n mod 4294967296).

(** [decode_offset]: exactly four bytes. *)
Definition decode_offset (bs : bytes) : outcome N :=
  if len bs =? 4 then Ok (le_val bs) else Err.

(** [read_offset]: [bytes.get(0..4)] then [decode_offset]. *)
Definition read_offset (bs : bytes) : outcome N :=
  do w <- ok_or (get_range bs 0 4); decode_offset w.

(* [is_some_and], [is_none]: RustSem.v *)

(** [sanitize_offset], branch for branch. *)
Definition sanitize_offset (offset : N) (previous_offset : option N) (num_bytes : N)
           (num_fixed_bytes : option N) : outcome N :=
  if is_some_and num_fixed_bytes (fun fixed_bytes => offset <? fixed_bytes) then Err
  else if is_none previous_offset
          && is_some_and num_fixed_bytes (fun fixed_bytes => negb (offset =? fixed_bytes)) then Err
  else if num_bytes <? offset then Err
  else if is_some_and previous_offset (fun prev => offset <? prev) then Err
  else Ok offset.

(** [UnionSelector::new] and [split_union_bytes] (ssz/src/union_selector.rs, decode.rs:339-349). *)
Definition union_selector_new (s : N) : outcome N :=
  if s <=? MAX_UNION_SELECTOR then Ok s else Err.

Definition split_union_bytes (bs : bytes) : outcome (N * bytes) :=
  match bs with
  | [] => Err
  | s :: _ =>
      do sel <- union_selector_new s;
      do body <- ok_or (get_from bs 1);
      Ok (sel, body)
  end.
