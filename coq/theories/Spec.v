(** * Spec: the SSZ serialization as the consensus-spec text (simple-serialize.md) states it.

    Written independently of [Codec.v] and in a different style: closed formulas and list
    comprehensions (fixed parts, lengths, offsets as prefix sums, join) instead of an encoder
    state machine; integers by positional formula instead of repeated division; bitfields as
    boolean sequences packed by index formula instead of [set] on a byte buffer.
    Definitions only. *)
From SSZ Require Export Types.

(** [value.to_bytes(k, "little")]: byte i is floor(n / 256^i) mod 256. *)
Definition spec_uint (k : nat) (n : N) : bytes :=
  map (fun i => (n / 256 ^ N.of_nat i) mod 256) (seq 0 k).

(** "array[i // 8] |= value[i] << (i % 8)": byte j collects bits 8j .. 8j+7. *)
Definition spec_byte_of_bits (bits : list bool) (j : nat) : N :=
  sumN (map (fun i => if nth (8 * j + i)%nat bits false then 2 ^ N.of_nat i else 0) (seq 0 8)).
Definition spec_pack (bits : list bool) (nbytes : nat) : bytes :=
  map (spec_byte_of_bits bits) (seq 0 nbytes).

(** Bitvector[N]: (N + 7) // 8 bytes; the library uses one zero byte for N = 0 (documented). *)
Definition spec_bitvector (bits : list bool) : bytes :=
  spec_pack bits (Nat.max 1 (Nat.div (length bits + 7)%nat 8)).
(** Bitlist[N]: (len // 8) + 1 bytes, with the delimiter bit at index len. *)
Definition spec_bitlist (bits : list bool) : bytes :=
  spec_pack (bits ++ [true]) (S (Nat.div (length bits) 8)).

(** "variable-size" types of the spec, with the library's documented mappings. *)
Fixpoint is_variable (t : ty) : bool :=
  match t with
  | TUint _ | TBool | TNonZero | TBytesN _ | TTag _ | TBitVector _ => false
  | TContainer _ fs => (fix any fs := match fs with [] => false | f :: r => is_variable f || any r end) fs
  | TWrap t => is_variable t
  | _ => true
  end.

(** serialize() of a vector / container / list given, per element, whether its type is
    variable-size and its serialization. *)
Definition spec_series (elems : list (bool * bytes)) : bytes :=
  let fixed_parts := map (fun e : bool * bytes => if fst e then None else Some (snd e)) elems in
  let variable_parts := map (fun e : bool * bytes => if fst e then snd e else []) elems in
  let fixed_lengths := map (fun p : option bytes => match p with Some s => len s | None => BYTES_PER_LENGTH_OFFSET end)
                           fixed_parts in
  let variable_lengths := map len variable_parts in
  let variable_offsets :=
    map (fun i => spec_uint 4 (sumN fixed_lengths + sumN (firstn i variable_lengths)))
        (seq 0 (length elems)) in
  let fixed_parts' :=
    map (fun ip : nat * option bytes => match snd ip with Some s => s | None => nth (fst ip) variable_offsets [] end)
        (combine (seq 0 (length elems)) fixed_parts) in
  concat fixed_parts' ++ concat variable_parts.

Fixpoint spec_enc (t : ty) (v : val) {struct t} : bytes :=
  match t, v with
  | TUint k, VUint n => spec_uint k n
  | TBool, VBool b => if b then [1] else [0]
  | TNonZero, VUint n => spec_uint 8 n                                  (* uint64 *)
  | TBytesN _, VBytes bs => bs                                          (* Vector[uint8, N] *)
  | TByteList, VBytes bs => bs                                          (* List[uint8, _] *)
  | TList t, VList vs => spec_series (map (fun x => (is_variable t, spec_enc t x)) vs)
  | TSet t, VList vs => spec_series (map (fun x => (is_variable t, spec_enc t x)) vs)
  | TMap k v, VList es =>                                               (* List[Container[k, v]] *)
      let entry_var := is_variable k || is_variable v in
      spec_series
        (map (fun e => (entry_var,
                        match e with
                        | VCont [a; c] => spec_series [(is_variable k, spec_enc k a);
                                                       (is_variable v, spec_enc v c)]
                        | _ => []
                        end)) es)
  | TOption t, VNone => [0]                                             (* Union[None, T] *)
  | TOption t, VSome x => 1 :: spec_enc t x
  | TContainer _ fs, VCont vs =>
      spec_series ((fix go fs vs := match fs, vs with
                                    | f :: fr, x :: vr => (is_variable f, spec_enc f x) :: go fr vr
                                    | _, _ => []
                                    end) fs vs)
  | TUnion ts, VUnion i x =>
      (fix pick ts j := match ts, j with
                        | [], _ => []
                        | t :: _, O => N.of_nat i :: spec_enc t x
                        | _ :: r, S j' => pick r j'
                        end) ts i
  | TTag _, VTag i => spec_uint 1 (N.of_nat i)                          (* uint8 *)
  | TTransEnum ts, VUnion i x =>
      (fix pick ts j := match ts, j with
                        | [], _ => []
                        | t :: _, O => spec_enc t x
                        | _ :: r, S j' => pick r j'
                        end) ts i
  | TWrap t, x => spec_enc t x
  | TBitVector _, VBits bits => spec_bitvector bits
  | TBitList _, VBits bits => spec_bitlist bits
  | TBitDyn, VBits bits => spec_pack bits (Nat.div (length bits) 8)             (* Bitvector[len] *)
  | TLegacyOpt t, VNone => spec_uint 4 0                                (* legacy: uint32 selector *)
  | TLegacyOpt t, VSome x => spec_uint 4 1 ++ spec_enc t x
  | _, _ => []
  end.

(** [bs] is the valid serialization of [v] at schema [t]. *)
Definition Valid (t : ty) (bs : bytes) (v : val) : Prop :=
  has_ty t v = true /\ spec_enc t v = bs.

Definition valid_b (t : ty) (bs : bytes) (v : val) : bool :=
  has_ty t v && bytes_eqb (spec_enc t v) bs.
