(** * Alloc: an account of the input-dependent heap requests of the decoders (C06).

    [units t bs] over-approximates, in ELEMENTS, everything [from_ssz_bytes] may reserve or
    collect while decoding [bs] at type [t], at every nesting level, on success and on every
    error path: the entries pre-reserved by [Vec::with_capacity(num_items)], the elements
    pushed by [collect()], and the bytes copied by [to_vec()] / [to_smallvec()].  Sequential
    early exit ([?]) is ignored (every slice the structure hands out is charged), which only
    makes the account larger.  Heap bytes are at most [max element size] x [units] x the growth
    factor of [Vec] (a std behaviour, assumed) plus a per-type constant (inline [SmallVec]
    spill, error strings); the C06 check compares the measured peak with exactly that.
    Definitions only. *)
From SSZ Require Export Codec.

(** The slices the variable-item list walk hands to item decoders before it stops on a
    structural error (the walk of [lv_items], without the item decoder). *)
Fixpoint lv_walk (bs : bytes) (first num_items : N) (fuel : nat) (i offset : N) : list bytes :=
  match fuel with
  | O => []
  | S fuel' =>
      if i =? num_items then
        match get_from bs offset with Some s => [s] | None => [] end
      else
        match index_from bs (i * BYTES_PER_LENGTH_OFFSET) with
        | Ok rest =>
            match read_offset rest with
            | Ok next =>
                match sanitize_offset next (Some offset) (len bs) (Some first) with
                | Ok off' =>
                    match get_range bs offset off' with
                    | Some s => s :: lv_walk bs first num_items fuel' (i + 1) off'
                    | None => []
                    end
                | _ => []
                end
            | _ => []
            end
        | _ => []
        end
  end.

(** (entries reserved up front, slices handed out) of [decode_list_of_variable_length_items] *)
Definition lv_alloc (bs : bytes) : N * list bytes :=
  match bs with
  | [] => (0, [])
  | _ =>
      match read_offset bs with
      | Ok first =>
          match sanitize_offset first None (len bs) (Some first) with
          | Ok _ =>
              if negb (first mod BYTES_PER_LENGTH_OFFSET =? 0) || (first <? BYTES_PER_LENGTH_OFFSET)
              then (0, [])
              else
                let num_items := first / BYTES_PER_LENGTH_OFFSET in
                (num_items, lv_walk bs first num_items (N.to_nat num_items) 1 first)
          | _ => (0, [])
          end
      | _ => (0, [])
      end
  end.

(** (elements, slices) of a sequence decoder *)
Definition seq_alloc (item_fixed : bool) (item_len : N) (bs : bytes) : N * list bytes :=
  match bs with
  | [] => (0, [])
  | _ =>
      if item_fixed then
        if item_len =? 0 then (0, [])
        else let cs := chunks (N.to_nat item_len) bs in (N.of_nat (length cs), cs)
      else lv_alloc bs
  end.

Fixpoint units (t : ty) (bs : bytes) {struct t} : N :=
  match t with
  | TUint _ | TBool | TNonZero | TBytesN _ | TTag _ => 0
  | TByteList | TBitVector _ | TBitList _ | TBitDyn => len bs
  | TList a | TSet a =>
      let p := seq_alloc (d_is_fixed a) (d_fixed_len a) bs in
      fst p + sumN (map (units a) (snd p))
  | TMap k v =>
      let entry_fixed := d_is_fixed k && d_is_fixed v in
      let entry_len := if entry_fixed then d_fixed_len k + d_fixed_len v else BYTES_PER_LENGTH_OFFSET in
      let p := seq_alloc entry_fixed entry_len bs in
      fst p + sumN (map (fun s =>
                           match builder_build [(d_is_fixed k, d_fixed_len k); (d_is_fixed v, d_fixed_len v)] s with
                           | Ok [sk; sv] => units k sk + units v sv
                           | _ => 0
                           end) (snd p))
  | TOption a =>
      match bs with
      | s :: body => if s =? 1 then units a body else 0
      | [] => 0
      end
  | TContainer derived fs =>
      let all_fixed := (fix all fs := match fs with [] => true | f :: r => d_is_fixed f && all r end) fs in
      if derived && all_fixed then
        (fix go fs (rest : bytes) : N :=
           match fs with
           | [] => 0
           | f :: fr => units f (take (d_fixed_len f) rest) + go fr (drop (d_fixed_len f) rest)
           end) fs bs
      else
        let regs := (fix go fs := match fs with [] => [] | f :: r => (d_is_fixed f, d_fixed_len f) :: go r end) fs in
        match builder_build regs bs with
        | Ok items =>
            (fix go fs (items : list bytes) : N :=
               match fs, items with
               | f :: fr, s :: ir => units f s + go fr ir
               | _, _ => 0
               end) fs items
        | _ => 0
        end
  | TUnion ts =>
      match bs with
      | s :: body =>
          (fix pick ts (j : nat) : N :=
             match ts with
             | [] => 0
             | t :: r => match j with O => units t body | S j' => pick r j' end
             end) ts (N.to_nat s)
      | [] => 0
      end
  | TTransEnum ts => (fix all ts : N := match ts with [] => 0 | t :: r => units t bs + all r end) ts
  | TWrap a => units a bs
  | TLegacyOpt a => units a (drop BYTES_PER_LENGTH_OFFSET bs)
  end.

(** The linear factor: one unit per byte at each list / byte-copy level of the type. *)
Fixpoint ufactor (t : ty) : N :=
  match t with
  | TUint _ | TBool | TNonZero | TBytesN _ | TTag _ => 0
  | TByteList | TBitVector _ | TBitList _ | TBitDyn => 1
  | TList a | TSet a | TOption a | TWrap a | TLegacyOpt a =>
      match t with TList _ | TSet _ => 1 + ufactor a | _ => ufactor a end
  | TMap k v => 1 + N.max (ufactor k) (ufactor v)
  | TContainer _ fs | TUnion fs =>
      (fix mx fs := match fs with [] => 0 | f :: r => N.max (ufactor f) (mx r) end) fs
  | TTransEnum fs =>
      (fix sm fs := match fs with [] => 0 | f :: r => ufactor f + sm r end) fs
  end.
