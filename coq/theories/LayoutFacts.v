(** * Algebra of [assemble]. *)
From SSZ Require Import Base BaseFacts Offsets OffsetsFacts Layout.
From Coq Require Import ZArith ZifyN ZifyNat ZifyBool.
Open Scope N_scope.

Lemma asm_fixed_len off parts : len (assemble_fixed off parts) = fixed_size parts.
Proof.
  revert off. induction parts as [|[[|] b] r IH]; intros off; unfold fixed_size in *;
    cbn [assemble_fixed map sumN fst snd]; [reflexivity| |].
  - rewrite len_app, IH. reflexivity.
  - rewrite len_app, IH, encode_length_len. reflexivity.
Qed.

Lemma var_concat_len parts :
  len (var_concat parts) = sumN (map (fun p : part => if fst p then 0 else len (snd p)) parts).
Proof.
  unfold var_concat. induction parts as [|[[|] b] r IH]; cbn [map concat sumN fst snd].
  - reflexivity.
  - cbn [app]. rewrite IH. lia.
  - rewrite len_app, IH. reflexivity.
Qed.

Lemma asm_len nf parts :
  len (assemble nf parts) =
  sumN (map (fun p : part => if fst p then len (snd p) else 4 + len (snd p)) parts).
Proof.
  unfold assemble. rewrite len_app, asm_fixed_len, var_concat_len. unfold fixed_size.
  induction parts as [|[[|] b] r IH]; cbn [map sumN fst snd]; unfold BYTES_PER_LENGTH_OFFSET in *; lia.
Qed.

Lemma sumN_app a b : sumN (a ++ b) = sumN a + sumN b.
Proof. induction a as [|x a IH]; cbn [app sumN]; lia. Qed.

Lemma len_concat (l : list bytes) : len (concat l) = sumN (map len l).
Proof. induction l as [|x l IH]; cbn [concat map sumN]; [reflexivity|]. rewrite len_app, IH. reflexivity. Qed.

Lemma wfb_concat (l : list bytes) : Forall wfb l -> wfb (concat l).
Proof. induction 1; cbn [concat]; [constructor|]. apply wfb_app. auto. Qed.

Lemma wfb_asm_fixed off parts :
  Forall (fun p : part => wfb (snd p)) parts -> wfb (assemble_fixed off parts).
Proof.
  intros H. revert off. induction H as [|[[|] b] r Hb _ IH]; intros off; cbn [assemble_fixed].
  - constructor.
  - apply wfb_app. auto.
  - apply wfb_app. split; [apply wfb_encode_length|apply IH].
Qed.
Lemma wfb_var_concat parts :
  Forall (fun p : part => wfb (snd p)) parts -> wfb (var_concat parts).
Proof.
  intros H. unfold var_concat. induction H as [|[[|] b] r Hb _ IH]; cbn [map concat fst snd].
  - constructor.
  - exact IH.
  - apply wfb_app. auto.
Qed.
Lemma wfb_asm nf parts :
  Forall (fun p : part => wfb (snd p)) parts -> wfb (assemble nf parts).
Proof. intros H. apply wfb_app. split; [now apply wfb_asm_fixed|now apply wfb_var_concat]. Qed.
