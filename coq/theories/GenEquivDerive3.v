(** * GenEquivDerive3: the modules written by [four_byte_option_impl!] (C17) and a container whose
    fields go through them ([#[ssz(with = ..)]], C08), as rustc expands them against /repo. *)
From SSZ Require Import Base RustSem Offsets Encoder Builder Types Codec CodecUnfold BaseFacts OffsetsFacts
     Generated GenEquiv GenEquivDec GenEquivEnc GenProps GeneratedDerive GenEquivDerive GenEquivDerive2.
From Coq Require Import ZArith ZifyN ZifyBool ZifyNat Lia.
Open Scope N_scope.
Ltac Zify.zify_post_hook ::= Z.div_mod_to_equations.

Lemma usize_max_val_d : usize_max = 18446744073709551615.
Proof. reflexivity. Qed.

Definition T_Lu64 : ty := TLegacyOpt (TUint 8).
Definition T_Lvec : ty := TLegacyOpt (TList (TUint 1)).
Definition v_opt_u64 (o : option N) : val := match o with None => VNone | Some x => VSome (VUint x) end.
Definition v_opt_vec (o : option (list N)) : val := match o with None => VNone | Some l => VSome (v_list l) end.

Theorem derive_legacy_metadata :
  GenD.legacy_u64__encode__is_ssz_fixed_len = Ok (e_is_fixed T_Lu64) /\ GenD.legacy_u64__encode__ssz_fixed_len = Ok (e_fixed_len T_Lu64) /\
  GenD.legacy_u64__decode__is_ssz_fixed_len = Ok (d_is_fixed T_Lu64) /\ GenD.legacy_u64__decode__ssz_fixed_len = Ok (d_fixed_len T_Lu64) /\
  GenD.legacy_vec__encode__is_ssz_fixed_len = Ok (e_is_fixed T_Lvec) /\ GenD.legacy_vec__encode__ssz_fixed_len = Ok (e_fixed_len T_Lvec) /\
  GenD.legacy_vec__decode__is_ssz_fixed_len = Ok (d_is_fixed T_Lvec) /\ GenD.legacy_vec__decode__ssz_fixed_len = Ok (d_fixed_len T_Lvec).
Proof. repeat split; vm_compute; reflexivity. Qed.

(** ** the module for [u64] *)
Theorem derive_legacy_u64_ssz_append o buf :
  GenD.legacy_u64__encode__ssz_append o buf = Ok (append T_Lu64 (v_opt_u64 o) buf).
Proof.
  destruct o as [x|]; unfold GenD.legacy_u64__encode__ssz_append; rewrite gen_encode_four_byte_union_selector_eq; reflexivity.
Qed.
Theorem derive_legacy_u64_as_ssz_bytes o :
  GenD.legacy_u64__encode__as_ssz_bytes o = Ok (enc T_Lu64 (v_opt_u64 o)).
Proof. unfold GenD.legacy_u64__encode__as_ssz_bytes. rewrite derive_legacy_u64_ssz_append. reflexivity. Qed.
Theorem derive_legacy_u64_ssz_bytes_len o :
  GenD.legacy_u64__encode__ssz_bytes_len o = Ok (bytes_len T_Lu64 (v_opt_u64 o)).
Proof. destruct o; reflexivity. Qed.

Lemma legacy_from_shape {A} (d : bytes -> outcome A) (inj : A -> val) t bs :
  (forall b, omap inj (d b) = dec t b) ->
  omap (fun o : option A => match o with None => VNone | Some x => VSome (inj x) end)
    (if llen bs <? Gen.BYTES_PER_LENGTH_OFFSET then Err
     else
       do t_1 <- split_at_n bs Gen.BYTES_PER_LENGTH_OFFSET;
       let '(index_bytes, value_bytes) := t_1 in
       do q_2 <- Gen.read_four_byte_union_selector index_bytes;
       if q_2 =? 0 then (if llen value_bytes =? 0 then Ok None else Err)
       else if q_2 =? 1 then (do q_3 <- d value_bytes; Ok (Some q_3)) else Err)
  = dec (TLegacyOpt t) bs.
Proof.
  intro Hd. cbn [dec]. rewrite llen_len, gen_BYTES_PER_LENGTH_OFFSET.
  destruct (len bs <? BYTES_PER_LENGTH_OFFSET); [reflexivity|].
  rewrite split_at_n_eq. destruct (split_at bs BYTES_PER_LENGTH_OFFSET) as [[ib vb]| |]; cbn [bind fst snd omap]; try reflexivity.
  rewrite gen_read_four_byte_union_selector_eq.
  destruct (read_offset ib) as [idx| |]; cbn [bind omap]; try reflexivity.
  destruct (idx =? 0).
  - destruct vb as [|x r]; [reflexivity|]. unfold llen. cbn [length].
    replace (N.of_nat (S (length r)) =? 0) with false by (symmetry; apply N.eqb_neq; lia). reflexivity.
  - destruct (idx =? 1); [|reflexivity]. rewrite <- Hd. destruct (d vb); reflexivity.
Qed.

Theorem derive_legacy_u64_from_ssz_bytes bs :
  omap v_opt_u64 (GenD.legacy_u64__decode__from_ssz_bytes bs) = dec T_Lu64 bs.
Proof. exact (legacy_from_shape Gen.u64_from_ssz_bytes VUint (TUint 8) bs gen_u64_from_ssz_bytes_eq). Qed.

(** ** the module for [Vec<u8>] *)
Theorem derive_legacy_vec_ssz_append o buf :
  (match o with Some l => llen l <= usize_max | None => True end) ->
  GenD.legacy_vec__encode__ssz_append o buf = Ok (append T_Lvec (v_opt_vec o) buf).
Proof.
  intro H. destruct o as [l|]; unfold GenD.legacy_vec__encode__ssz_append; rewrite gen_encode_four_byte_union_selector_eq; [|reflexivity].
  cbn [bind]. leaf_meta. cbn [bind]. rewrite vec_u8_append by exact H. reflexivity.
Qed.
Theorem derive_legacy_vec_as_ssz_bytes o :
  (match o with Some l => llen l <= usize_max | None => True end) ->
  GenD.legacy_vec__encode__as_ssz_bytes o = Ok (enc T_Lvec (v_opt_vec o)).
Proof. intro H. unfold GenD.legacy_vec__encode__as_ssz_bytes. rewrite derive_legacy_vec_ssz_append by exact H. reflexivity. Qed.
Theorem derive_legacy_vec_ssz_bytes_len o :
  (match o with Some l => llen l + 4 <= usize_max | None => True end) ->
  GenD.legacy_vec__encode__ssz_bytes_len o = Ok (bytes_len T_Lvec (v_opt_vec o)).
Proof.
  intro H. destruct o as [l|]; [|reflexivity]. unfold GenD.legacy_vec__encode__ssz_bytes_len. leaf_meta. cbn [bind].
  rewrite vec_u8_bytes_len by lia. cbn [bind].
  change (bytes_len T_Lvec (v_opt_vec (Some l))) with (bytes_len (TList (TUint 1)) (v_list l) + BYTES_PER_LENGTH_OFFSET).
  rewrite bytes_len_list_u8, gen_BYTES_PER_LENGTH_OFFSET. unfold usize_add, BYTES_PER_LENGTH_OFFSET.
  destruct (llen l + 4 <=? usize_max) eqn:E; [reflexivity | apply N.leb_gt in E; lia].
Qed.
Theorem derive_legacy_vec_from_ssz_bytes bs :
  omap v_opt_vec (GenD.legacy_vec__decode__from_ssz_bytes bs) = dec T_Lvec bs.
Proof.
  unfold GenD.legacy_vec__decode__from_ssz_bytes. leaf_meta. cbn [bind].
  exact (legacy_from_shape d_vec_u8 v_list (TList (TUint 1)) bs d_vec_u8_eq).
Qed.

(** ** [WithLegacy]: a container whose second and third field are encoded by the modules above *)
Definition T_WithLegacy : ty := TContainer true [TUint 2; T_Lu64; T_Lvec].
Definition v_WithLegacy (r : GenD.WithLegacy) : val :=
  VCont [VUint (GenD.WithLegacy_a r); v_opt_u64 (GenD.WithLegacy_b r); v_opt_vec (GenD.WithLegacy_c r)].

Theorem derive_WithLegacy_metadata :
  GenD.WithLegacy_enc_is_ssz_fixed_len = Ok (e_is_fixed T_WithLegacy) /\ GenD.WithLegacy_enc_ssz_fixed_len = Ok (e_fixed_len T_WithLegacy) /\
  GenD.WithLegacy_dec_is_ssz_fixed_len = Ok (d_is_fixed T_WithLegacy) /\ GenD.WithLegacy_dec_ssz_fixed_len = Ok (d_fixed_len T_WithLegacy).
Proof. repeat split; vm_compute; reflexivity. Qed.

Ltac legacy_meta :=
  change GenD.legacy_u64__encode__is_ssz_fixed_len with (Ok false : outcome bool) in *;
  change GenD.legacy_u64__encode__ssz_fixed_len with (Ok 4 : outcome N) in *;
  change GenD.legacy_u64__decode__is_ssz_fixed_len with (Ok false : outcome bool) in *;
  change GenD.legacy_u64__decode__ssz_fixed_len with (Ok 4 : outcome N) in *;
  change GenD.legacy_vec__encode__is_ssz_fixed_len with (Ok false : outcome bool) in *;
  change GenD.legacy_vec__encode__ssz_fixed_len with (Ok 4 : outcome N) in *;
  change GenD.legacy_vec__decode__is_ssz_fixed_len with (Ok false : outcome bool) in *;
  change GenD.legacy_vec__decode__ssz_fixed_len with (Ok 4 : outcome N) in *.

Lemma len_enc_Lu64 o : len (append T_Lu64 (v_opt_u64 o) []) = match o with None => 4 | Some _ => 12 end.
Proof. destruct o; reflexivity. Qed.

Theorem derive_WithLegacy_ssz_append r buf :
  (match GenD.WithLegacy_c r with Some l => llen l <= usize_max | None => True end) ->
  GenD.WithLegacy_ssz_append r buf = Ok (append T_WithLegacy (v_WithLegacy r) buf).
Proof.
  intro H. destruct r as [a b c]. cbn [GenD.WithLegacy_c] in H.
  unfold GenD.WithLegacy_ssz_append. cbn [GenD.WithLegacy_a GenD.WithLegacy_b GenD.WithLegacy_c]. leaf_meta. legacy_meta.
  cbn [bind]. change (unwrap_or_panic (checked_add 0 2)) with (Ok 2 : outcome N). cbn [bind].
  change (unwrap_or_panic (checked_add 2 4)) with (Ok 6 : outcome N). cbn [bind].
  change (unwrap_or_panic (checked_add 6 4)) with (Ok 10 : outcome N). cbn [bind].
  unfold Gen.encoder_container. cbn [bind].
  unfold Gen.encoder_append_item, Gen.encoder_append. enc_fields.
  change (llen (@nil N)) with 0. change (usize_add 10 0) with (Ok 10 : outcome N). cbn [bind].
  rewrite gen_encode_length_eq. cbn [bind].
  rewrite derive_legacy_u64_ssz_append. enc_fields.
  set (eb := append T_Lu64 (v_opt_u64 b) []).
  assert (Heb : llen eb <= 12) by (rewrite llen_len; unfold eb; rewrite len_enc_Lu64; destruct b; lia).
  unfold usize_add. destruct (10 + llen eb <=? usize_max) eqn:E; [|apply N.leb_gt in E; pose proof usize_max_val_d; lia]. cbn [bind].
  rewrite gen_encode_length_eq. cbn [bind].
  rewrite derive_legacy_vec_ssz_append by exact H. enc_fields.
  unfold Gen.encoder_finalize. enc_fields.
  reflexivity.
Qed.

Theorem derive_WithLegacy_ssz_bytes_len r :
  (match GenD.WithLegacy_c r with Some l => llen l + 26 <= usize_max | None => True end) ->
  GenD.WithLegacy_ssz_bytes_len r = Ok (bytes_len T_WithLegacy (v_WithLegacy r)).
Proof.
  intro H. destruct r as [a b c]. cbn [GenD.WithLegacy_c] in H.
  unfold GenD.WithLegacy_ssz_bytes_len. cbn [GenD.WithLegacy_a GenD.WithLegacy_b GenD.WithLegacy_c].
  change GenD.WithLegacy_enc_is_ssz_fixed_len with (Ok false : outcome bool). leaf_meta. legacy_meta.
  cbn [bind]. change (unwrap_or_panic (checked_add 0 2)) with (Ok 2 : outcome N). cbn [bind].
  rewrite gen_BYTES_PER_LENGTH_OFFSET. unfold BYTES_PER_LENGTH_OFFSET.
  change (unwrap_or_panic (checked_add 2 4)) with (Ok 6 : outcome N). cbn [bind].
  rewrite derive_legacy_u64_ssz_bytes_len. cbn [bind].
  rewrite derive_legacy_vec_ssz_bytes_len by (destruct c; [lia | exact I]).
  set (LB := bytes_len T_Lu64 (v_opt_u64 b)). set (LC := bytes_len T_Lvec (v_opt_vec c)).
  assert (HB : LB <= 12) by (unfold LB; destruct b; vm_compute; discriminate).
  assert (HC : LC <= (match c with Some l => llen l + 4 | None => 4 end)).
  { unfold LC. destruct c as [l|]; [|vm_compute; discriminate].
    change (bytes_len T_Lvec (v_opt_vec (Some l))) with (bytes_len (TList (TUint 1)) (v_list l) + BYTES_PER_LENGTH_OFFSET).
    rewrite bytes_len_list_u8. unfold BYTES_PER_LENGTH_OFFSET. lia. }
  pose proof usize_max_val_d as UM.
  unfold checked_add at 1. destruct (6 + LB <=? usize_max) eqn:E1; [|apply N.leb_gt in E1; lia]. cbn [unwrap_or_panic bind].
  unfold checked_add at 1. destruct (6 + LB + 4 <=? usize_max) eqn:E2; [|apply N.leb_gt in E2; lia]. cbn [unwrap_or_panic bind].
  unfold checked_add at 1. destruct (6 + LB + 4 + LC <=? usize_max) eqn:E3; [|apply N.leb_gt in E3; destruct c; lia]. cbn [unwrap_or_panic bind].
  f_equal. unfold T_WithLegacy, v_WithLegacy. cbn [GenD.WithLegacy_a GenD.WithLegacy_b GenD.WithLegacy_c].
  rewrite bytes_len_container.
  change (forallb e_is_fixed [TUint 2; T_Lu64; T_Lvec]) with false. cbv iota.
  cbn [combine map sumN fst snd]. unfold field_len.
  change (e_is_fixed (TUint 2)) with true. change (e_is_fixed T_Lu64) with false. change (e_is_fixed T_Lvec) with false.
  change (e_fixed_len (TUint 2)) with 2. cbv iota. fold LB LC. unfold BYTES_PER_LENGTH_OFFSET. lia.
Qed.

(** registration through [register_type_parameterized], decoding through [decode_next_with] *)
Ltac regp_step S0 F L :=
  let E := fresh "E" in let ns := fresh "s" in let nst := fresh "st" in
  let Eb := fresh "Eb" in let Es := fresh "Es" in
  pose proof (gen_builder_register_eq S0 F L) as E;
  destruct (Gen.builder_register S0 F L) as [ns| |];
  destruct (register (Gen.SszDecoderBuilder_bytes S0) (st_abs S0) F L) as [nst| |];
  cbn [omap bind] in *; close2;
  apply Ok_inj_pair in E; destruct E as (Eb & Es).
Ltac decw_step ITS D T INJ HD :=
  let E := fresh "E" in let x := fresh "x" in let its1 := fresh "its" in let y := fresh "y" in let its2 := fresh "itm" in
  let E1 := fresh "E1" in let E2 := fresh "E2" in
  pose proof (gen_decoder_decode_next_with_eq ITS D) as E;
  rewrite (decode_next_ext ITS (dec T) (fun b => omap INJ (D b))) by (intro; symmetry; apply HD);
  rewrite decode_next_omap;
  destruct (Gen.decoder_decode_next_with {| Gen.SszDecoder_items := ITS |} D) as [[x [its1]]| |];
  destruct (decode_next ITS D) as [[y its2]| |];
  cbn [omap bind fst snd] in *; close2;
  apply Ok_inj_pair in E; destruct E as (E1 & E2); cbn [Gen.SszDecoder_items] in *; subst.

Theorem derive_WithLegacy_from_ssz_bytes bs :
  omap v_WithLegacy (GenD.WithLegacy_from_ssz_bytes bs) = dec T_WithLegacy bs.
Proof.
  unfold GenD.WithLegacy_from_ssz_bytes.
  change GenD.WithLegacy_dec_is_ssz_fixed_len with (Ok false : outcome bool). leaf_meta. legacy_meta.
  cbn [bind]. unfold Gen.builder_new. cbn [bind].
  unfold T_WithLegacy. rewrite dec_container.
  change (true && forallb d_is_fixed [TUint 2; T_Lu64; T_Lvec]) with false. cbv iota.
  unfold regs_of. cbn [map].
  change (d_is_fixed (TUint 2)) with true. change (d_is_fixed T_Lu64) with false. change (d_is_fixed T_Lvec) with false.
  change (d_fixed_len (TUint 2)) with 2. change (d_fixed_len T_Lu64) with 4. change (d_fixed_len T_Lvec) with 4.
  cbv iota. unfold BYTES_PER_LENGTH_OFFSET.
  unfold builder_build. cbn [register_all].
  set (s0 := {| Gen.SszDecoderBuilder_bytes := bs; Gen.SszDecoderBuilder_items := []; Gen.SszDecoderBuilder_offsets := []; Gen.SszDecoderBuilder_items_index := 0 |}).
  change builder_new with (st_abs s0).
  replace bs with (Gen.SszDecoderBuilder_bytes s0) by reflexivity.
  reg_step2 s0 true 2. rewrite <- Es, <- Eb.
  regp_step s false 4. rewrite <- Es0, <- Eb0.
  regp_step s1 false 4. rewrite <- Es1, <- Eb1.
  build_step s2.
  cbn [decode_all].
  dec_step2 its Gen.u16_from_ssz_bytes (TUint 2) VUint gen_u16_from_ssz_bytes_eq.
  change (fun slice : bytes => GenD.legacy_u64__decode__from_ssz_bytes slice) with GenD.legacy_u64__decode__from_ssz_bytes.
  change (fun slice : bytes => GenD.legacy_vec__decode__from_ssz_bytes slice) with GenD.legacy_vec__decode__from_ssz_bytes.
  decw_step itm GenD.legacy_u64__decode__from_ssz_bytes T_Lu64 v_opt_u64 derive_legacy_u64_from_ssz_bytes.
  decw_step itm0 GenD.legacy_vec__decode__from_ssz_bytes T_Lvec v_opt_vec derive_legacy_vec_from_ssz_bytes.
  reflexivity.
Qed.

Print Assumptions derive_legacy_metadata.
Print Assumptions derive_legacy_u64_ssz_append.
Print Assumptions derive_legacy_u64_as_ssz_bytes.
Print Assumptions derive_legacy_u64_ssz_bytes_len.
Print Assumptions derive_legacy_u64_from_ssz_bytes.
Print Assumptions derive_legacy_vec_ssz_append.
Print Assumptions derive_legacy_vec_as_ssz_bytes.
Print Assumptions derive_legacy_vec_ssz_bytes_len.
Print Assumptions derive_legacy_vec_from_ssz_bytes.
Print Assumptions derive_WithLegacy_metadata.
Print Assumptions derive_WithLegacy_ssz_append.
Print Assumptions derive_WithLegacy_ssz_bytes_len.
Print Assumptions derive_WithLegacy_from_ssz_bytes.
