(** * Codec: the implementation model of [Encode] / [Decode] for every type of the algebra.

    [append] mirrors each [ssz_append] (it takes the existing buffer); [bytes_len] mirrors each
    [ssz_bytes_len]; [as_bytes] mirrors [as_ssz_bytes] with its three overriding impls;
    [dec] mirrors each [from_ssz_bytes], with every Rust panic site an explicit [Panic].
    Definitions only. *)
From SSZ Require Export Types Encoder Builder.

Definition unwrap_bytes (o : outcome bytes) : bytes := match o with Ok b => b | _ => [] end.

(** Bitfield values arrive as their bit sequence; the byte representation is rebuilt. *)
Definition bitvector_bytes (n : N) (bits : list bool) : bytes :=
  match bv_of_bits n bits with Ok b => bv_into_bytes b | _ => [] end.
Definition bitlist_bytes (n : N) (bits : list bool) : bytes :=
  match bl_of_bits n bits with Ok b => unwrap_bytes (bl_into_bytes b) | _ => [] end.
Definition bitdyn_bytes (bits : list bool) : bytes :=
  match bd_of_bits bits with Ok b => bd_into_bytes b | _ => [] end.

(** ** Encoding *)

(** [sequence_ssz_append] given the item metadata and each item's append function. *)
Definition seq_append (item_fixed : bool) (apps : list (bytes -> bytes)) (buf : bytes) : bytes :=
  if item_fixed then fold_left (fun b app => app b) apps buf
  else enc_run buf (N.of_nat (length apps) * BYTES_PER_LENGTH_OFFSET)
               (map (fun app => (false, app)) apps).

Fixpoint append (t : ty) (v : val) (buf : bytes) {struct t} : bytes :=
  match t, v with
  | TUint k, VUint n => buf ++ le_bytes k n
  | TBool, VBool b => buf ++ le_bytes 1 (if b then 1 else 0)
  | TNonZero, VUint n => buf ++ le_bytes 8 n
  | TBytesN _, VBytes bs => buf ++ bs
  | TByteList, VBytes bs => buf ++ bs
  | TList t, VList vs => seq_append (e_is_fixed t) (map (append t) vs) buf
  | TSet t, VList vs => seq_append (e_is_fixed t) (map (append t) vs) buf
  | TMap k v, VList es =>
      (* items are (&K, &V) tuples *)
      let entry_fixed := e_is_fixed k && e_is_fixed v in
      let entry_app (e : val) (b : bytes) : bytes :=
        match e with
        | VCont [a; c] =>
            enc_run b (e_fixed_len k + e_fixed_len v)
                    [(e_is_fixed k, append k a); (e_is_fixed v, append v c)]
        | _ => b
        end in
      seq_append entry_fixed (map entry_app es) buf
  | TOption t, VNone => buf ++ [0]
  | TOption t, VSome x => append t x (buf ++ [1])
  | TContainer _ fs, VCont vs =>
      let offset := (fix sum fs := match fs with [] => 0 | f :: r => e_fixed_len f + sum r end) fs in
      let items := (fix go fs vs : list (bool * (bytes -> bytes)) :=
                      match fs, vs with
                      | f :: fr, x :: vr => (e_is_fixed f, append f x) :: go fr vr
                      | _, _ => []
                      end) fs vs in
      enc_run buf offset items
  | TUnion ts, VUnion i x =>
      (fix pick ts j := match ts, j with
                        | [], _ => buf
                        | t :: _, O => append t x (buf ++ [N.of_nat i])
                        | _ :: r, S j' => pick r j'
                        end) ts i
  | TTag _, VTag i => buf ++ [N.of_nat i]
  | TTransEnum ts, VUnion i x =>
      (fix pick ts j := match ts, j with
                        | [], _ => buf
                        | t :: _, O => append t x buf
                        | _ :: r, S j' => pick r j'
                        end) ts i
  | TWrap t, x => append t x buf
  | TBitVector n, VBits bits => buf ++ bitvector_bytes n bits
  | TBitList n, VBits bits => buf ++ bitlist_bytes n bits
  | TBitDyn, VBits bits => buf ++ bitdyn_bytes bits
  | TLegacyOpt t, VNone => buf ++ encode_length 0
  | TLegacyOpt t, VSome x => append t x (buf ++ encode_length 1)
  | _, _ => buf
  end.

(** The default [as_ssz_bytes]: [ssz_append] into an empty [Vec]. *)
Definition enc (t : ty) (v : val) : bytes := append t v [].

(** [as_ssz_bytes] including the overriding impls ([FixedBytes], [Bloom], [Bytes]:
    [self.0.to_vec()]); [Arc]/[&T]/transparent wrappers use the default. *)
Definition as_bytes (t : ty) (v : val) : bytes :=
  match t, v with
  | TBytesN _, VBytes bs => bs
  | TByteList, VBytes bs => bs
  | _, _ => enc t v
  end.
(** [ssz::ssz_encode] *)
Definition ssz_encode (t : ty) (v : val) : bytes := as_bytes t v.

(** ** [ssz_bytes_len], impl by impl (not [length (enc ..)]) *)
Definition seq_bytes_len (item_fixed : bool) (item_fixed_len : N) (lens : list N) : N :=
  if item_fixed then item_fixed_len * N.of_nat (length lens)
  else sumN lens + BYTES_PER_LENGTH_OFFSET * N.of_nat (length lens).

Fixpoint bytes_len (t : ty) (v : val) {struct t} : N :=
  match t, v with
  | TUint k, VUint _ => N.of_nat k
  | TBool, VBool _ => 1
  | TNonZero, VUint _ => 8
  | TBytesN n, VBytes _ => N.of_nat n
  | TByteList, VBytes bs => len bs
  | TList t, VList vs => seq_bytes_len (e_is_fixed t) (e_fixed_len t) (map (bytes_len t) vs)
  | TSet t, VList vs => seq_bytes_len (e_is_fixed t) (e_fixed_len t) (map (bytes_len t) vs)
  | TMap k v, VList es =>
      let entry_fixed := e_is_fixed k && e_is_fixed v in
      let entry_fixed_len := if entry_fixed then e_fixed_len k + e_fixed_len v
                             else BYTES_PER_LENGTH_OFFSET in
      let entry_len (e : val) : N :=
        match e with
        | VCont [a; c] =>
            if entry_fixed then entry_fixed_len
            else (if e_is_fixed k then e_fixed_len k else BYTES_PER_LENGTH_OFFSET + bytes_len k a)
                 + (if e_is_fixed v then e_fixed_len v else BYTES_PER_LENGTH_OFFSET + bytes_len v c)
        | _ => 0
        end in
      seq_bytes_len entry_fixed entry_fixed_len (map entry_len es)
  | TOption t, VNone => 1
  | TOption t, VSome x => bytes_len t x + 1
  | TContainer _ fs, VCont vs =>
      if e_is_fixed t then e_fixed_len t
      else (fix go fs vs : N :=
              match fs, vs with
              | f :: fr, x :: vr =>
                  (if e_is_fixed f then e_fixed_len f
                   else BYTES_PER_LENGTH_OFFSET + bytes_len f x) + go fr vr
              | _, _ => 0
              end) fs vs
  | TUnion ts, VUnion i x =>
      (fix pick ts j := match ts, j with
                        | [], _ => 0
                        | t :: _, O => bytes_len t x + 1
                        | _ :: r, S j' => pick r j'
                        end) ts i
  | TTag _, VTag _ => 1
  | TTransEnum ts, VUnion i x =>
      (fix pick ts j := match ts, j with
                        | [], _ => 0
                        | t :: _, O => bytes_len t x
                        | _ :: r, S j' => pick r j'
                        end) ts i
  | TWrap t, x => bytes_len t x
  | TBitVector n, VBits bits => len (bitvector_bytes n bits)        (* self.as_slice().len() *)
  | TBitList n, VBits bits => len (bitlist_bytes n bits)            (* into_bytes().len() *)
  | TBitDyn, VBits bits => len (bitdyn_bytes bits)                  (* self.bytes.len() *)
  | TLegacyOpt t, VNone => BYTES_PER_LENGTH_OFFSET
  | TLegacyOpt t, VSome x =>
      (if e_is_fixed t then e_fixed_len t else bytes_len t x) + BYTES_PER_LENGTH_OFFSET
  | _, _ => 0
  end.

(** ** Decoding *)

(** Target collection of [decode_list_of_variable_length_items] (C16).  [CVec] pulls every item;
    [CBounded k] pulls every item and refuses more than [k]; [CRefusing] refuses without
    pulling anything. *)
Inductive ckind := CVec | CBounded (k : N) | CRefusing.

Definition collect_kind {A} (c : ckind) (items : list A) : outcome (list A) :=
  match c with
  | CVec => Ok items
  | CBounded k => if N.of_nat (length items) <=? k then Ok items else Err
  | CRefusing => Err
  end.

(** The lazy item iterator of [decode_list_of_variable_length_items], items [i ..= num_items],
    driven to the first error.  Returns the outcome and the number of item decoders invoked. *)
Fixpoint lv_items {A} (dec_item : bytes -> outcome A) (bs : bytes) (first num_items : N)
         (fuel : nat) (i offset : N) : outcome (list A) * N :=
  match fuel with
  | O => (Ok [], 0)
  | S fuel' =>
      let slice_and_offset : outcome (bytes * N) :=
        if i =? num_items then
          do s <- ok_or (get_from bs offset); Ok (s, offset)
        else
          do rest <- index_from bs (i * BYTES_PER_LENGTH_OFFSET);
          do next <- read_offset rest;
          do off' <- sanitize_offset next (Some offset) (len bs) (Some first);
          do s <- ok_or (get_range bs offset off');
          Ok (s, off') in
      match slice_and_offset with
      | Ok (s, off') =>
          match dec_item s with
          | Ok x =>
              let r := lv_items dec_item bs first num_items fuel' (i + 1) off' in
              (omap (cons x) (fst r), 1 + snd r)
          | Err => (Err, 1)
          | Panic => (Panic, 1)
          end
      | Err => (Err, 0)
      | Panic => (Panic, 0)
      end
  end.

(** [decode_list_of_variable_length_items(bytes, max_len)] into a collection of kind [c].
    Result: outcome, item decoders invoked, entries reserved up front ([Vec::with_capacity]). *)
Definition decode_list_var_full {A} (dec_item : bytes -> outcome A) (c : ckind) (bs : bytes)
           (max_len : option N) : outcome (list A) * N * N :=
  match bs with
  | [] => (collect_kind c [], 0, 0)
  | _ =>
      match read_offset bs with
      | Ok first =>
          match sanitize_offset first None (len bs) (Some first) with
          | Ok _ =>
              if negb (first mod BYTES_PER_LENGTH_OFFSET =? 0) || (first <? BYTES_PER_LENGTH_OFFSET)
              then (Err, 0, 0)
              else
                let num_items := first / BYTES_PER_LENGTH_OFFSET in
                if is_some_and max_len (fun m => m <? num_items) then (Err, 0, 0)
                else
                  match c with
                  | CRefusing => (Err, 0, 0)
                  | _ =>
                      let r := lv_items dec_item bs first num_items (N.to_nat num_items) 1 first in
                      (bind (fst r) (collect_kind c), snd r,
                       match c with CVec => num_items | _ => 0 end)
                  end
          | Err => (Err, 0, 0)
          | Panic => (Panic, 0, 0)
          end
      | Err => (Err, 0, 0)
      | Panic => (Panic, 0, 0)
      end
  end.

Definition decode_list_var {A} (dec_item : bytes -> outcome A) (c : ckind) (bs : bytes)
           (max_len : option N) : outcome (list A) :=
  fst (fst (decode_list_var_full dec_item c bs max_len)).

(** [Vec<T>::from_ssz_bytes] and friends, given the item metadata and decoder.
    A fixed-size item type of length zero is an error ([DecodeError::ZeroLengthItem]; before the
    [fix:] commit [chunks(0)] panicked). *)
Definition dec_seq {A} (item_fixed : bool) (item_len : N) (dec_item : bytes -> outcome A)
           (bs : bytes) : outcome (list A) :=
  match bs with
  | [] => Ok []
  | _ =>
      if item_fixed then
        if item_len =? 0 then Err
        else mapM dec_item (chunks (N.to_nat item_len) bs)
      else decode_list_var dec_item CVec bs None
  end.

(** [bytes.split_at(mid)]: panics when [mid > len]. *)
Definition split_at (bs : bytes) (mid : N) : outcome (bytes * bytes) :=
  if mid <=? len bs then Ok (take mid bs, drop mid bs) else Panic.

Definition dec_bool (bs : bytes) : outcome val :=
  match bs with
  | [b] => if b =? 0 then Ok (VBool false) else if b =? 1 then Ok (VBool true) else Err
  | _ => Err
  end.

Fixpoint dec (t : ty) (bs : bytes) {struct t} : outcome val :=
  match t with
  | TUint k => if len bs =? N.of_nat k then Ok (VUint (le_val bs)) else Err
  | TBool => dec_bool bs
  | TNonZero =>
      if len bs =? 8 then
        let x := le_val bs in if x =? 0 then Err else Ok (VUint x)
      else Err
  | TBytesN n => if len bs =? N.of_nat n then Ok (VBytes bs) else Err
  | TByteList => Ok (VBytes bs)
  | TList t => omap VList (dec_seq (d_is_fixed t) (d_fixed_len t) (dec t) bs)
  | TSet t =>
      omap (fun l => VList (collect_entries false l))
           (dec_seq (d_is_fixed t) (d_fixed_len t) (dec t) bs)
  | TMap k v =>
      let entry_fixed := d_is_fixed k && d_is_fixed v in
      let entry_len := if entry_fixed then d_fixed_len k + d_fixed_len v
                       else BYTES_PER_LENGTH_OFFSET in
      let dec_entry (s : bytes) : outcome val :=
        do items <- builder_build [(d_is_fixed k, d_fixed_len k); (d_is_fixed v, d_fixed_len v)] s;
        do xs <- decode_all items [dec k; dec v];
        Ok (VCont xs) in
      omap (fun l => VList (collect_entries true l)) (dec_seq entry_fixed entry_len dec_entry bs)
  | TOption t =>
      do p <- split_union_bytes bs;
      let (sel, body) := p in
      if sel =? 0 then (match body with [] => Ok VNone | _ => Err end)
      else if sel =? 1 then omap VSome (dec t body)
      else Err
  | TContainer derived fs =>
      let all_fixed := (fix all fs := match fs with [] => true | f :: r => d_is_fixed f && all r end) fs in
      if derived && all_fixed then
        let total := (fix sum fs := match fs with [] => 0 | f :: r => d_fixed_len f + sum r end) fs in
        if negb (len bs =? total) then Err
        else
          omap VCont
            ((fix go fs (rest : bytes) : outcome (list val) :=
                match fs with
                | [] => Ok []
                | f :: fr =>
                    do p <- split_at rest (d_fixed_len f);
                    do x <- dec f (fst p);
                    do xs <- go fr (snd p);
                    Ok (x :: xs)
                end) fs bs)
      else
        let regs := (fix go fs := match fs with
                                  | [] => []
                                  | f :: r => (d_is_fixed f, d_fixed_len f) :: go r
                                  end) fs in
        let decs := (fix go fs := match fs with [] => [] | f :: r => dec f :: go r end) fs in
        do items <- builder_build regs bs;
        omap VCont (decode_all items decs)
  | TUnion ts =>
      do p <- split_union_bytes bs;
      let (sel, body) := p in
      (fix pick ts (j : nat) (idx : nat) : outcome val :=
         match ts with
         | [] => Err
         | t :: r => match j with
                     | O => omap (VUnion idx) (dec t body)
                     | S j' => pick r j' idx
                     end
         end) ts (N.to_nat sel) (N.to_nat sel)
  | TTag n =>
      match bs with
      | [b] => if b <? N.of_nat n then Ok (VTag (N.to_nat b)) else Err
      | _ => Err
      end
  | TTransEnum ts =>
      (fix first_ok ts (idx : nat) : outcome val :=
         match ts with
         | [] => Err
         | t :: r => match dec t bs with
                     | Ok x => Ok (VUnion idx x)
                     | Err => first_ok r (S idx)
                     | Panic => Panic
                     end
         end) ts O
  | TWrap t => dec t bs
  | TBitVector n => omap (fun b => VBits (bf_iter b)) (bv_from_bytes n bs)
  | TBitList n => omap (fun b => VBits (bf_iter b)) (bl_from_bytes n bs)
  | TBitDyn => omap (fun b => VBits (bf_iter b)) (bd_decode bs)
  | TLegacyOpt t =>
      if len bs <? BYTES_PER_LENGTH_OFFSET then Err
      else
        do p <- split_at bs BYTES_PER_LENGTH_OFFSET;
        do index <- read_offset (fst p);
        if index =? 0 then (match snd p with [] => Ok VNone | _ => Err end)
        else if index =? 1 then omap VSome (dec t (snd p))
        else Err
  end.
