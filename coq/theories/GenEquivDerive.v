(** * GenEquivDerive: what the derive macros of /repo expand to, for the sample definitions of
    /verif/derive_samples, is the model codec of the schema the definition denotes.

    [GeneratedDerive.v] is produced on every run: the sample crate is expanded by rustc against
    /repo's [ssz_derive] ([-Zunpretty=expanded]) and the expanded [impl Encode] / [impl Decode]
    blocks are translated by rs2v with the rules it uses for the crate itself; calls into the crate
    ([SszEncoder], [SszDecoderBuilder], [split_union_bytes], the impls of the field types) resolve
    to the crate's translated definitions ([Generated.v]).  The theorems below say that each
    expanded function computes the model's [append] / [bytes_len] / [dec] / metadata at the schema
    [Derive.derive] assigns to the definition (container in declaration order, union and tag
    selectors by declaration index, transparent wrapper = its field): the templates of the macro,
    as instantiated, are tied to the model for every input, not for sampled inputs. *)
From SSZ Require Import Base RustSem Offsets Encoder Builder Types Codec CodecUnfold BaseFacts OffsetsFacts
     Generated GenEquiv GenEquivDec GenEquivEnc GenProps GeneratedDerive.
From Coq Require Import ZArith ZifyN ZifyBool ZifyNat Lia.
Open Scope N_scope.
Ltac Zify.zify_post_hook ::= Z.div_mod_to_equations.

Lemma Ok_inj_pair {A B} (a a' : A) (b b' : B) : Ok (a, b) = Ok (a', b') -> a = a' /\ b = b'.
Proof. intro H. injection H as H1 H2. split; assumption. Qed.

(** the schemas of the sample definitions *)
Definition T_FixedPair : ty := TContainer true [TUint 2; TUint 1].
Definition T_Mixed : ty := TContainer true [TUint 2; TList (TUint 1); TUint 4; TList (TUint 2)].
Definition T_U2 : ty := TUnion [TUint 1; TList (TUint 1)].
Definition T_Tag3 : ty := TTag 3.
Definition T_Wrap : ty := TWrap (TList (TUint 1)).

(** values of the sample types as model values *)
Definition v_list (l : list N) : val := VList (map VUint l).
Definition v_FixedPair (r : GenD.FixedPair) : val := VCont [VUint (GenD.FixedPair_a r); VUint (GenD.FixedPair_b r)].
Definition v_Mixed (r : GenD.Mixed) : val :=
  VCont [VUint (GenD.Mixed_a r); v_list (GenD.Mixed_b r); VUint (GenD.Mixed_c r); v_list (GenD.Mixed_d r)].
Definition v_U2 (u : GenD.U2) : val :=
  match u with GenD.U2_A x => VUnion 0 (VUint x) | GenD.U2_B x => VUnion 1 (v_list x) end.
Definition v_Tag3 (t : GenD.Tag3) : val :=
  match t with GenD.Tag3_A => VTag 0 | GenD.Tag3_B => VTag 1 | GenD.Tag3_C => VTag 2 end.
Definition v_Wrap (w : GenD.Wrap) : val := v_list (GenD.Wrap_f0 w).

(** ** metadata: closed terms, evaluated by the kernel *)
Theorem derive_metadata :
  GenD.FixedPair_enc_is_ssz_fixed_len = Ok (e_is_fixed T_FixedPair) /\ GenD.FixedPair_enc_ssz_fixed_len = Ok (e_fixed_len T_FixedPair) /\
  GenD.FixedPair_dec_is_ssz_fixed_len = Ok (d_is_fixed T_FixedPair) /\ GenD.FixedPair_dec_ssz_fixed_len = Ok (d_fixed_len T_FixedPair) /\
  GenD.Mixed_enc_is_ssz_fixed_len = Ok (e_is_fixed T_Mixed) /\ GenD.Mixed_enc_ssz_fixed_len = Ok (e_fixed_len T_Mixed) /\
  GenD.Mixed_dec_is_ssz_fixed_len = Ok (d_is_fixed T_Mixed) /\ GenD.Mixed_dec_ssz_fixed_len = Ok (d_fixed_len T_Mixed) /\
  GenD.U2_enc_is_ssz_fixed_len = Ok (e_is_fixed T_U2) /\ GenD.U2_dec_is_ssz_fixed_len = Ok (d_is_fixed T_U2) /\
  GenD.Tag3_enc_is_ssz_fixed_len = Ok (e_is_fixed T_Tag3) /\ GenD.Tag3_enc_ssz_fixed_len = Ok (e_fixed_len T_Tag3) /\
  GenD.Tag3_dec_is_ssz_fixed_len = Ok (d_is_fixed T_Tag3) /\ GenD.Tag3_dec_ssz_fixed_len = Ok (d_fixed_len T_Tag3) /\
  GenD.Wrap_enc_is_ssz_fixed_len = Ok (e_is_fixed T_Wrap) /\ GenD.Wrap_enc_ssz_fixed_len = Ok (e_fixed_len T_Wrap) /\
  GenD.Wrap_dec_is_ssz_fixed_len = Ok (d_is_fixed T_Wrap) /\ GenD.Wrap_dec_ssz_fixed_len = Ok (d_fixed_len T_Wrap).
Proof. repeat split; vm_compute; reflexivity. Qed.

(** ** lists of unsigned integers: the crate's [Vec<T>] impls instantiated at [u8] / [u16] *)
Lemma map_append_uint k (l : list N) :
  map (append (TUint k)) (map VUint l) = map (fun n (b : bytes) => b ++ le_bytes k n) l.
Proof. rewrite map_map. reflexivity. Qed.

Lemma vec_u8_append l buf : llen l <= usize_max ->
  Gen.vec_ssz_append true 1 Gen.u8_ssz_append l buf = Ok (append (TList (TUint 1)) (v_list l) buf).
Proof.
  intro H. unfold Gen.vec_ssz_append.
  change Gen.u8_ssz_append with (fun (a : N) (b : bytes) => Ok ((fun n b => b ++ le_bytes 1 n) a b)).
  rewrite gen_sequence_ssz_append_eq by (cbv beta iota; lia). cbn [bind].
  f_equal. unfold v_list. cbn [append]. rewrite map_map. reflexivity.
Qed.
Lemma vec_u16_append l buf : 2 * llen l <= usize_max ->
  Gen.vec_ssz_append true 2 Gen.u16_ssz_append l buf = Ok (append (TList (TUint 2)) (v_list l) buf).
Proof.
  intro H. unfold Gen.vec_ssz_append.
  change Gen.u16_ssz_append with (fun (a : N) (b : bytes) => Ok ((fun n b => b ++ le_bytes 2 n) a b)).
  rewrite gen_sequence_ssz_append_eq by (cbv beta iota; lia). cbn [bind].
  f_equal. unfold v_list. cbn [append]. rewrite map_map. reflexivity.
Qed.

Lemma vec_u8_bytes_len l : llen l <= usize_max ->
  Gen.vec_ssz_bytes_len true 1 Gen.u8_ssz_bytes_len l = Ok (bytes_len (TList (TUint 1)) (v_list l)).
Proof.
  intro H. unfold Gen.vec_ssz_bytes_len.
  change Gen.u8_ssz_bytes_len with (fun (a : N) => Ok ((fun _ : N => 1) a)).
  rewrite gen_sequence_ssz_bytes_len_eq by (cbv beta iota; lia).
  f_equal. unfold v_list. cbn [bytes_len e_is_fixed e_fixed_len]. rewrite map_map. reflexivity.
Qed.
Lemma vec_u16_bytes_len l : 2 * llen l <= usize_max ->
  Gen.vec_ssz_bytes_len true 2 Gen.u16_ssz_bytes_len l = Ok (bytes_len (TList (TUint 2)) (v_list l)).
Proof.
  intro H. unfold Gen.vec_ssz_bytes_len.
  change Gen.u16_ssz_bytes_len with (fun (a : N) => Ok ((fun _ : N => 16 / 8) a)).
  rewrite gen_sequence_ssz_bytes_len_eq by (cbv beta iota; lia).
  f_equal. unfold v_list. cbn [bytes_len e_is_fixed e_fixed_len]. rewrite map_map. reflexivity.
Qed.

(** decoding: the item decoder at [N] and the model's item decoder at [val] commute with [VUint] *)
Lemma mapM_omap {A B C} (d : A -> outcome B) (inj : B -> C) l :
  omap (map inj) (mapM d l) = mapM (fun x => omap inj (d x)) l.
Proof.
  induction l as [|x r IH]; [reflexivity|]. cbn [mapM]. destruct (d x) as [y| |]; cbn [bind omap]; try reflexivity.
  rewrite <- IH. destruct (mapM d r); reflexivity.
Qed.

Lemma mapM_ext_dec {A B} (f g : A -> outcome B) l : (forall x, f x = g x) -> mapM f l = mapM g l.
Proof. intro H. induction l as [|x r IH]; cbn [mapM]; [reflexivity|]. rewrite H, IH. reflexivity. Qed.

Lemma vec_uint_from k (d : bytes -> outcome N) bs :
  (0 < k)%nat -> (forall b, omap VUint (d b) = dec (TUint k) b) ->
  omap v_list (Gen.vec_from_ssz_bytes true (N.of_nat k) d bs) = dec (TList (TUint k)) bs.
Proof.
  intros Hk Hd. unfold Gen.vec_from_ssz_bytes. cbn [dec d_is_fixed d_fixed_len]. unfold dec_seq. rewrite llen_len.
  destruct bs as [|b0 br] eqn:E; [reflexivity|]. rewrite <- E.
  replace (len bs =? 0) with false by (symmetry; apply N.eqb_neq; subst bs; unfold len; cbn [length]; lia).
  replace (N.of_nat k =? 0) with false by (symmetry; apply N.eqb_neq; lia).
  unfold chunks_n. rewrite Nnat.Nat2N.id.
  change (omap v_list ?x) with (omap (fun l => VList (map VUint l)) x).
  rewrite <- (mapM_ext_dec (fun x => omap VUint (d x)) (dec (TUint k)) _ Hd).
  rewrite <- mapM_omap. destruct (mapM d _); reflexivity.
Qed.

(** ** [Tag3]: a tag enum *)
Theorem derive_Tag3_ssz_append t buf : GenD.Tag3_ssz_append t buf = Ok (append T_Tag3 (v_Tag3 t) buf).
Proof. destruct t; reflexivity. Qed.
Theorem derive_Tag3_ssz_bytes_len t : GenD.Tag3_ssz_bytes_len t = Ok (bytes_len T_Tag3 (v_Tag3 t)).
Proof. destruct t; reflexivity. Qed.
Theorem derive_Tag3_from_ssz_bytes bs : omap v_Tag3 (GenD.Tag3_from_ssz_bytes bs) = dec T_Tag3 bs.
Proof.
  unfold GenD.Tag3_from_ssz_bytes, T_Tag3. cbn [dec].
  destruct bs as [|b [|c r]].
  - reflexivity.
  - unfold llen. cbn [length N.of_nat N.eqb Pos.eqb Pos.of_succ_nat negb hd_error ok_or bind].
    destruct (N.eq_dec b 0) as [->|H0]; [reflexivity|].
    destruct (N.eq_dec b 1) as [->|H1]; [reflexivity|].
    destruct (N.eq_dec b 2) as [->|H2]; [reflexivity|].
    replace (b =? 0) with false by (symmetry; apply N.eqb_neq; exact H0).
    replace (b =? 1) with false by (symmetry; apply N.eqb_neq; exact H1).
    replace (b =? 2) with false by (symmetry; apply N.eqb_neq; exact H2).
    cbn [omap]. destruct (b <? _) eqn:E; [apply N.ltb_lt in E; lia | reflexivity].
  - unfold llen. cbn [length].
    replace (N.of_nat (S (S (length r))) =? 1) with false by (symmetry; apply N.eqb_neq; lia). reflexivity.
Qed.

(** ** [Wrap]: a transparent tuple struct over [Vec<u8>] *)
Theorem derive_Wrap_ssz_append w buf : llen (GenD.Wrap_f0 w) <= usize_max ->
  GenD.Wrap_ssz_append w buf = Ok (append T_Wrap (v_Wrap w) buf).
Proof.
  intro H. unfold GenD.Wrap_ssz_append. cbn [Gen.u8_enc_is_ssz_fixed_len Gen.u8_enc_ssz_fixed_len bind].
  change (8 / 8) with 1. rewrite vec_u8_append by exact H. reflexivity.
Qed.
Theorem derive_Wrap_ssz_bytes_len w : llen (GenD.Wrap_f0 w) <= usize_max ->
  GenD.Wrap_ssz_bytes_len w = Ok (bytes_len T_Wrap (v_Wrap w)).
Proof.
  intro H. unfold GenD.Wrap_ssz_bytes_len. cbn [Gen.u8_enc_is_ssz_fixed_len Gen.u8_enc_ssz_fixed_len bind].
  change (8 / 8) with 1. rewrite vec_u8_bytes_len by exact H. reflexivity.
Qed.
Theorem derive_Wrap_from_ssz_bytes bs : omap v_Wrap (GenD.Wrap_from_ssz_bytes bs) = dec T_Wrap bs.
Proof.
  unfold GenD.Wrap_from_ssz_bytes. cbn [Gen.u8_dec_is_ssz_fixed_len Gen.u8_dec_ssz_fixed_len bind].
  change (8 / 8) with (N.of_nat 1).
  pose proof (vec_uint_from 1 Gen.u8_from_ssz_bytes bs ltac:(lia) gen_u8_from_ssz_bytes_eq) as H.
  unfold T_Wrap. cbn [dec]. cbn [dec] in H. rewrite <- H.
  destruct (Gen.vec_from_ssz_bytes true (N.of_nat 1) Gen.u8_from_ssz_bytes bs); reflexivity.
Qed.

(** ** [U2]: a union enum *)
Theorem derive_U2_ssz_append u buf :
  (match u with GenD.U2_B x => llen x <= usize_max | _ => True end) ->
  GenD.U2_ssz_append u buf = Ok (append T_U2 (v_U2 u) buf).
Proof.
  intro H. destruct u as [x|x]; unfold GenD.U2_ssz_append.
  - reflexivity.
  - cbn [Gen.u8_enc_is_ssz_fixed_len Gen.u8_enc_ssz_fixed_len bind]. change (8 / 8) with 1.
    change (if true then ?a else ?b) with a.
    change (negb (1 <=? Gen.MAX_UNION_SELECTOR)) with false. cbv iota.
    rewrite vec_u8_append by exact H. reflexivity.
Qed.
Theorem derive_U2_ssz_bytes_len u :
  (match u with GenD.U2_B x => llen x < usize_max | _ => True end) ->
  GenD.U2_ssz_bytes_len u = Ok (bytes_len T_U2 (v_U2 u)).
Proof.
  intro H. destruct u as [x|x]; unfold GenD.U2_ssz_bytes_len.
  - reflexivity.
  - cbn [Gen.u8_enc_is_ssz_fixed_len Gen.u8_enc_ssz_fixed_len bind]. change (8 / 8) with 1.
    rewrite vec_u8_bytes_len by lia. cbn [bind].
    set (L := bytes_len (TList (TUint 1)) (v_list x)).
    assert (HL : L = llen x).
    { unfold L, v_list. cbn [bytes_len e_is_fixed e_fixed_len]. unfold seq_bytes_len. rewrite !map_length. unfold llen. lia. }
    change (bytes_len T_U2 (v_U2 (GenD.U2_B x))) with (L + 1).
    unfold checked_add, unwrap_or_panic.
    destruct (L + 1 <=? usize_max) eqn:E; [reflexivity | apply N.leb_gt in E; lia].
Qed.
Lemma dec_union2 t0 t1 bs :
  dec (TUnion [t0; t1]) bs =
  do p <- split_union_bytes bs;
  let (sel, body) := p in
  if sel =? 0 then omap (VUnion 0) (dec t0 body)
  else if sel =? 1 then omap (VUnion 1) (dec t1 body) else Err.
Proof.
  cbn [dec]. destruct (split_union_bytes bs) as [[sel body]| |]; cbn [bind]; try reflexivity.
  destruct (sel =? 0) eqn:E0. { apply N.eqb_eq in E0. subst. reflexivity. }
  destruct (sel =? 1) eqn:E1. { apply N.eqb_eq in E1. subst. reflexivity. }
  apply N.eqb_neq in E0. apply N.eqb_neq in E1.
  destruct (N.to_nat sel) as [|[|n]] eqn:En; try lia. reflexivity.
Qed.

Theorem derive_U2_from_ssz_bytes bs : omap v_U2 (GenD.U2_from_ssz_bytes bs) = dec T_U2 bs.
Proof.
  unfold GenD.U2_from_ssz_bytes. change (if true then ?a else ?b) with a.
  change (negb (127 =? Gen.MAX_UNION_SELECTOR)) with false. cbv iota beta.
  unfold T_U2. rewrite dec_union2, gen_split_union_bytes_eq.
  destruct (split_union_bytes bs) as [[sel body]| |]; cbn [bind omap]; try reflexivity.
  destruct (sel =? 0).
  - rewrite <- (gen_u8_from_ssz_bytes_eq body). destruct (Gen.u8_from_ssz_bytes body); reflexivity.
  - destruct (sel =? 1); [|reflexivity].
    cbn [Gen.u8_dec_is_ssz_fixed_len Gen.u8_dec_ssz_fixed_len bind]. change (8 / 8) with (N.of_nat 1).
    rewrite <- (vec_uint_from 1 Gen.u8_from_ssz_bytes body ltac:(lia) gen_u8_from_ssz_bytes_eq).
    destruct (Gen.vec_from_ssz_bytes true (N.of_nat 1) Gen.u8_from_ssz_bytes body); reflexivity.
Qed.

(** ** [FixedPair]: an all-fixed container (the [split_at] path) *)
Theorem derive_FixedPair_ssz_append r buf :
  GenD.FixedPair_ssz_append r buf = Ok (append T_FixedPair (v_FixedPair r) buf).
Proof.
  unfold GenD.FixedPair_ssz_append. destruct r as [a b]. cbn. unfold enc_run, enc_container, enc_append, enc_finalize. cbn.
  rewrite app_nil_r. reflexivity.
Qed.

Theorem derive_FixedPair_ssz_bytes_len r :
  GenD.FixedPair_ssz_bytes_len r = Ok (bytes_len T_FixedPair (v_FixedPair r)).
Proof. reflexivity. Qed.

Lemma split_at_n_eq (bs : bytes) mid : split_at_n bs mid = split_at bs mid.
Proof. reflexivity. Qed.

Theorem derive_FixedPair_from_ssz_bytes bs :
  omap v_FixedPair (GenD.FixedPair_from_ssz_bytes bs) = dec T_FixedPair bs.
Proof.
  unfold GenD.FixedPair_from_ssz_bytes.
  change GenD.FixedPair_dec_is_ssz_fixed_len with (Ok true : outcome bool).
  change GenD.FixedPair_dec_ssz_fixed_len with (Ok 3 : outcome N).
  change Gen.u16_dec_ssz_fixed_len with (Ok 2 : outcome N).
  change Gen.u8_dec_ssz_fixed_len with (Ok 1 : outcome N).
  cbn [bind]. rewrite llen_len.
  unfold T_FixedPair. rewrite dec_container.
  change (true && forallb d_is_fixed [TUint 2; TUint 1]) with true. cbv iota.
  change (sumN (map d_fixed_len [TUint 2; TUint 1])) with 3.
  destruct (len bs =? 3); cbn [negb omap]; [|reflexivity].
  cbn [map split_dec]. change (d_fixed_len (TUint 2)) with 2. change (d_fixed_len (TUint 1)) with 1.
  rewrite split_at_n_eq.
  destruct (split_at bs 2) as [[s1 r1]| |]; cbn [bind fst snd omap]; try reflexivity.
  rewrite <- (gen_u16_from_ssz_bytes_eq s1).
  destruct (Gen.u16_from_ssz_bytes s1) as [a| |]; cbn [bind omap]; try reflexivity.
  rewrite split_at_n_eq.
  destruct (split_at r1 1) as [[s2 r2]| |]; cbn [bind fst snd omap]; try reflexivity.
  rewrite <- (gen_u8_from_ssz_bytes_eq s2).
  destruct (Gen.u8_from_ssz_bytes s2) as [b| |]; reflexivity.
Qed.

(** ** [Mixed]: a container with fixed and variable fields (the [SszEncoder] / [SszDecoderBuilder] path) *)
Lemma len_enc_list_u8 l : len (append (TList (TUint 1)) (v_list l) []) = llen l.
Proof.
  unfold v_list. cbn [append e_is_fixed]. unfold seq_append. rewrite map_map.
  assert (H : forall (b : bytes), len (fold_left (fun b0 (a : bytes -> bytes) => a b0) (map (fun x => append (TUint 1) (VUint x)) l) b) = len b + llen l).
  { induction l as [|x r IH]; intro b; cbn [map fold_left]; [unfold llen; cbn [length]; lia|].
    rewrite IH. cbn [append]. rewrite len_app. unfold len at 2. rewrite le_bytes_length. unfold llen. cbn [length]. lia. }
  rewrite H. unfold len at 1. cbn [length]. lia.
Qed.

Theorem derive_Mixed_ssz_append r buf :
  14 + llen (GenD.Mixed_b r) + 2 * llen (GenD.Mixed_d r) <= usize_max ->
  GenD.Mixed_ssz_append r buf = Ok (append T_Mixed (v_Mixed r) buf).
Proof.
  intro H. destruct r as [a b c d]. cbn [GenD.Mixed_b GenD.Mixed_d] in H.
  unfold GenD.Mixed_ssz_append. cbn [GenD.Mixed_a GenD.Mixed_b GenD.Mixed_c GenD.Mixed_d].
  change Gen.u16_enc_ssz_fixed_len with (Ok 2 : outcome N).
  change Gen.u32_enc_ssz_fixed_len with (Ok 4 : outcome N).
  change Gen.encode_default_ssz_fixed_len with (Ok 4 : outcome N).
  change Gen.u16_enc_is_ssz_fixed_len with (Ok true : outcome bool).
  change Gen.u32_enc_is_ssz_fixed_len with (Ok true : outcome bool).
  change Gen.u8_enc_is_ssz_fixed_len with (Ok true : outcome bool).
  change Gen.u8_enc_ssz_fixed_len with (Ok 1 : outcome N).
  change Gen.vec_enc_is_ssz_fixed_len with (Ok false : outcome bool).
  cbn [bind]. change (unwrap_or_panic (checked_add 0 2)) with (Ok 2 : outcome N). cbn [bind].
  change (unwrap_or_panic (checked_add 2 4)) with (Ok 6 : outcome N). cbn [bind].
  change (unwrap_or_panic (checked_add 6 4)) with (Ok 10 : outcome N). cbn [bind].
  change (unwrap_or_panic (checked_add 10 4)) with (Ok 14 : outcome N). cbn [bind].
  unfold Gen.encoder_container. cbn [bind].
  unfold Gen.encoder_append_item, Gen.encoder_append.
  cbn [bind Gen.SszEncoder_buf Gen.SszEncoder_offset Gen.SszEncoder_variable_bytes Gen.set_SszEncoder_buf Gen.set_SszEncoder_variable_bytes Gen.u16_ssz_append Gen.u32_ssz_append].
  (* b : the first variable field *)
  change (llen (@nil N)) with 0. change (usize_add 14 0) with (Ok 14 : outcome N). cbn [bind].
  rewrite gen_encode_length_eq. cbn [bind].
  rewrite (vec_u8_append b []) by lia. cbn [bind Gen.SszEncoder_buf Gen.SszEncoder_offset Gen.SszEncoder_variable_bytes Gen.set_SszEncoder_buf Gen.set_SszEncoder_variable_bytes].
  (* d : the second variable field *)
  set (eb := append (TList (TUint 1)) (v_list b) []).
  assert (Heb : llen eb = llen b) by (rewrite llen_len; apply len_enc_list_u8).
  unfold usize_add. destruct (14 + llen eb <=? usize_max) eqn:E; [|apply N.leb_gt in E; lia]. cbn [bind].
  rewrite gen_encode_length_eq. cbn [bind].
  change (16 / 8) with 2.
  rewrite (vec_u16_append d eb) by lia. cbn [bind Gen.SszEncoder_buf Gen.SszEncoder_offset Gen.SszEncoder_variable_bytes Gen.set_SszEncoder_buf Gen.set_SszEncoder_variable_bytes].
  unfold Gen.encoder_finalize. cbn [bind Gen.SszEncoder_buf Gen.SszEncoder_offset Gen.SszEncoder_variable_bytes Gen.set_SszEncoder_buf Gen.set_SszEncoder_variable_bytes].
  reflexivity.
Qed.

Lemma bytes_len_list_u8 l : bytes_len (TList (TUint 1)) (v_list l) = llen l.
Proof. unfold v_list. cbn [bytes_len e_is_fixed e_fixed_len]. unfold seq_bytes_len. rewrite !map_length. unfold llen. lia. Qed.
Lemma bytes_len_list_u16 l : bytes_len (TList (TUint 2)) (v_list l) = 2 * llen l.
Proof. unfold v_list. cbn [bytes_len e_is_fixed e_fixed_len]. unfold seq_bytes_len. rewrite !map_length. unfold llen. lia. Qed.

Theorem derive_Mixed_ssz_bytes_len r :
  14 + llen (GenD.Mixed_b r) + 2 * llen (GenD.Mixed_d r) <= usize_max ->
  GenD.Mixed_ssz_bytes_len r = Ok (bytes_len T_Mixed (v_Mixed r)).
Proof.
  intro H. destruct r as [a b c d]. cbn [GenD.Mixed_b GenD.Mixed_d] in H.
  unfold GenD.Mixed_ssz_bytes_len. cbn [GenD.Mixed_a GenD.Mixed_b GenD.Mixed_c GenD.Mixed_d].
  change GenD.Mixed_enc_is_ssz_fixed_len with (Ok false : outcome bool).
  change Gen.u16_enc_ssz_fixed_len with (Ok 2 : outcome N).
  change Gen.u32_enc_ssz_fixed_len with (Ok 4 : outcome N).
  change Gen.u16_enc_is_ssz_fixed_len with (Ok true : outcome bool).
  change Gen.u32_enc_is_ssz_fixed_len with (Ok true : outcome bool).
  change Gen.u8_enc_is_ssz_fixed_len with (Ok true : outcome bool).
  change Gen.u8_enc_ssz_fixed_len with (Ok 1 : outcome N).
  change Gen.vec_enc_is_ssz_fixed_len with (Ok false : outcome bool).
  cbn [bind]. change (unwrap_or_panic (checked_add 0 2)) with (Ok 2 : outcome N). cbn [bind].
  rewrite gen_BYTES_PER_LENGTH_OFFSET. unfold BYTES_PER_LENGTH_OFFSET.
  change (unwrap_or_panic (checked_add 2 4)) with (Ok 6 : outcome N). cbn [bind].
  rewrite (vec_u8_bytes_len b) by lia. cbn [bind]. rewrite bytes_len_list_u8.
  unfold checked_add at 1. destruct (6 + llen b <=? usize_max) eqn:E1; [|apply N.leb_gt in E1; lia]. cbn [unwrap_or_panic bind].
  unfold checked_add at 1. destruct (6 + llen b + 4 <=? usize_max) eqn:E2; [|apply N.leb_gt in E2; lia]. cbn [unwrap_or_panic bind].
  unfold checked_add at 1. destruct (6 + llen b + 4 + 4 <=? usize_max) eqn:E3; [|apply N.leb_gt in E3; lia]. cbn [unwrap_or_panic bind].
  change (16 / 8) with 2. rewrite (vec_u16_bytes_len d) by lia. cbn [bind]. rewrite bytes_len_list_u16.
  unfold checked_add at 1. destruct (6 + llen b + 4 + 4 + 2 * llen d <=? usize_max) eqn:E4; [|apply N.leb_gt in E4; lia]. cbn [unwrap_or_panic bind].
  f_equal. unfold T_Mixed, v_Mixed. cbn [GenD.Mixed_a GenD.Mixed_b GenD.Mixed_c GenD.Mixed_d].
  rewrite bytes_len_container. cbn [forallb e_is_fixed andb]. cbv iota.
  cbn [combine map sumN fst snd]. unfold field_len. cbn [e_is_fixed e_fixed_len].
  rewrite bytes_len_list_u8, bytes_len_list_u16. unfold BYTES_PER_LENGTH_OFFSET. change (N.of_nat 2) with 2. change (N.of_nat 4) with 4. lia.
Qed.

(** *** decoding through the builder: each step of the expanded code is a step of the model *)
Lemma register_type_bind {B} s f l (k : Gen.SszDecoderBuilder -> outcome B) (k' : bstate -> outcome B) :
  (forall s', Gen.SszDecoderBuilder_bytes s' = Gen.SszDecoderBuilder_bytes s -> k s' = k' (st_abs s')) ->
  (do st <- Gen.builder_register_type f l s; k st)
  = do st <- register (Gen.SszDecoderBuilder_bytes s) (st_abs s) f l; k' st.
Proof.
  intro Hk. pose proof (gen_builder_register_type_eq s f l) as E.
  destruct (Gen.builder_register_type f l s) as [s'| |];
    destruct (register (Gen.SszDecoderBuilder_bytes s) (st_abs s) f l) as [st| |];
    cbn [omap bind] in *; try discriminate; try reflexivity.
  apply Ok_inj_pair in E. destruct E as (Eb & Es). rewrite <- Es. apply Hk. exact Eb.
Qed.

Lemma decode_next_bind {A B} items (d : bytes -> outcome A) (k : A -> Gen.SszDecoder -> outcome B) :
  (do vs <- Gen.decoder_decode_next d {| Gen.SszDecoder_items := items |}; k (fst vs) (snd vs))
  = do p <- decode_next items d; k (fst p) {| Gen.SszDecoder_items := snd p |}.
Proof.
  pose proof (gen_decoder_decode_next_eq items d) as E.
  destruct (Gen.decoder_decode_next d {| Gen.SszDecoder_items := items |}) as [[x [its]]| |];
    destruct (decode_next items d) as [[y its']| |]; cbn [omap bind fst snd] in *; try discriminate; try reflexivity.
  apply Ok_inj_pair in E. destruct E as (E1 & E2). cbn [Gen.SszDecoder_items] in E2. subst. reflexivity.
Qed.

Lemma decode_next_omap {A C} items (d : bytes -> outcome A) (inj : A -> C) :
  decode_next items (fun b => omap inj (d b)) = omap (fun p => (inj (fst p), snd p)) (decode_next items d).
Proof.
  destruct items as [|s r]; [reflexivity|]. cbn [decode_next]. destruct (d s); reflexivity.
Qed.

Definition d_vec_u8 (b : bytes) : outcome (list N) := Gen.vec_from_ssz_bytes true 1 Gen.u8_from_ssz_bytes b.
Definition d_vec_u16 (b : bytes) : outcome (list N) := Gen.vec_from_ssz_bytes true 2 Gen.u16_from_ssz_bytes b.

Lemma d_vec_u8_eq b : omap v_list (d_vec_u8 b) = dec (TList (TUint 1)) b.
Proof. exact (vec_uint_from 1 Gen.u8_from_ssz_bytes b ltac:(lia) gen_u8_from_ssz_bytes_eq). Qed.
Lemma d_vec_u16_eq b : omap v_list (d_vec_u16 b) = dec (TList (TUint 2)) b.
Proof. exact (vec_uint_from 2 Gen.u16_from_ssz_bytes b ltac:(lia) gen_u16_from_ssz_bytes_eq). Qed.

Lemma decode_next_ext {A} items (d d' : bytes -> outcome A) : (forall b, d b = d' b) -> decode_next items d = decode_next items d'.
Proof. intro H. destruct items as [|s r]; [reflexivity|]. cbn [decode_next]. rewrite H. reflexivity. Qed.

(** one registration: the expanded code's step against the model's *)
Ltac reg_step S0 F L :=
  let E := fresh "E" in let ns := fresh "s" in let nst := fresh "st" in
  let Eb := fresh "Eb" in let Es := fresh "Es" in
  pose proof (gen_builder_register_type_eq S0 F L) as E;
  destruct (Gen.builder_register_type F L S0) as [ns| |];
  destruct (register (Gen.SszDecoderBuilder_bytes S0) (st_abs S0) F L) as [nst| |];
  cbn [omap bind] in *; try discriminate; try reflexivity;
  apply Ok_inj_pair in E; destruct E as (Eb & Es).

(** one [decode_next]: the decoder of the field's type at its native value type [d], the model's at [val] *)
Ltac dec_step ITS D T INJ HD :=
  let E := fresh "E" in let x := fresh "x" in let its1 := fresh "its" in let y := fresh "y" in let its2 := fresh "itm" in
  let E1 := fresh "E1" in let E2 := fresh "E2" in
  pose proof (gen_decoder_decode_next_eq ITS D) as E;
  rewrite (decode_next_ext ITS (dec T) (fun b => omap INJ (D b))) by (intro; symmetry; apply HD);
  rewrite decode_next_omap;
  destruct (Gen.decoder_decode_next D {| Gen.SszDecoder_items := ITS |}) as [[x [its1]]| |];
  destruct (decode_next ITS D) as [[y its2]| |];
  cbn [omap bind fst snd] in *; try discriminate; try reflexivity;
  apply Ok_inj_pair in E; destruct E as (E1 & E2); cbn [Gen.SszDecoder_items] in *; subst.

Theorem derive_Mixed_from_ssz_bytes bs :
  omap v_Mixed (GenD.Mixed_from_ssz_bytes bs) = dec T_Mixed bs.
Proof.
  unfold GenD.Mixed_from_ssz_bytes.
  change GenD.Mixed_dec_is_ssz_fixed_len with (Ok false : outcome bool).
  change Gen.u16_dec_is_ssz_fixed_len with (Ok true : outcome bool).
  change Gen.u32_dec_is_ssz_fixed_len with (Ok true : outcome bool).
  change Gen.u8_dec_is_ssz_fixed_len with (Ok true : outcome bool).
  change Gen.vec_dec_is_ssz_fixed_len with (Ok false : outcome bool).
  change Gen.u16_dec_ssz_fixed_len with (Ok 2 : outcome N).
  change Gen.u32_dec_ssz_fixed_len with (Ok 4 : outcome N).
  change Gen.u8_dec_ssz_fixed_len with (Ok 1 : outcome N).
  change Gen.decode_default_ssz_fixed_len with (Ok 4 : outcome N).
  cbn [bind]. unfold Gen.builder_new. cbn [bind].
  unfold T_Mixed. rewrite dec_container.
  change (true && forallb d_is_fixed [TUint 2; TList (TUint 1); TUint 4; TList (TUint 2)]) with false. cbv iota.
  unfold regs_of. cbn [map d_is_fixed d_fixed_len]. change (N.of_nat 2) with 2. change (N.of_nat 4) with 4. unfold BYTES_PER_LENGTH_OFFSET.
  unfold builder_build. cbn [register_all].
  set (s0 := {| Gen.SszDecoderBuilder_bytes := bs; Gen.SszDecoderBuilder_items := []; Gen.SszDecoderBuilder_offsets := []; Gen.SszDecoderBuilder_items_index := 0 |}).
  change builder_new with (st_abs s0).
  replace bs with (Gen.SszDecoderBuilder_bytes s0) by reflexivity.
  reg_step s0 true 2. rewrite <- Es, <- Eb.
  reg_step s false 4. rewrite <- Es0, <- Eb0.
  reg_step s1 true 4. rewrite <- Es1, <- Eb1.
  reg_step s2 false 4. rewrite <- Es2, <- Eb2.
  (* build *)
  pose proof (gen_builder_build_eq s3) as Ebuild.
  destruct (Gen.builder_build s3) as [[its]| |]; destruct (finalize (Gen.SszDecoderBuilder_bytes s3) (st_abs s3)) as [items| |];
    cbn [omap bind Gen.SszDecoder_items] in *; try discriminate; try reflexivity.
  apply (f_equal (fun o => match o with Ok c => c | _ => its end)) in Ebuild. subst items.
  (* the four items, in order *)
  cbn [decode_all].
  dec_step its Gen.u16_from_ssz_bytes (TUint 2) VUint gen_u16_from_ssz_bytes_eq.
  change (fun b : bytes => Gen.vec_from_ssz_bytes true 1 Gen.u8_from_ssz_bytes b) with d_vec_u8.
  change (fun b : bytes => Gen.vec_from_ssz_bytes true 2 Gen.u16_from_ssz_bytes b) with d_vec_u16.
  dec_step itm d_vec_u8 (TList (TUint 1)) v_list d_vec_u8_eq.
  dec_step itm0 Gen.u32_from_ssz_bytes (TUint 4) VUint gen_u32_from_ssz_bytes_eq.
  dec_step itm1 d_vec_u16 (TList (TUint 2)) v_list d_vec_u16_eq.
  reflexivity.
Qed.

Print Assumptions derive_metadata.
Print Assumptions derive_Tag3_from_ssz_bytes.
Print Assumptions derive_Wrap_from_ssz_bytes.
Print Assumptions derive_U2_from_ssz_bytes.
Print Assumptions derive_U2_ssz_append.
Print Assumptions derive_FixedPair_from_ssz_bytes.
Print Assumptions derive_FixedPair_ssz_append.
Print Assumptions derive_Mixed_ssz_append.
Print Assumptions derive_Mixed_ssz_bytes_len.
Print Assumptions derive_Mixed_from_ssz_bytes.
