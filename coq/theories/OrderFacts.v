(** * OrderFacts: [val_cmp] is a strict total order on the values of key types, and
    [collect_entries] (the model of [BTreeMap/BTreeSet::from_iter]) produces the strictly
    ascending list of the last entry listed for every key. *)
From Coq Require Import List NArith Lia Bool Arith ZArith ZifyN ZifyNat ZifyBool.
From SSZ Require Import Base BaseFacts Types Codec CodecUnfold.
Import ListNotations.
Open Scope N_scope.

(** ** Unfolding of the local fixpoint of [val_cmp] *)
Fixpoint list_cmp (xs ys : list val) : comparison :=
  match xs, ys with
  | [], [] => Eq
  | [], _ :: _ => Lt
  | _ :: _, [] => Gt
  | x :: xr, y :: yr => match val_cmp x y with Eq => list_cmp xr yr | c => c end
  end.

Lemma val_cmp_VList xs ys : val_cmp (VList xs) (VList ys) = list_cmp xs ys.
Proof.
  reflexivity.
Qed.

Lemma val_cmp_VCont xs ys : val_cmp (VCont xs) (VCont ys) = list_cmp xs ys.
Proof.
  reflexivity.
Qed.

(** ** Induction principle for [val] *)
Section ValInd.
  Variable P : val -> Prop.
  Hypothesis HUint : forall n, P (VUint n).
  Hypothesis HBool : forall b, P (VBool b).
  Hypothesis HBytes : forall bs, P (VBytes bs).
  Hypothesis HList : forall vs, Forall P vs -> P (VList vs).
  Hypothesis HNone : P VNone.
  Hypothesis HSome : forall v, P v -> P (VSome v).
  Hypothesis HCont : forall vs, Forall P vs -> P (VCont vs).
  Hypothesis HUnion : forall i v, P v -> P (VUnion i v).
  Hypothesis HTag : forall i, P (VTag i).
  Hypothesis HBits : forall bits, P (VBits bits).

  Fixpoint val_ind' (v : val) : P v :=
    let fix all (l : list val) : Forall P l :=
      match l with
      | [] => Forall_nil P
      | x :: r => Forall_cons x (val_ind' x) (all r)
      end in
    match v with
    | VUint n => HUint n
    | VBool b => HBool b
    | VBytes bs => HBytes bs
    | VList vs => HList vs (all vs)
    | VNone => HNone
    | VSome v => HSome v (val_ind' v)
    | VCont vs => HCont vs (all vs)
    | VUnion i v => HUnion i v (val_ind' v)
    | VTag i => HTag i
    | VBits bits => HBits bits
    end.
End ValInd.

(** ** bytes_cmp *)
Lemma bytes_cmp_antisym a b : bytes_cmp a b = CompOpp (bytes_cmp b a).
Proof.
  revert b. induction a as [|x ar IH]; intros [|y br]; try reflexivity.
  cbn [bytes_cmp]. rewrite (N.compare_antisym y x).
  destruct (y ?= x); cbn [CompOpp]; auto.
Qed.

Lemma bytes_cmp_eq a b : bytes_cmp a b = Eq -> a = b.
Proof.
  revert b. induction a as [|x ar IH]; intros [|y br] H; try reflexivity; try discriminate H.
  cbn [bytes_cmp] in H. destruct (x ?= y) eqn:E; try discriminate H.
  apply N.compare_eq in E. subst y. f_equal. now apply IH.
Qed.

Lemma bytes_cmp_trans a b c : bytes_cmp a b = Lt -> bytes_cmp b c = Lt -> bytes_cmp a c = Lt.
Proof.
  revert b c. induction a as [|x ar IH]; intros [|y br] [|z cr] H1 H2;
    try reflexivity; try discriminate H1; try discriminate H2.
  cbn [bytes_cmp] in *.
  destruct (N.compare_spec x y) as [E1|E1|E1]; try discriminate H1;
  destruct (N.compare_spec y z) as [E2|E2|E2]; try discriminate H2.
  - subst. rewrite N.compare_refl. eapply IH; eauto.
  - subst. rewrite (proj2 (N.compare_lt_iff _ _) E2). reflexivity.
  - subst. rewrite (proj2 (N.compare_lt_iff _ _) E1). reflexivity.
  - rewrite (proj2 (N.compare_lt_iff x z)) by lia. reflexivity.
Qed.

(** ** Antisymmetry on all values *)
Lemma list_cmp_antisym xs :
  Forall (fun x => forall b, val_cmp x b = CompOpp (val_cmp b x)) xs ->
  forall ys, list_cmp xs ys = CompOpp (list_cmp ys xs).
Proof.
  induction 1 as [|x xr Hx _ IH]; intros [|y yr]; try reflexivity.
  cbn [list_cmp]. rewrite (Hx y).
  destruct (val_cmp y x); cbn [CompOpp]; auto.
Qed.

Lemma val_cmp_antisym a b : val_cmp a b = CompOpp (val_cmp b a).
Proof.
  revert b. induction a as [n|x|bs|vs IH| |v IH|vs IH|i v IH|i|bits] using val_ind';
    intros b; destruct b; try reflexivity.
  - cbn [val_cmp]. apply N.compare_antisym.
  - cbn [val_cmp]. destruct x, b; reflexivity.
  - cbn [val_cmp]. apply bytes_cmp_antisym.
  - rewrite !val_cmp_VList. now apply list_cmp_antisym.
  - cbn [val_cmp]. apply IH.
  - rewrite !val_cmp_VCont. now apply list_cmp_antisym.
  - cbn [val_cmp]. apply Nat.compare_antisym.
Qed.

Lemma val_cmp_refl_all a : val_cmp a a = Eq.
Proof.
  pose proof (val_cmp_antisym a a) as H.
  destruct (val_cmp a a); cbn [CompOpp] in H; try discriminate H; reflexivity.
Qed.

Lemma val_cmp_lt_gt a b : val_cmp a b = Lt -> val_cmp b a = Gt.
Proof. intros H. rewrite val_cmp_antisym, H. reflexivity. Qed.

Lemma val_cmp_gt_lt a b : val_cmp a b = Gt -> val_cmp b a = Lt.
Proof. intros H. rewrite val_cmp_antisym, H. reflexivity. Qed.

(** ** Typing helpers *)
Lemma has_ty_wrap t v : has_ty (TWrap t) v = has_ty t v.
Proof. destruct v; reflexivity. Qed.

Lemma key_type_container d fs : key_type (TContainer d fs) = forallb key_type fs.
Proof. cbn [key_type]. induction fs as [|f r IH]; cbn [forallb]; [reflexivity|]. now rewrite IH. Qed.

(** ** [Eq] is equality on typed keys *)
Definition eq_at (t : ty) : Prop :=
  key_type t = true -> forall a b, has_ty t a = true -> has_ty t b = true ->
  val_cmp a b = Eq -> a = b.

Lemma list_cmp_eq_list t : eq_at t -> key_type t = true ->
  forall xs ys, forallb (has_ty t) xs = true -> forallb (has_ty t) ys = true ->
  list_cmp xs ys = Eq -> xs = ys.
Proof.
  intros IH Hk. induction xs as [|x xr IHl]; intros [|y yr] Hx Hy Hc;
    try reflexivity; try discriminate Hc.
  cbn [forallb list_cmp] in *.
  apply andb_true_iff in Hx as [Hx Hxr]. apply andb_true_iff in Hy as [Hy Hyr].
  destruct (val_cmp x y) eqn:E; try discriminate Hc.
  apply (IH Hk _ _ Hx Hy) in E. subst y. f_equal. now apply IHl.
Qed.

Lemma list_cmp_eq_fields fs : Forall eq_at fs -> forallb key_type fs = true ->
  forall xs ys, has_ty_fields fs xs = true -> has_ty_fields fs ys = true ->
  list_cmp xs ys = Eq -> xs = ys.
Proof.
  induction 1 as [|f fr Hf _ IHl]; intros Hk xs ys Hx Hy Hc.
  - rewrite has_ty_fields_nil_l in Hx, Hy. destruct xs; try discriminate Hx.
    destruct ys; try discriminate Hy. reflexivity.
  - destruct xs as [|x xr]; [rewrite has_ty_fields_nil_r in Hx; discriminate Hx|].
    destruct ys as [|y yr]; [rewrite has_ty_fields_nil_r in Hy; discriminate Hy|].
    rewrite has_ty_fields_cons in Hx, Hy. cbn [forallb list_cmp] in *.
    apply andb_true_iff in Hk as [Hkf Hkr].
    apply andb_true_iff in Hx as [Hx Hxr]. apply andb_true_iff in Hy as [Hy Hyr].
    destruct (val_cmp x y) eqn:E; try discriminate Hc.
    apply (Hf Hkf _ _ Hx Hy) in E. subst y. f_equal. now apply IHl.
Qed.

Lemma val_cmp_eq_at t : eq_at t.
Proof.
  induction t using ty_ind'; unfold eq_at; intros Hk a b Ha Hb Hc;
    try discriminate Hk.
  - (* TUint *)
    destruct a; try discriminate Ha; destruct b; try discriminate Hb.
    cbn [val_cmp] in Hc. apply N.compare_eq in Hc. now subst.
  - (* TBool *)
    destruct a; try discriminate Ha; destruct b; try discriminate Hb.
    cbn [val_cmp] in Hc. destruct b0, b; try discriminate Hc; reflexivity.
  - (* TNonZero *)
    destruct a; try discriminate Ha; destruct b; try discriminate Hb.
    cbn [val_cmp] in Hc. apply N.compare_eq in Hc. now subst.
  - (* TBytesN *)
    destruct a; try discriminate Ha; destruct b; try discriminate Hb.
    cbn [val_cmp] in Hc. apply bytes_cmp_eq in Hc. now subst.
  - (* TByteList *)
    destruct a; try discriminate Ha; destruct b; try discriminate Hb.
    cbn [val_cmp] in Hc. apply bytes_cmp_eq in Hc. now subst.
  - (* TList *)
    destruct a; try discriminate Ha; destruct b; try discriminate Hb.
    cbn [has_ty key_type] in *. rewrite val_cmp_VList in Hc.
    f_equal. eapply list_cmp_eq_list; eauto.
  - (* TOption *)
    cbn [key_type] in Hk.
    destruct a; try discriminate Ha; destruct b; try discriminate Hb;
      try reflexivity; try discriminate Hc.
    cbn [has_ty val_cmp] in *. f_equal. eapply IHt; eauto.
  - (* TContainer *)
    destruct a; try discriminate Ha; destruct b; try discriminate Hb.
    rewrite has_ty_container in Ha, Hb. rewrite key_type_container in Hk.
    rewrite val_cmp_VCont in Hc. f_equal. eapply list_cmp_eq_fields; eauto.
  - (* TTag *)
    destruct a; try discriminate Ha; destruct b; try discriminate Hb.
    cbn [val_cmp] in Hc. apply Nat.compare_eq in Hc. now subst.
  - (* TWrap *)
    rewrite has_ty_wrap in Ha, Hb. cbn [key_type] in Hk. eapply IHt; eauto.
Qed.

Lemma val_cmp_eq t a b : key_type t = true -> has_ty t a = true -> has_ty t b = true ->
  val_cmp a b = Eq -> a = b.
Proof. intros Hk Ha Hb Hc. exact (val_cmp_eq_at t Hk a b Ha Hb Hc). Qed.

Lemma val_cmp_refl t a : key_type t = true -> has_ty t a = true -> val_cmp a a = Eq.
Proof. intros _ _. apply val_cmp_refl_all. Qed.

(** ** Transitivity on typed keys *)
Definition trans_at (t : ty) : Prop :=
  key_type t = true -> forall a b c,
  has_ty t a = true -> has_ty t b = true -> has_ty t c = true ->
  val_cmp a b = Lt -> val_cmp b c = Lt -> val_cmp a c = Lt.

(** One lexicographic step, shared by the list and the field lemmas. *)
Lemma lex_step t x y z (R1 R2 R3 : comparison) :
  trans_at t -> key_type t = true ->
  has_ty t x = true -> has_ty t y = true -> has_ty t z = true ->
  (R1 = Lt -> R2 = Lt -> R3 = Lt) ->
  match val_cmp x y with Eq => R1 | c => c end = Lt ->
  match val_cmp y z with Eq => R2 | c => c end = Lt ->
  match val_cmp x z with Eq => R3 | c => c end = Lt.
Proof.
  intros IH Hk Hx Hy Hz HR H1 H2.
  destruct (val_cmp x y) eqn:E1; try discriminate H1;
  destruct (val_cmp y z) eqn:E2; try discriminate H2.
  - apply (val_cmp_eq t _ _ Hk Hx Hy) in E1. apply (val_cmp_eq t _ _ Hk Hy Hz) in E2.
    subst. rewrite val_cmp_refl_all. auto.
  - apply (val_cmp_eq t _ _ Hk Hx Hy) in E1. subst. rewrite E2. reflexivity.
  - apply (val_cmp_eq t _ _ Hk Hy Hz) in E2. subst. rewrite E1. reflexivity.
  - rewrite (IH Hk _ _ _ Hx Hy Hz E1 E2). reflexivity.
Qed.

Lemma list_cmp_trans_list t : trans_at t -> key_type t = true ->
  forall xs ys zs, forallb (has_ty t) xs = true -> forallb (has_ty t) ys = true ->
  forallb (has_ty t) zs = true ->
  list_cmp xs ys = Lt -> list_cmp ys zs = Lt -> list_cmp xs zs = Lt.
Proof.
  intros IH Hk. induction xs as [|x xr IHl]; intros [|y yr] [|z zr] Hx Hy Hz H1 H2;
    try reflexivity; try discriminate H1; try discriminate H2.
  cbn [forallb list_cmp] in *.
  apply andb_true_iff in Hx as [Hx Hxr]. apply andb_true_iff in Hy as [Hy Hyr].
  apply andb_true_iff in Hz as [Hz Hzr].
  apply (lex_step t x y z (list_cmp xr yr) (list_cmp yr zr) (list_cmp xr zr) IH Hk Hx Hy Hz);
    [|exact H1|exact H2].
  intros G1 G2. exact (IHl yr zr Hxr Hyr Hzr G1 G2).
Qed.

Lemma list_cmp_trans_fields fs : Forall trans_at fs -> forallb key_type fs = true ->
  forall xs ys zs, has_ty_fields fs xs = true -> has_ty_fields fs ys = true ->
  has_ty_fields fs zs = true ->
  list_cmp xs ys = Lt -> list_cmp ys zs = Lt -> list_cmp xs zs = Lt.
Proof.
  induction 1 as [|f fr Hf _ IHl]; intros Hk xs ys zs Hx Hy Hz H1 H2.
  - rewrite has_ty_fields_nil_l in Hx, Hy. destruct xs; try discriminate Hx.
    destruct ys; try discriminate Hy. discriminate H1.
  - destruct xs as [|x xr]; [rewrite has_ty_fields_nil_r in Hx; discriminate Hx|].
    destruct ys as [|y yr]; [rewrite has_ty_fields_nil_r in Hy; discriminate Hy|].
    destruct zs as [|z zr]; [rewrite has_ty_fields_nil_r in Hz; discriminate Hz|].
    rewrite has_ty_fields_cons in Hx, Hy, Hz. cbn [forallb list_cmp] in *.
    apply andb_true_iff in Hk as [Hkf Hkr].
    apply andb_true_iff in Hx as [Hx Hxr]. apply andb_true_iff in Hy as [Hy Hyr].
    apply andb_true_iff in Hz as [Hz Hzr].
    apply (lex_step f x y z (list_cmp xr yr) (list_cmp yr zr) (list_cmp xr zr) Hf Hkf Hx Hy Hz);
      [|exact H1|exact H2].
    intros G1 G2. exact (IHl Hkr xr yr zr Hxr Hyr Hzr G1 G2).
Qed.

Lemma val_cmp_trans_at t : trans_at t.
Proof.
  induction t using ty_ind'; unfold trans_at; intros Hk a b c Ha Hb Hc H1 H2;
    try discriminate Hk.
  - (* TUint *)
    destruct a; try discriminate Ha; destruct b; try discriminate Hb;
      destruct c; try discriminate Hc.
    cbn [val_cmp] in *. rewrite N.compare_lt_iff in *. lia.
  - (* TBool *)
    destruct a; try discriminate Ha; destruct b; try discriminate Hb;
      destruct c; try discriminate Hc.
    cbn [val_cmp] in *. destruct b0, b, b1; try discriminate H1; try discriminate H2; reflexivity.
  - (* TNonZero *)
    destruct a; try discriminate Ha; destruct b; try discriminate Hb;
      destruct c; try discriminate Hc.
    cbn [val_cmp] in *. rewrite N.compare_lt_iff in *. lia.
  - (* TBytesN *)
    destruct a; try discriminate Ha; destruct b; try discriminate Hb;
      destruct c; try discriminate Hc.
    cbn [val_cmp] in *. eapply bytes_cmp_trans; eauto.
  - (* TByteList *)
    destruct a; try discriminate Ha; destruct b; try discriminate Hb;
      destruct c; try discriminate Hc.
    cbn [val_cmp] in *. eapply bytes_cmp_trans; eauto.
  - (* TList *)
    destruct a; try discriminate Ha; destruct b; try discriminate Hb;
      destruct c; try discriminate Hc.
    cbn [has_ty key_type] in *. rewrite val_cmp_VList in *.
    exact (list_cmp_trans_list t IHt Hk _ _ _ Ha Hb Hc H1 H2).
  - (* TOption *)
    cbn [key_type] in Hk.
    destruct a; try discriminate Ha; destruct b; try discriminate Hb;
      destruct c; try discriminate Hc;
      try reflexivity; try discriminate H1; try discriminate H2.
    exact (IHt Hk _ _ _ Ha Hb Hc H1 H2).
  - (* TContainer *)
    destruct a; try discriminate Ha; destruct b; try discriminate Hb;
      destruct c; try discriminate Hc.
    rewrite has_ty_container in Ha, Hb, Hc. rewrite key_type_container in Hk.
    rewrite val_cmp_VCont in *.
    exact (list_cmp_trans_fields fs H Hk _ _ _ Ha Hb Hc H1 H2).
  - (* TTag *)
    destruct a; try discriminate Ha; destruct b; try discriminate Hb;
      destruct c; try discriminate Hc.
    cbn [val_cmp] in *. rewrite Nat.compare_lt_iff in *. lia.
  - (* TWrap *)
    rewrite has_ty_wrap in Ha, Hb, Hc. cbn [key_type] in Hk.
    exact (IHt Hk _ _ _ Ha Hb Hc H1 H2).
Qed.

Lemma val_cmp_trans t a b c : key_type t = true ->
  has_ty t a = true -> has_ty t b = true -> has_ty t c = true ->
  val_cmp a b = Lt -> val_cmp b c = Lt -> val_cmp a c = Lt.
Proof. intros Hk Ha Hb Hc H1 H2. exact (val_cmp_trans_at t Hk a b c Ha Hb Hc H1 H2). Qed.

(** ** Ordered collections *)
Definition keys_typed (kt : ty) (is_map : bool) (l : list val) : Prop :=
  Forall (fun e => has_ty kt (entry_key is_map e) = true) l.

(** The head of [l], if any, has a key above the key of [x]. *)
Definition hd_lt (m : bool) (x : val) (l : list val) : Prop :=
  match l with
  | [] => True
  | y :: _ => val_cmp (entry_key m x) (entry_key m y) = Lt
  end.

Lemma ss_cons m x l :
  strictly_sorted m (x :: l) = true <-> hd_lt m x l /\ strictly_sorted m l = true.
Proof.
  destruct l as [|y r].
  - cbn. tauto.
  - cbn [strictly_sorted hd_lt]. unfold val_ltb. rewrite andb_true_iff.
    destruct (val_cmp (entry_key m x) (entry_key m y)); split; intros [H1 H2];
      try discriminate H1; auto.
Qed.

(** *** membership *)
Lemma insert_in m e l x : In x (insert_entry m e l) -> x = e \/ In x l.
Proof.
  induction l as [|y r IH]; cbn [insert_entry]; intros H.
  - destruct H as [H|[]]. now left.
  - destruct (val_cmp (entry_key m e) (entry_key m y)).
    + destruct H as [H|H]; [now left|right; now right].
    + destruct H as [H|H]; [now left|now right].
    + destruct H as [H|H]; [right; now left|].
      destruct (IH H) as [G|G]; [now left|right; now right].
Qed.

Lemma insert_in_self m e l : In e (insert_entry m e l).
Proof.
  induction l as [|y r IH]; cbn [insert_entry].
  - now left.
  - destruct (val_cmp (entry_key m e) (entry_key m y)); try (now left). now right.
Qed.

Lemma insert_in_keep m e l x :
  In x l -> val_cmp (entry_key m e) (entry_key m x) <> Eq -> In x (insert_entry m e l).
Proof.
  induction l as [|y r IH]; intros Hin Hne; [destruct Hin|].
  cbn [insert_entry]. destruct (val_cmp (entry_key m e) (entry_key m y)) eqn:E.
  - destruct Hin as [Hin|Hin]; [subst y; contradiction|now right].
  - now right.
  - destruct Hin as [Hin|Hin]; [now left|right; now apply IH].
Qed.

Lemma fold_insert_incl m l : forall acc e,
  In e (fold_left (fun acc e => insert_entry m e acc) l acc) -> In e acc \/ In e l.
Proof.
  induction l as [|x r IH]; intros acc e H; cbn [fold_left] in H.
  - now left.
  - destruct (IH _ _ H) as [G|G].
    + destruct (insert_in _ _ _ _ G) as [G'|G']; [right; left; now subst|now left].
    + right. now right.
Qed.

Theorem collect_incl is_map l e : In e (collect_entries is_map l) -> In e l.
Proof.
  unfold collect_entries. intros H. destruct (fold_insert_incl _ _ _ _ H) as [[]|G]. exact G.
Qed.

(** *** typing of keys *)
Lemma insert_keys_typed kt m e l :
  has_ty kt (entry_key m e) = true -> keys_typed kt m l -> keys_typed kt m (insert_entry m e l).
Proof.
  unfold keys_typed. intros He Hl. rewrite Forall_forall in *. intros x Hx.
  destruct (insert_in _ _ _ _ Hx) as [G|G]; [now subst|now apply Hl].
Qed.

Lemma fold_insert_keys_typed kt m l : forall acc,
  keys_typed kt m acc -> keys_typed kt m l ->
  keys_typed kt m (fold_left (fun acc e => insert_entry m e acc) l acc).
Proof.
  induction l as [|x r IH]; intros acc Hacc Hl; cbn [fold_left]; [exact Hacc|].
  inversion Hl as [|? ? Hx Hr]; subst. apply IH; [|exact Hr].
  now apply insert_keys_typed.
Qed.

Theorem collect_keys_typed kt is_map l :
  keys_typed kt is_map l -> keys_typed kt is_map (collect_entries is_map l).
Proof. intros H. apply fold_insert_keys_typed; [constructor|exact H]. Qed.

(** *** sortedness is preserved *)
Lemma hd_lt_insert m z e l :
  hd_lt m z l -> val_cmp (entry_key m z) (entry_key m e) = Lt -> hd_lt m z (insert_entry m e l).
Proof.
  destruct l as [|y r]; cbn [insert_entry hd_lt]; intros H1 H2; [exact H2|].
  destruct (val_cmp (entry_key m e) (entry_key m y)); cbn [hd_lt]; auto.
Qed.

Lemma insert_sorted kt m e l : key_type kt = true ->
  has_ty kt (entry_key m e) = true -> keys_typed kt m l ->
  strictly_sorted m l = true -> strictly_sorted m (insert_entry m e l) = true.
Proof.
  intros Hk He. induction l as [|x r IH]; intros Hl Hs; [reflexivity|].
  inversion Hl as [|? ? Hx Hr]; subst.
  apply ss_cons in Hs as [Hh Hs].
  cbn [insert_entry]. destruct (val_cmp (entry_key m e) (entry_key m x)) eqn:E.
  - apply (val_cmp_eq kt _ _ Hk He Hx) in E.
    apply ss_cons. split; [|exact Hs].
    destruct r as [|y r']; cbn [hd_lt] in *; [exact I|]. rewrite E. exact Hh.
  - apply ss_cons. split; [exact E|]. apply ss_cons. now split.
  - apply ss_cons. split.
    + apply hd_lt_insert; [exact Hh|]. now apply val_cmp_gt_lt.
    + now apply IH.
Qed.

Lemma fold_insert_sorted kt m l : key_type kt = true -> forall acc,
  keys_typed kt m acc -> keys_typed kt m l -> strictly_sorted m acc = true ->
  strictly_sorted m (fold_left (fun acc e => insert_entry m e acc) l acc) = true.
Proof.
  intros Hk. induction l as [|x r IH]; intros acc Hacc Hl Hs; cbn [fold_left]; [exact Hs|].
  inversion Hl as [|? ? Hx Hr]; subst. apply IH; [|exact Hr|].
  - now apply insert_keys_typed.
  - now apply (insert_sorted kt).
Qed.

Theorem collect_is_sorted kt is_map l : key_type kt = true -> keys_typed kt is_map l ->
  strictly_sorted is_map (collect_entries is_map l) = true.
Proof.
  intros Hk Hl. apply (fold_insert_sorted kt); [exact Hk|constructor|exact Hl|reflexivity].
Qed.

(** *** collecting a sorted list *)
Lemma sorted_app_lt kt m acc e r : key_type kt = true ->
  keys_typed kt m (acc ++ e :: r) -> strictly_sorted m (acc ++ e :: r) = true ->
  forall x, In x acc -> val_cmp (entry_key m x) (entry_key m e) = Lt.
Proof.
  intros Hk. induction acc as [|a acc' IH]; intros Ht Hs x Hin; [destruct Hin|].
  cbn [app] in Ht, Hs. inversion Ht as [|? ? Ha Ht']; subst.
  apply ss_cons in Hs as [Hh Hs].
  destruct Hin as [Hin|Hin]; [subst x|now apply IH].
  destruct acc' as [|b acc'']; cbn [app hd_lt] in Hh; [exact Hh|].
  assert (Hb : val_cmp (entry_key m b) (entry_key m e) = Lt) by (apply IH; auto; now left).
  cbn [app] in Ht'. inversion Ht' as [|? ? Hbt Ht'']; subst.
  assert (Het : has_ty kt (entry_key m e) = true).
  { unfold keys_typed in Ht''. rewrite Forall_forall in Ht''. apply Ht''.
    apply in_or_app. right. now left. }
  exact (val_cmp_trans kt _ _ _ Hk Ha Hbt Het Hh Hb).
Qed.

Lemma insert_at_end m e acc :
  (forall x, In x acc -> val_cmp (entry_key m x) (entry_key m e) = Lt) ->
  insert_entry m e acc = acc ++ [e].
Proof.
  induction acc as [|a r IH]; intros H; [reflexivity|].
  cbn [insert_entry app]. rewrite (val_cmp_lt_gt _ _ (H a (or_introl eq_refl))).
  f_equal. apply IH. intros x Hx. apply H. now right.
Qed.

Lemma fold_insert_sorted_id kt m l : key_type kt = true -> forall acc,
  keys_typed kt m (acc ++ l) -> strictly_sorted m (acc ++ l) = true ->
  fold_left (fun acc e => insert_entry m e acc) l acc = acc ++ l.
Proof.
  intros Hk. induction l as [|e r IH]; intros acc Ht Hs; cbn [fold_left].
  - now rewrite app_nil_r.
  - rewrite (insert_at_end m e acc) by (apply (sorted_app_lt kt m acc e r Hk Ht Hs)).
    assert (E : (acc ++ [e]) ++ r = acc ++ e :: r) by (now rewrite <- app_assoc).
    rewrite IH; rewrite E; auto.
Qed.

Theorem collect_sorted kt is_map l : key_type kt = true -> keys_typed kt is_map l ->
  strictly_sorted is_map l = true -> collect_entries is_map l = l.
Proof.
  intros Hk Ht Hs. unfold collect_entries.
  now rewrite (fold_insert_sorted_id kt is_map l Hk []).
Qed.

(** *** the last entry listed for a key is the one kept *)
Lemma fold_insert_keep m e l : forall acc, In e acc ->
  (forall e', In e' l -> val_cmp (entry_key m e') (entry_key m e) <> Eq) ->
  In e (fold_left (fun acc e => insert_entry m e acc) l acc).
Proof.
  induction l as [|x r IH]; intros acc Hin Hne; cbn [fold_left]; [exact Hin|].
  apply IH.
  - apply insert_in_keep; [exact Hin|]. apply Hne. now left.
  - intros e' He'. apply Hne. now right.
Qed.

Theorem collect_later_wins kt is_map l1 e l2 : key_type kt = true -> keys_typed kt is_map (l1 ++ e :: l2) ->
  (forall e', In e' l2 -> val_cmp (entry_key is_map e') (entry_key is_map e) <> Eq) ->
  In e (collect_entries is_map (l1 ++ e :: l2)).
Proof.
  intros _ _ Hne. unfold collect_entries. rewrite fold_left_app. cbn [fold_left].
  apply fold_insert_keep; [apply insert_in_self|exact Hne].
Qed.

(** *** re-collecting is a fixed point *)
Theorem collect_idem kt is_map l : key_type kt = true -> keys_typed kt is_map l ->
  collect_entries is_map (collect_entries is_map l) = collect_entries is_map l.
Proof.
  intros Hk Ht. apply (collect_sorted kt); [exact Hk| |].
  - now apply collect_keys_typed.
  - now apply (collect_is_sorted kt).
Qed.

(** Full characterisation of membership after an insertion into a sorted list. *)
Lemma insert_in_iff kt m e l x : key_type kt = true ->
  has_ty kt (entry_key m e) = true -> keys_typed kt m l -> strictly_sorted m l = true ->
  (In x (insert_entry m e l) <->
   x = e \/ (In x l /\ val_cmp (entry_key m e) (entry_key m x) <> Eq)).
Proof.
  intros Hk He Ht Hs. split.
  - intros Hin. destruct (insert_in _ _ _ _ Hin) as [G|G]; [now left|].
    destruct (val_cmp (entry_key m e) (entry_key m x)) eqn:E.
    + left.
      assert (Hxt : has_ty kt (entry_key m x) = true).
      { unfold keys_typed in Ht. rewrite Forall_forall in Ht. now apply Ht. }
      (* both [x] and [e] are in the sorted result with equal keys *)
      pose proof (insert_sorted kt m e l Hk He Ht Hs) as Hs'.
      pose proof (insert_keys_typed kt m e l He Ht) as Ht'.
      pose proof (insert_in_self m e l) as Hine.
      revert Hs' Ht' Hin Hine. generalize (insert_entry m e l) as l'.
      induction l' as [|y r IH]; intros Hs' Ht' Hin Hine; [destruct Hin|].
      inversion Ht' as [|? ? Hy Hr]; subst.
      destruct Hin as [Hin|Hin]; destruct Hine as [Hine|Hine].
      * congruence.
      * subst y. exfalso.
        destruct (in_split _ _ Hine) as [r1 [r2 ->]].
        assert (G1 : forall z, In z (x :: r1) -> val_cmp (entry_key m z) (entry_key m e) = Lt).
        { apply (sorted_app_lt kt m (x :: r1) e r2 Hk); [exact Ht'|exact Hs']. }
        specialize (G1 x (or_introl eq_refl)). apply val_cmp_lt_gt in G1. congruence.
      * subst y. exfalso.
        destruct (in_split _ _ Hin) as [r1 [r2 ->]].
        assert (G1 : forall z, In z (e :: r1) -> val_cmp (entry_key m z) (entry_key m x) = Lt).
        { apply (sorted_app_lt kt m (e :: r1) x r2 Hk); [exact Ht'|exact Hs']. }
        specialize (G1 e (or_introl eq_refl)). congruence.
      * apply ss_cons in Hs' as [_ Hs']. now apply IH.
    + right. split; [exact G|discriminate].
    + right. split; [exact G|discriminate].
  - intros [->|[Hin Hne]]; [apply insert_in_self|now apply insert_in_keep].
Qed.
