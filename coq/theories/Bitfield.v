(** * Bitfield: byte-level model of [Bitfield<T>] (ssz/src/bitfield.rs,
    ssz/src/bitfield/bitvector_dynamic.rs).

    A bitfield is [{ bytes : SmallVec<u8>; len : usize }].  Every function below mirrors the
    Rust function of the same name, loop for loop; the three flavours (Variable<N> = BitList,
    Fixed<N> = BitVector, Dynamic) share the generic part.  Definitions only. *)
From SSZ Require Export Base RustSem.

Record bf := { bf_bytes : bytes; bf_len : N }.

(** [bytes_for_bit_len]: [max(1, bit_len.div_ceil(8))] *)
Definition bytes_for_bit_len (bit_len : N) : N := N.max 1 ((bit_len + 7) / 8).

Definition zeros (n : N) : bytes := repeat 0 (N.to_nat n).

(** List access by a [usize] index without converting the index to [nat]. *)
Fixpoint nthN (l : bytes) (i : N) : option N :=
  match l with
  | [] => None
  | x :: r => if i =? 0 then Some x else nthN r (i - 1)
  end.
Fixpoint updN (l : bytes) (i : N) (x : N) : bytes :=
  match l with
  | [] => []
  | y :: r => if i =? 0 then x :: r else y :: updN r (i - 1) x
  end.

(* u8 helpers [not8], [shl8], [overflowing_shr8]: RustSem.v *)

(** ** Generic part ([impl<T: BitfieldBehaviour> Bitfield<T>]) *)

(** [set(i, value)]: [Err] leaves the bitfield unchanged. *)
Definition bf_set (b : bf) (i : N) (value : bool) : outcome bf :=
  if i <? bf_len b then
    match nthN (bf_bytes b) (i / 8) with
    | None => Err
    | Some byte =>
        let byte' := if value then N.lor byte (shl8 1 (i mod 8))
                     else N.land byte (not8 (shl8 1 (i mod 8))) in
        Ok {| bf_bytes := updN (bf_bytes b) (i / 8) byte'; bf_len := bf_len b |}
    end
  else Err.

Definition bf_get (b : bf) (i : N) : outcome bool :=
  if i <? bf_len b then
    match nthN (bf_bytes b) (i / 8) with
    | None => Err
    | Some byte => Ok (0 <? N.land byte (shl8 1 (i mod 8)))
    end
  else Err.


(** [from_raw_bytes(bytes, bit_len)] *)
Definition from_raw_bytes (bs : bytes) (bit_len : N) : outcome bf :=
  if bit_len =? 0 then
    match bs with
    | [b0] => if b0 =? 0 then Ok {| bf_bytes := bs; bf_len := 0 |} else Err
    | _ => Err
    end
  else if negb (len bs =? bytes_for_bit_len bit_len) then Err
  else
    let mask := overflowing_shr8 255 (8 - ((bit_len mod 4294967296) mod 8)) in
    match rev bs with
    | [] => Panic                                         (* expect("Guarded against empty bytes") *)
    | l :: _ =>
        if N.land l (not8 mask) =? 0 then Ok {| bf_bytes := bs; bf_len := bit_len |} else Err
    end.

(** [highest_set_bit]: last non-zero byte, [i * 8 + 7 - leading_zeros]. *)
Fixpoint hsb_go (bs : bytes) (i : N) (acc : option N) : option N :=
  match bs with
  | [] => acc
  | b :: r => hsb_go r (i + 1) (if 0 <? b then Some (i * 8 + N.log2 b) else acc)
  end.
Definition highest_set_bit (b : bf) : option N := hsb_go (bf_bytes b) 0 None.

Definition is_zero (b : bf) : bool := forallb (fun x => x =? 0) (bf_bytes b).

(* [count_ones8]: RustSem.v *)
Definition num_set_bits (b : bf) : N := sumN (map count_ones8 (bf_bytes b)).

(** [iter()]: [get(i)] for i = 0, 1, .. until the first [Err]. *)
Fixpoint iter_fuel (fuel : nat) (b : bf) (i : N) : list bool :=
  match fuel with
  | O => []
  | S f => match bf_get b i with Ok x => x :: iter_fuel f b (i + 1) | _ => [] end
  end.
Definition bf_iter (b : bf) : list bool := iter_fuel (N.to_nat (bf_len b)) b 0.

(** [difference_inplace]: [self.bytes[i] &= !other.bytes[i]] for i < min byte length. *)
Fixpoint diff_bytes (a o : bytes) : bytes :=
  match a, o with
  | x :: ar, y :: or => N.land x (not8 y) :: diff_bytes ar or
  | _, _ => a
  end.
Definition difference_inplace (a o : bf) : bf :=
  {| bf_bytes := diff_bytes (bf_bytes a) (bf_bytes o); bf_len := bf_len a |}.
Definition difference (a o : bf) : bf := difference_inplace a o.

(** Index ranges of the [shift_up] loops. *)
Definition range_down (lo hi : N) : list N :=        (* (lo..hi).rev() *)
  map (fun k => lo + N.of_nat k) (rev (seq 0 (N.to_nat (hi - lo)))).
(* [range_up]: RustSem.v *)

(** [shift_up(n)].  The first loop propagates errors with [?]; the second one unwraps. *)
Definition shift_up (b : bf) (n : N) : outcome bf :=
  if n <=? bf_len b then
    do b1 <- fold_left
               (fun acc i => do cur <- acc; do x <- bf_get cur (i - n); bf_set cur i x)
               (range_down n (bf_len b)) (Ok b);
    fold_left
      (fun acc i => do cur <- acc;
                    match bf_set cur i false with Ok c => Ok c | _ => Panic end)
      (range_up 0 n) (Ok b1)
  else Err.

(** [PartialEq]: [len == len && bytes == bytes]. *)
(* [bytes_eqb]: RustSem.v *)
Definition bf_eqb (a b : bf) : bool := (bf_len a =? bf_len b) && bytes_eqb (bf_bytes a) (bf_bytes b).

(** [Hash]: what is fed to the hasher: the byte slice (length-prefixed by std), then [len]. *)
Definition bf_hash_stream (b : bf) : list N := len (bf_bytes b) :: bf_bytes b ++ [bf_len b].

(** ** BitList ([Bitfield<Variable<N>>]) *)

Definition bl_with_capacity (cap num_bits : N) : outcome bf :=
  if num_bits <=? cap then Ok {| bf_bytes := zeros (bytes_for_bit_len num_bits); bf_len := num_bits |}
  else Err.

(** [bytes.resize(n, 0)] *)
Definition resize_bytes (bs : bytes) (n : N) : bytes :=
  if n <=? len bs then take n bs else bs ++ zeros (n - len bs).

(** [into_bytes]: the two [unreachable!/expect] sites are explicit. *)
Definition bl_into_bytes (b : bf) : outcome bytes :=
  let l := bf_len b in
  let bs := resize_bytes (bf_bytes b) (bytes_for_bit_len (l + 1)) in
  match from_raw_bytes bs (l + 1) with
  | Ok b1 => match bf_set b1 l true with Ok b2 => Ok (bf_bytes b2) | _ => Panic end
  | _ => Panic
  end.

(** [from_bytes] *)
Definition bl_from_bytes (cap : N) (bs : bytes) : outcome bf :=
  let bytes_len := len bs in
  do initial <- from_raw_bytes bs (bytes_len * 8);
  do l <- ok_or (highest_set_bit initial);
  if negb (l / 8 + 1 =? bytes_len) then Err
  else if l <=? cap then
    match bf_set initial l false with
    | Ok cleared => from_raw_bytes (take (bytes_for_bit_len l) (bf_bytes cleared)) l
    | _ => Panic                                         (* expect("Bit has been confirmed to exist") *)
    end
  else Err.

(** [for i in 0..result.bytes.len() { result.bytes[i] = self.bytes[i] & other.bytes[i] }]:
    plain indexing, so a short operand panics. *)
Fixpoint and_index (n : nat) (a o : bytes) : outcome bytes :=
  match n with
  | O => Ok []
  | S k =>
      match a, o with
      | x :: ar, y :: or => do r <- and_index k ar or; Ok (N.land x y :: r)
      | _, _ => Panic
      end
  end.
(** [get(i).copied().unwrap_or(0)] on both operands. *)
Fixpoint zip_get_or0 (f : N -> N -> N) (n : nat) (a o : bytes) : bytes :=
  match n with
  | O => []
  | S k => f (hd 0 a) (hd 0 o) :: zip_get_or0 f k (tl a) (tl o)
  end.

Definition bl_intersection (cap : N) (a o : bf) : outcome bf :=
  let min_len := N.min (bf_len a) (bf_len o) in
  match bl_with_capacity cap min_len with
  | Ok r => do bs <- and_index (length (bf_bytes r)) (bf_bytes a) (bf_bytes o);
            Ok {| bf_bytes := bs; bf_len := bf_len r |}
  | _ => Panic                                           (* expect("min len always less than N") *)
  end.

Definition bl_union (cap : N) (a o : bf) : outcome bf :=
  let max_len := N.max (bf_len a) (bf_len o) in
  match bl_with_capacity cap max_len with
  | Ok r => Ok {| bf_bytes := zip_get_or0 N.lor (length (bf_bytes r)) (bf_bytes a) (bf_bytes o);
                  bf_len := bf_len r |}
  | _ => Panic
  end.

Definition bf_is_subset (a o : bf) : bool := is_zero (difference a o).

(** [resize::<M>()] from capacity [n] to capacity [m]. *)
Fixpoint set_all (b : bf) (i : N) (bits : list bool) : outcome bf :=
  match bits with
  | [] => Ok b
  | x :: r => do b' <- bf_set b i x; set_all b' (i + 1) r
  end.
Definition bl_resize (n m : N) (b : bf) : outcome bf :=
  if m <? n then Err
  else do r <- bl_with_capacity m m; set_all r 0 (bf_iter b).

(** ** BitVector ([Bitfield<Fixed<N>>]) *)
Definition bv_new (n : N) : bf := {| bf_bytes := zeros (bytes_for_bit_len n); bf_len := n |}.
Definition bv_into_bytes (b : bf) : bytes := bf_bytes b.
Definition bv_from_bytes (n : N) (bs : bytes) : outcome bf := from_raw_bytes bs n.
Definition bv_intersection (n : N) (a o : bf) : outcome bf :=
  let r := bv_new n in
  do bs <- and_index (length (bf_bytes r)) (bf_bytes a) (bf_bytes o);
  Ok {| bf_bytes := bs; bf_len := bf_len r |}.
Definition bv_union (n : N) (a o : bf) : bf :=
  let r := bv_new n in
  {| bf_bytes := zip_get_or0 N.lor (length (bf_bytes r)) (bf_bytes a) (bf_bytes o); bf_len := bf_len r |}.

(** ** Dynamic ([Bitfield<Dynamic>]) *)
Definition bd_new (l : N) : outcome bf :=
  if l =? 0 then Err
  else if negb (l mod 8 =? 0) then Err
  else Ok {| bf_bytes := zeros (bytes_for_bit_len l); bf_len := l |}.
Definition bd_into_bytes (b : bf) : bytes := bf_bytes b.
Definition bd_from_bytes_with_len (bs : bytes) (l : N) : outcome bf :=
  if negb (l =? len bs * 8) then Err else from_raw_bytes bs l.
Definition bd_binop (f : N -> N -> N) (a o : bf) : outcome bf :=
  let max_len := N.max (bf_len a) (bf_len o) in
  do r <- bd_new max_len;
  Ok {| bf_bytes := zip_get_or0 f (length (bf_bytes r)) (bf_bytes a) (bf_bytes o); bf_len := bf_len r |}.
Definition bd_intersection := bd_binop N.land.
Definition bd_union := bd_binop N.lor.
(** [Decode for Bitfield<Dynamic>] *)
Definition bd_decode (bs : bytes) : outcome bf :=
  match bs with
  | [] => Err
  | _ => from_raw_bytes bs (len bs * 8)
  end.

(** ** Values as boolean sequences.
    A Rust bitfield value is presented to the model as the list of its bits ([iter()]); the
    model rebuilds the byte representation the way client code does: allocate, then [set]. *)
Definition bf_of_bits_from (zero : bf) (bits : list bool) : outcome bf := set_all zero 0 bits.
Definition bl_of_bits (cap : N) (bits : list bool) : outcome bf :=
  do z <- bl_with_capacity cap (N.of_nat (length bits)); bf_of_bits_from z bits.
Definition bv_of_bits (n : N) (bits : list bool) : outcome bf :=
  if N.of_nat (length bits) =? n then bf_of_bits_from (bv_new n) bits else Err.
Definition bd_of_bits (bits : list bool) : outcome bf :=
  do z <- bd_new (N.of_nat (length bits)); bf_of_bits_from z bits.

(** ** Arbitrary (feature "arbitrary"; ssz/src/bitfield.rs:692-712).
    [Unstructured] is its remaining data.  [fill_buffer(buf)] copies what is available and
    zero-fills the rest (never fails); [usize::arbitrary] reads 8 bytes little-endian the same
    way.  Both are third-party behaviour, assumed and tied by the C20 correspondence. *)
(* [fill_buffer] and [arbitrary_usize] are in RustSem.v (the translated generators name them as primitives). *)

(** After the [fix:] commit the buffer has [bytes_for_bit_len(N)] bytes (it had [N]). *)
Definition arb_bitvector (n : N) (data : bytes) : outcome bf :=
  let p := fill_buffer data (bytes_for_bit_len n) in
  bv_from_bytes n (fst p).
Definition arb_bitlist (n : N) (data : bytes) : outcome bf :=
  let r := arbitrary_usize data in
  let size := N.min (fst r) n in
  let p := fill_buffer (snd r) size in
  bl_from_bytes n (fst p).
