(** * Facts about the offset word codec, [sanitize_offset] and the union selector helpers. *)
From SSZ Require Import Base BaseFacts Offsets.
From Coq Require Import ZArith ZifyN ZifyNat ZifyBool.
Ltac Zify.zify_post_hook ::= Z.div_mod_to_equations.
Open Scope N_scope.

Lemma pow256_4 : 256 ^ N.of_nat 4 = 4294967296. Proof. reflexivity. Qed.

Lemma encode_length_length n : length (encode_length n) = 4%nat.
Proof. apply le_bytes_length. Qed.
Lemma encode_length_len n : len (encode_length n) = 4.
Proof. unfold len. rewrite encode_length_length. reflexivity. Qed.
Lemma wfb_encode_length n : wfb (encode_length n).
Proof. apply wfb_le_bytes. Qed.

Lemma decode_offset_encode_length x :
  x < 4294967296 -> decode_offset (encode_length x) = Ok x.
Proof.
  intros Hx. unfold decode_offset. rewrite encode_length_len. cbn [N.eqb Pos.eqb].
  unfold encode_length. rewrite N.mod_small by exact Hx.
  rewrite le_val_le_bytes; [reflexivity|]. rewrite pow256_4. exact Hx.
Qed.

Lemma get_range_0_4_exact (w : bytes) : length w = 4%nat -> get_range w 0 4 = Some w.
Proof.
  intros H. destruct w as [|a [|b [|c [|d [|e w]]]]]; try discriminate. reflexivity.
Qed.

Lemma read_offset_app (w rest : bytes) :
  length w = 4%nat -> read_offset (w ++ rest) = Ok (le_val w).
Proof.
  intros H. destruct w as [|a [|b [|c [|d [|e w]]]]]; try discriminate.
  unfold read_offset, get_range. cbn [app].
  replace ((0 <=? 4) && (4 <=? len (a :: b :: c :: d :: rest))) with true.
  2:{ symmetry. apply andb_true_intro. split; [reflexivity|]. unfold len. cbn [length]. lia. }
  reflexivity.
Qed.

Lemma read_offset_encode_length x rest :
  x < 4294967296 -> read_offset (encode_length x ++ rest) = Ok x.
Proof.
  intros Hx. rewrite read_offset_app by apply encode_length_length.
  unfold encode_length. rewrite N.mod_small by exact Hx.
  rewrite le_val_le_bytes; [reflexivity|]. rewrite pow256_4. exact Hx.
Qed.

Lemma read_offset_ok bs x :
  read_offset bs = Ok x ->
  4 <= len bs /\ x = le_val (firstn 4 bs).
Proof.
  unfold read_offset, get_range.
  destruct ((0 <=? 4) && (4 <=? len bs)) eqn:E; cbn [ok_or bind]; [|discriminate].
  unfold decode_offset. destruct (len _ =? 4) eqn:E2; [|discriminate].
  intros [= <-]. split; [lia|]. reflexivity.
Qed.

Lemma read_offset_short bs : len bs < 4 -> read_offset bs = Err.
Proof.
  intros H. unfold read_offset, get_range.
  replace ((0 <=? 4) && (4 <=? len bs)) with false; [reflexivity|].
  symmetry. apply andb_false_iff. right. lia.
Qed.

Lemma read_offset_long bs : 4 <= len bs -> read_offset bs = Ok (le_val (firstn 4 bs)).
Proof.
  intros H. rewrite <- (firstn_skipn 4 bs) at 1. apply read_offset_app.
  rewrite firstn_length. unfold len in H. lia.
Qed.

Lemma read_offset_not_panic bs : read_offset bs <> Panic.
Proof.
  destruct (N.lt_ge_cases (len bs) 4) as [H|H].
  - rewrite read_offset_short by exact H. discriminate.
  - rewrite read_offset_long by exact H. discriminate.
Qed.

Lemma read_offset_bound bs x : wfb bs -> read_offset bs = Ok x -> x < 4294967296.
Proof.
  intros Hw H. apply read_offset_ok in H as [Hl ->].
  pose proof (le_val_bound (firstn 4 bs) (wfb_firstn 4 bs Hw)) as B.
  rewrite firstn_length in B. unfold len in Hl.
  replace (Nat.min 4 (length bs)) with 4%nat in B by lia. rewrite pow256_4 in B. exact B.
Qed.

(** The word codec is an exact little-endian bijection on [0, 2^32). *)
Lemma encode_length_closed_form x :
  x < 4294967296 ->
  encode_length x = [x mod 256; (x / 256) mod 256; (x / 65536) mod 256; x / 16777216].
Proof.
  intros Hx. unfold encode_length. rewrite N.mod_small by exact Hx.
  cbn [le_bytes]. rewrite !N.div_div by lia.
  change (256 * 256) with 65536. change (65536 * 256) with 16777216.
  rewrite (N.mod_small (x / 16777216) 256); [reflexivity|].
  apply N.div_lt_upper_bound; lia.
Qed.

Lemma encode_length_le_val (w : bytes) :
  length w = 4%nat -> wfb w -> encode_length (le_val w) = w /\ le_val w < 4294967296.
Proof.
  intros Hl Hw. pose proof (le_val_bound w Hw) as B. rewrite Hl, pow256_4 in B.
  split; [|exact B]. unfold encode_length. rewrite N.mod_small by exact B.
  rewrite <- Hl. apply le_bytes_le_val. exact Hw.
Qed.

Lemma encode_length_inj a b :
  a < 4294967296 -> b < 4294967296 -> encode_length a = encode_length b -> a = b.
Proof.
  intros Ha Hb H.
  pose proof (decode_offset_encode_length a Ha) as Da.
  rewrite H, (decode_offset_encode_length b Hb) in Da. congruence.
Qed.

(** ** sanitize_offset *)
Lemma sanitize_offset_builder off prev nb r :
  sanitize_offset off prev nb None = Ok r <->
  r = off /\ off <= nb /\ (forall p, prev = Some p -> p <= off).
Proof.
  unfold sanitize_offset. cbn [is_some_and andb]. rewrite andb_false_r.
  destruct (nb <? off) eqn:E1.
  { split; [discriminate|]. intros (_ & H & _). lia. }
  destruct prev as [p|]; cbn [is_some_and].
  - destruct (off <? p) eqn:E2.
    + split; [discriminate|]. intros (_ & _ & H). specialize (H p eq_refl). lia.
    + split.
      * intros [= <-]. repeat split; try lia. intros q [= <-]. lia.
      * intros (-> & _). reflexivity.
  - split.
    + intros [= <-]. repeat split; try lia. intros q [=].
    + intros (-> & _). reflexivity.
Qed.

Lemma sanitize_offset_first first nb r :
  sanitize_offset first None nb (Some first) = Ok r <-> r = first /\ first <= nb.
Proof.
  unfold sanitize_offset. cbn [is_some_and is_none andb].
  rewrite N.ltb_irrefl, N.eqb_refl. cbn [negb].
  destruct (nb <? first) eqn:E1.
  - split; [discriminate|]. intros (_ & H). lia.
  - split.
    + intros [= <-]. split; [reflexivity|lia].
    + intros (-> & _). reflexivity.
Qed.

Lemma sanitize_offset_next next off nb first r :
  sanitize_offset next (Some off) nb (Some first) = Ok r <->
  r = next /\ first <= next /\ next <= nb /\ off <= next.
Proof.
  unfold sanitize_offset. cbn [is_some_and is_none andb].
  destruct (next <? first) eqn:E0.
  { split; [discriminate|]. intros (_ & H & _). lia. }
  destruct (nb <? next) eqn:E1.
  { split; [discriminate|]. intros (_ & _ & H & _). lia. }
  destruct (next <? off) eqn:E2.
  { split; [discriminate|]. intros (_ & _ & _ & H). lia. }
  split.
  - intros [= <-]. repeat split; lia.
  - intros (-> & _). reflexivity.
Qed.

Lemma sanitize_offset_not_panic off prev nb nf : sanitize_offset off prev nb nf <> Panic.
Proof.
  unfold sanitize_offset.
  repeat match goal with |- context [if ?c then _ else _] => destruct c end; discriminate.
Qed.

(** ** union selector *)
Lemma split_union_bytes_spec bs :
  split_union_bytes bs =
  match bs with
  | [] => Err
  | s :: body => if s <=? 127 then Ok (s, body) else Err
  end.
Proof.
  destruct bs as [|s body]; [reflexivity|].
  unfold split_union_bytes, union_selector_new, MAX_UNION_SELECTOR.
  destruct (s <=? 127); [|reflexivity]. cbn [bind].
  unfold get_from. replace (1 <=? len (s :: body)) with true.
  - reflexivity.
  - symmetry. rewrite len_cons. lia.
Qed.

Lemma split_union_bytes_not_panic bs : split_union_bytes bs <> Panic.
Proof.
  rewrite split_union_bytes_spec. destruct bs as [|s b]; [discriminate|].
  destruct (s <=? 127); discriminate.
Qed.
