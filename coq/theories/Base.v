(** * Base: bytes, outcomes, little-endian words, slicing with explicit panic conditions.

    Definitions only (this file is extracted and evaluated by the correspondence
    harness); lemmas live in [BaseFacts.v]. *)
From Coq Require Export List NArith Bool Lia.
Export ListNotations.
Open Scope N_scope.

Definition byte := N.
Definition bytes := list N.

(** Every "for all byte strings" theorem quantifies over lists whose elements are bytes. *)
Definition wfb (bs : bytes) : Prop := Forall (fun b => b < 256) bs.
Definition wfbb (bs : bytes) : bool := forallb (fun b => b <? 256) bs.

(** Result of running a piece of Rust code: a value, an [Err(..)] return (error variants are
    never distinguished, C04), or a panic / abort site reached. *)
Inductive outcome (A : Type) : Type :=
| Ok (a : A)
| Err
| Panic.
Arguments Ok {A} a.
Arguments Err {A}.
Arguments Panic {A}.

Definition bind {A B} (o : outcome A) (f : A -> outcome B) : outcome B :=
  match o with Ok a => f a | Err => Err | Panic => Panic end.
Definition omap {A B} (f : A -> B) (o : outcome A) : outcome B :=
  match o with Ok a => Ok (f a) | Err => Err | Panic => Panic end.
Notation "'do' x <- o ; k" := (bind o (fun x => k))
  (at level 200, x pattern, o at level 100, k at level 200, right associativity).

Definition is_ok {A} (o : outcome A) : bool := match o with Ok _ => true | _ => false end.
Definition is_panic {A} (o : outcome A) : bool := match o with Panic => true | _ => false end.

(** Sequential [?]-style traversal: stop at the first non-[Ok]. *)
Fixpoint mapM {A B} (f : A -> outcome B) (l : list A) : outcome (list B) :=
  match l with
  | [] => Ok []
  | x :: r => do y <- f x; do ys <- mapM f r; Ok (y :: ys)
  end.

Definition len (bs : bytes) : N := N.of_nat (length bs).

(** ** Little-endian fixed-width words ([to_le_bytes] / [from_le_bytes]) *)
Fixpoint le_bytes (k : nat) (n : N) : bytes :=
  match k with
  | O => []
  | S k' => (n mod 256) :: le_bytes k' (n / 256)
  end.

Fixpoint le_val (bs : bytes) : N :=
  match bs with
  | [] => 0
  | b :: r => b + 256 * le_val r
  end.

(** ** Slicing.  [a] and [b] are [usize] values that may be far larger than the input, so they
    are [N]; conversion to [nat] happens only after the bounds check. *)
Definition take (n : N) (bs : bytes) : bytes := firstn (N.to_nat n) bs.
Definition drop (n : N) (bs : bytes) : bytes := skipn (N.to_nat n) bs.

(** [bytes.get(a..b)]: [None] unless [a <= b <= len]. *)
Definition get_range (bs : bytes) (a b : N) : option bytes :=
  if (a <=? b) && (b <=? len bs) then Some (take (b - a) (drop a bs)) else None.
(** [bytes.get(a..)] *)
Definition get_from (bs : bytes) (a : N) : option bytes :=
  if a <=? len bs then Some (drop a bs) else None.
(** [&bytes[a..b]]: panics unless [a <= b <= len]. *)
Definition index_range (bs : bytes) (a b : N) : outcome bytes :=
  match get_range bs a b with Some s => Ok s | None => Panic end.
(** [&bytes[a..]] *)
Definition index_from (bs : bytes) (a : N) : outcome bytes :=
  match get_from bs a with Some s => Ok s | None => Panic end.

Definition ok_or {A} (o : option A) : outcome A :=
  match o with Some a => Ok a | None => Err end.

(** [slice::chunks(n)] for [n > 0] (the caller models the [n = 0] panic).  Fuel = input length;
    exhaustion is unreachable ([BaseFacts.chunks_fuel]). *)
Fixpoint chunks_fuel (fuel : nat) (n : nat) (bs : bytes) : list bytes :=
  match fuel with
  | O => []
  | S f =>
      match bs with
      | [] => []
      | _ => firstn n bs :: chunks_fuel f n (skipn n bs)
      end
  end.
Definition chunks (n : nat) (bs : bytes) : list bytes := chunks_fuel (length bs) n bs.

(** [usize] arithmetic: the harness and the proofs assume a 64-bit target. *)
Definition usize_max : N := 18446744073709551615.
(** [a + b] on [usize] with overflow checks on (debug / the harness profile): panic on overflow. *)
Definition usize_add (a b : N) : outcome N :=
  if a + b <=? usize_max then Ok (a + b) else Panic.
(** [a.checked_add(b)] *)
Definition checked_add (a b : N) : option N :=
  if a + b <=? usize_max then Some (a + b) else None.

Fixpoint sumN (l : list N) : N := match l with [] => 0 | x :: r => x + sumN r end.

Definition nth_or {A} (l : list A) (i : nat) (d : A) : A := nth i l d.
