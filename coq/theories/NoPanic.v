(** * Decoding untrusted bytes never reaches a panic site of the model (C05). *)
From SSZ Require Import Base BaseFacts Offsets OffsetsFacts Encoder EncoderFacts Builder BuilderFacts
     Layout LayoutFacts Bitfield Types Codec Spec CodecUnfold MetaFacts AppendFacts LeafIface SizeFacts
     ListDecFacts SpecFacts WfbFacts RoundTrip Canon.
From Coq Require Import ZArith ZifyN ZifyNat ZifyBool.
Ltac Zify.zify_post_hook ::= Z.div_mod_to_equations.
Open Scope N_scope.

(** [phys bs]: [bs] is a byte string that can exist on a 64-bit machine. *)
Definition nopanic_ok (t : ty) : Prop := forall bs, phys bs -> dec t bs <> Panic.

Lemma omap_no_panic {A B} (f : A -> B) (o : outcome A) : o <> Panic -> omap f o <> Panic.
Proof. destruct o; cbn; congruence. Qed.

Lemma builder_items_phys regs bs items :
  phys bs -> builder_build regs bs = Ok items -> Forall phys items.
Proof.
  intros Hp Hb. apply (builder_build_tiles _ _ _ (proj1 Hp) (proj2 Hp)) in Hb as HT.
  destruct HT as (Hsl & Hfix & Hfit & Hbs). cbv zeta in Hbs.
  pose proof (sc_asm phys _ _ phys_slice_closed ltac:(rewrite <- Hbs; exact Hp)) as Hq.
  rewrite Forall_forall in *. intros s Hs.
  assert (In s (map snd (combine (map fst regs) items))) as Hin.
  { rewrite map_snd_combine'; [exact Hs|]. rewrite map_length. lia. }
  apply in_map_iff in Hin as (p & <- & Hpin). now apply Hq.
Qed.

Lemma decode_all_no_panic_rel {A} (Q : bytes -> Prop) (fs : list (bytes -> outcome A)) : forall items,
  Forall Q items -> (length fs <= length items)%nat ->
  (forall f s, In f fs -> Q s -> f s <> Panic) -> decode_all items fs <> Panic.
Proof.
  induction fs as [|f fs IH]; intros items HQ Hl H; cbn [decode_all]; [discriminate|].
  destruct items as [|s items]; [cbn [length] in Hl; lia|].
  inversion HQ as [|? ? Hs HQ']; subst. cbn [decode_next].
  pose proof (H f s (or_introl eq_refl) Hs) as Hf.
  destruct (f s) as [a| |]; cbn [bind fst snd]; try congruence.
  specialize (IH items HQ' ltac:(cbn [length] in Hl; lia) (fun g x Hg => H g x (or_intror Hg))).
  destruct (decode_all items fs); cbn [bind]; congruence.
Qed.

Lemma split_dec_no_panic (ds : list (N * (bytes -> outcome val))) : forall rest,
  sumN (map fst ds) <= len rest -> phys rest ->
  (forall d s, In d ds -> phys s -> snd d s <> Panic) -> split_dec ds rest <> Panic.
Proof.
  induction ds as [|[l d] ds IH]; intros rest Hs Hp H; cbn [split_dec]; [discriminate|].
  cbn [map sumN fst] in Hs. unfold split_at.
  assert (Hle : (l <=? len rest) = true) by (apply N.leb_le; lia). rewrite Hle.
  cbn [bind fst snd].
  pose proof (H (l, d) (take l rest) (or_introl eq_refl) (phys_take l rest Hp)) as Hd. cbn [snd] in Hd.
  destruct (d (take l rest)); cbn [bind]; try congruence.
  apply N.leb_le in Hle.
  assert (Hrest : sumN (map fst ds) <= len (drop l rest)) by (rewrite len_drop; lia).
  specialize (IH (drop l rest) Hrest (phys_drop l rest Hp) (fun e s He => H e s (or_intror He))).
  destruct (split_dec ds (drop l rest)); cbn [bind]; congruence.
Qed.

Lemma nopanic_container d fs : Forall nopanic_ok fs -> nopanic_ok (TContainer d fs).
Proof.
  intros HF bs Hp. rewrite dec_container.
  destruct (d && forallb d_is_fixed fs).
  - destruct (negb (len bs =? sumN (map d_fixed_len fs))) eqn:El; [discriminate|].
    apply negb_false_iff, N.eqb_eq in El. apply omap_no_panic.
    apply split_dec_no_panic; [|exact Hp|].
    + rewrite map_map. cbn [fst]. rewrite El. apply N.eq_le_incl. reflexivity.
    + intros e s He Hs. apply in_map_iff in He as (f & <- & Hf). cbn [snd].
      rewrite Forall_forall in HF. now apply HF.
  - destruct (builder_build (regs_of fs) bs) as [items| |] eqn:Eb; cbn [bind]; try discriminate.
    + apply omap_no_panic.
      apply (decode_all_no_panic_rel phys).
      * eapply builder_items_phys; eauto.
      * apply builder_build_length in Eb. unfold regs_of in Eb. rewrite map_length in *. lia.
      * intros f s Hf Hs. apply in_map_iff in Hf as (g & <- & Hg).
        rewrite Forall_forall in HF. now apply HF.
    + exfalso. exact (builder_build_no_panic _ _ (proj2 Hp) Eb).
Qed.

Lemma first_ok_no_panic ds bs : forall idx,
  (forall d, In d ds -> d bs <> Panic) -> first_ok ds bs idx <> Panic.
Proof.
  induction ds as [|d ds IH]; intros idx H; cbn [first_ok]; [discriminate|].
  pose proof (H d (or_introl eq_refl)) as Hd. destruct (d bs); try congruence.
  apply IH. intros e He. apply H. now right.
Qed.

Theorem nopanic_facts (L : LeafFacts) t : nopanic_ok t.
Proof.
  induction t using ty_ind'; intros bs Hp; pose proof (proj1 Hp) as Hw.
  - cbn [dec]. destruct (_ =? _); discriminate.
  - cbn [dec]. unfold dec_bool. destruct bs as [|b [|? ?]]; try discriminate.
    destruct (b =? 0); [discriminate|]. destruct (b =? 1); discriminate.
  - cbn [dec]. destruct (_ =? _); [|discriminate]. destruct (_ =? _); discriminate.
  - cbn [dec]. destruct (_ =? _); discriminate.
  - discriminate.
  - (* TList *) cbn [dec]. apply omap_no_panic.
    apply (dec_seq_no_panic_rel phys); [apply phys_slice_closed|exact Hp|exact IHt].
  - cbn [dec]. apply omap_no_panic.
    apply (dec_seq_no_panic_rel phys); [apply phys_slice_closed|exact Hp|exact IHt].
  - (* TMap *) rewrite dec_map_eq. apply omap_no_panic.
    apply (dec_seq_no_panic_rel phys); [apply phys_slice_closed|exact Hp|].
    apply nopanic_container. constructor; [exact IHt1|constructor; [exact IHt2|constructor]].
  - (* TOption *) cbn [dec]. rewrite split_union_bytes_spec. destruct bs as [|s body]; [discriminate|].
    destruct (s <=? 127); [|discriminate]. cbn [bind]. destruct (phys_cons _ _ Hp) as [_ Hpb].
    destruct (s =? 0); [destruct body; discriminate|]. destruct (s =? 1); [|discriminate].
    apply omap_no_panic. now apply IHt.
  - now apply nopanic_container.
  - (* TUnion *) rewrite dec_union, split_union_bytes_spec. destruct bs as [|s body]; [discriminate|].
    destruct (s <=? 127); [|discriminate]. cbn [bind fst snd]. destruct (phys_cons _ _ Hp) as [_ Hpb].
    destruct (nth_error vs (N.to_nat s)) as [t|] eqn:E; [|discriminate].
    apply omap_no_panic. rewrite Forall_forall in H. apply (H t (nth_error_In _ _ E)). exact Hpb.
  - cbn [dec]. destruct bs as [|b [|? ?]]; try discriminate. destruct (_ <? _); discriminate.
  - (* TTransEnum *) rewrite dec_trans. apply first_ok_no_panic. intros d Hd.
    apply in_map_iff in Hd as (t & <- & Ht). rewrite Forall_forall in H. now apply H.
  - exact (IHt bs Hp).
  - cbn [dec]. apply omap_no_panic. apply (lf_bv_no_panic L).
  - cbn [dec]. apply omap_no_panic. now apply (lf_bl_no_panic L).
  - cbn [dec]. apply omap_no_panic. apply (lf_bd_no_panic L).
  - (* TLegacyOpt *) cbn [dec]. unfold BYTES_PER_LENGTH_OFFSET.
    destruct (len bs <? 4) eqn:El; [discriminate|]. unfold split_at.
    replace (4 <=? len bs) with true by lia. cbn [bind fst snd].
    pose proof (read_offset_not_panic (take 4 bs)) as Hr.
    destruct (read_offset (take 4 bs)) as [index| |]; cbn [bind]; try congruence.
    destruct (index =? 0); [destruct (drop 4 bs); discriminate|].
    destruct (index =? 1); [|discriminate]. apply omap_no_panic. apply IHt. now apply phys_drop.
Qed.
