(** * SplitSpec: "fixed parts, offset words and variable parts tile the input", written the way
    the property text reads and independent of the builder state machine (C09/C10).

    From the registration sequence [regs] ([(is_fixed, ssz_fixed_len)] per item) alone compute
    where every item sits in the fixed portion; read ALL offset words; check the conditions of
    the property text; then cut.  Definitions only (this file is extracted and evaluated by the
    correspondence harness); the equivalence with [Layout.Tiles] and with the builder model is
    in [SplitFacts.v]. *)
From SSZ Require Export Layout.

(** Width of an item in the fixed portion: its registered length if it is fixed-size, one
    4-byte offset word if it is variable-size. *)
Definition reg_width (r : bool * N) : N :=
  if fst r then snd r else BYTES_PER_LENGTH_OFFSET.

(** [(is_fixed, start, width)] of every registered item in the fixed portion, the first item
    starting at [cursor]. *)
Fixpoint positions (regs : list (bool * N)) (cursor : N) : list (bool * N * N) :=
  match regs with
  | [] => []
  | r :: rest => (fst r, cursor, reg_width r) :: positions rest (cursor + reg_width r)
  end.

(** Size of the fixed portion. *)
Definition fixed_end (regs : list (bool * N)) : N := sumN (map reg_width regs).

Definition pos_is_fixed (p : bool * N * N) : bool := fst (fst p).
Definition pos_start (p : bool * N * N) : N := snd (fst p).
Definition pos_width (p : bool * N * N) : N := snd p.

(** The offset words, as numbers, in registration order. *)
Definition read_offsets (regs : list (bool * N)) (bs : bytes) : list N :=
  map (fun p => le_val (take 4 (drop (pos_start p) bs)))
      (filter (fun p => negb (pos_is_fixed p)) (positions regs 0)).

Fixpoint nondecreasing (l : list N) : bool :=
  match l with
  | [] => true
  | a :: r => match r with [] => true | b :: _ => (a <=? b) && nondecreasing r end
  end.

(** The conditions of the property text: the fixed portion fits; without variable items there
    are no excess bytes; with variable items the first offset is exactly the size of the fixed
    portion, offsets never decrease, and no offset points past the end of the input. *)
Definition layout_ok (regs : list (bool * N)) (bs : bytes) : bool :=
  (fixed_end regs <=? len bs) &&
  match read_offsets regs bs with
  | [] => fixed_end regs =? len bs
  | (o :: _) as offs =>    (* parentheses needed: [o :: _ as offs] would bind the tail *)
      (o =? fixed_end regs) && nondecreasing offs && forallb (fun x => x <=? len bs) offs
  end.

(** The bytes of the variable items: the i-th from its offset to the next offset, the last one
    to the end of the input. *)
Fixpoint var_slices (offs : list N) (bs : bytes) : list bytes :=
  match offs with
  | [] => []
  | o :: rest => take (hd (len bs) rest - o) (drop o bs) :: var_slices rest bs
  end.

(** Each item's own bytes, in registration order: fixed items in place, variable items from
    [vars] in order.  (The [[]] branch is never reached: there is one entry of [vars] per
    variable item.) *)
Fixpoint place (pos : list (bool * N * N)) (vars : list bytes) (bs : bytes) : list bytes :=
  match pos with
  | [] => []
  | p :: rest =>
      if pos_is_fixed p then take (pos_width p) (drop (pos_start p) bs) :: place rest vars bs
      else match vars with
           | v :: vs => v :: place rest vs bs
           | [] => [] :: place rest [] bs
           end
  end.

Definition split (regs : list (bool * N)) (bs : bytes) : option (list bytes) :=
  if layout_ok regs bs
  then Some (place (positions regs 0) (var_slices (read_offsets regs bs) bs) bs)
  else None.
