(** * Types: the SSZ type algebra of the crate, untyped values, typing, size metadata.

    [ty] is an inductive type: every term is a finite type expression (self-referential Rust
    definitions are outside it, see DESIGN.md section 9).  Definitions only. *)
From SSZ Require Export Bitfield Offsets.

Inductive ty : Type :=
| TUint (k : nat)                 (* u8..u128, usize (8), alloy U128/U256: k bytes, little-endian *)
| TBool
| TNonZero                        (* NonZeroUsize *)
| TBytesN (n : nat)               (* [u8; N], FixedBytes<N>, Address, Bloom *)
| TByteList                       (* alloy Bytes *)
| TList (t : ty)                  (* Vec<T>, SmallVec<[T; N]> *)
| TSet (t : ty)                   (* BTreeSet<T> *)
| TMap (k v : ty)                 (* BTreeMap<K, V> *)
| TOption (t : ty)                (* Option<T> = Union[None, T] *)
| TContainer (derived : bool) (fs : list ty)
                                  (* tuples (derived = false: always the builder path) and
                                     #[derive] containers (derived = true: all-fixed containers
                                     take the split_at path); fields are the live fields *)
| TUnion (vs : list ty)           (* #[ssz(enum_behaviour = "union")] *)
| TTag (n : nat)                  (* #[ssz(enum_behaviour = "tag")] with n variants *)
| TTransEnum (vs : list ty)       (* #[ssz(enum_behaviour = "transparent")] *)
| TWrap (t : ty)                  (* Arc<T>, &T, #[ssz(struct_behaviour = "transparent")] *)
| TBitVector (n : N)
| TBitList (n : N)
| TBitDyn
| TLegacyOpt (t : ty).            (* four_byte_option_impl! module, standalone or #[ssz(with)] *)

Inductive val : Type :=
| VUint (n : N)
| VBool (b : bool)
| VBytes (bs : bytes)
| VList (vs : list val)           (* lists; sets (strictly ascending); maps (entries VCont [k; v]) *)
| VNone
| VSome (v : val)
| VCont (vs : list val)
| VUnion (i : nat) (v : val)      (* unions and transparent enums: variant index, payload *)
| VTag (i : nat)
| VBits (bits : list bool).

(** ** Size metadata: the Encode side and the Decode side are separate trait impls in the crate
    and separate functions here. *)
Fixpoint e_is_fixed (t : ty) : bool :=
  match t with
  | TUint _ | TBool | TNonZero | TBytesN _ | TTag _ | TBitVector _ => true
  | TByteList | TList _ | TSet _ | TMap _ _ | TOption _ | TUnion _ | TTransEnum _
  | TBitList _ | TBitDyn | TLegacyOpt _ => false
  | TContainer _ fs => (fix all fs := match fs with [] => true | f :: r => e_is_fixed f && all r end) fs
  | TWrap t => e_is_fixed t
  end.

Fixpoint d_is_fixed (t : ty) : bool :=
  match t with
  | TUint _ | TBool | TNonZero | TBytesN _ | TTag _ | TBitVector _ => true
  | TByteList | TList _ | TSet _ | TMap _ _ | TOption _ | TUnion _ | TTransEnum _
  | TBitList _ | TBitDyn | TLegacyOpt _ => false
  | TContainer _ fs => (fix all fs := match fs with [] => true | f :: r => d_is_fixed f && all r end) fs
  | TWrap t => d_is_fixed t
  end.

Fixpoint e_fixed_len (t : ty) : N :=
  match t with
  | TUint k => N.of_nat k
  | TBool => 1
  | TNonZero => 8
  | TBytesN n => N.of_nat n
  | TTag _ => 1
  | TBitVector n => bytes_for_bit_len n
  | TContainer _ fs =>
      if e_is_fixed t
      then (fix sum fs := match fs with [] => 0 | f :: r => e_fixed_len f + sum r end) fs
      else BYTES_PER_LENGTH_OFFSET
  | TWrap t => e_fixed_len t
  | _ => BYTES_PER_LENGTH_OFFSET
  end.

Fixpoint d_fixed_len (t : ty) : N :=
  match t with
  | TUint k => N.of_nat k
  | TBool => 1
  | TNonZero => 8
  | TBytesN n => N.of_nat n
  | TTag _ => 1
  | TBitVector n => bytes_for_bit_len n
  | TContainer _ fs =>
      if d_is_fixed t
      then (fix sum fs := match fs with [] => 0 | f :: r => d_fixed_len f + sum r end) fs
      else BYTES_PER_LENGTH_OFFSET
  | TWrap t => d_fixed_len t
  | _ => BYTES_PER_LENGTH_OFFSET
  end.

(** ** Ordering of values ([Ord] of the Rust key types: integers numerically, bool, arrays,
    vectors and tuples lexicographically, [None < Some]). *)
Fixpoint bytes_cmp (a b : bytes) : comparison :=
  match a, b with
  | [], [] => Eq
  | [], _ :: _ => Lt
  | _ :: _, [] => Gt
  | x :: ar, y :: br => match x ?= y with Eq => bytes_cmp ar br | c => c end
  end.

Fixpoint val_cmp (a b : val) : comparison :=
  let fix list_cmp (xs ys : list val) : comparison :=
    match xs, ys with
    | [], [] => Eq
    | [], _ :: _ => Lt
    | _ :: _, [] => Gt
    | x :: xr, y :: yr => match val_cmp x y with Eq => list_cmp xr yr | c => c end
    end in
  match a, b with
  | VUint x, VUint y => x ?= y
  | VBool x, VBool y => match x, y with false, true => Lt | true, false => Gt | _, _ => Eq end
  | VBytes x, VBytes y => bytes_cmp x y
  | VList xs, VList ys => list_cmp xs ys
  | VCont xs, VCont ys => list_cmp xs ys
  | VNone, VNone => Eq
  | VNone, VSome _ => Lt
  | VSome _, VNone => Gt
  | VSome x, VSome y => val_cmp x y
  | VTag x, VTag y => Nat.compare x y
  | _, _ => Eq                                (* not key types; never compared for typed keys *)
  end.

Definition val_ltb (a b : val) : bool := match val_cmp a b with Lt => true | _ => false end.

(** Key of an entry: the element itself for sets, the first component for maps. *)
Definition entry_key (is_map : bool) (e : val) : val :=
  if is_map then match e with VCont (k :: _) => k | _ => e end else e.

Fixpoint strictly_sorted (is_map : bool) (l : list val) : bool :=
  match l with
  | [] => true
  | x :: r =>
      match r with
      | [] => true
      | y :: _ => val_ltb (entry_key is_map x) (entry_key is_map y) && strictly_sorted is_map r
      end
  end.

(** [BTreeMap/BTreeSet::from_iter]: ascending keys, a later duplicate replaces an earlier one. *)
Fixpoint insert_entry (is_map : bool) (e : val) (l : list val) : list val :=
  match l with
  | [] => [e]
  | x :: r =>
      match val_cmp (entry_key is_map e) (entry_key is_map x) with
      | Lt => e :: l
      | Eq => e :: r
      | Gt => x :: insert_entry is_map e r
      end
  end.
Definition collect_entries (is_map : bool) (es : list val) : list val :=
  fold_left (fun acc e => insert_entry is_map e acc) es [].

(** ** Typing *)
Fixpoint has_ty (t : ty) (v : val) {struct t} : bool :=
  match t, v with
  | TUint k, VUint n => n <? 2 ^ (8 * N.of_nat k)
  | TBool, VBool _ => true
  | TNonZero, VUint n => (0 <? n) && (n <? 2 ^ 64)
  | TBytesN n, VBytes bs => wfbb bs && Nat.eqb (length bs) n
  | TByteList, VBytes bs => wfbb bs
  | TList t, VList vs => forallb (has_ty t) vs
  | TSet t, VList vs => forallb (has_ty t) vs && strictly_sorted false vs
  | TMap k v, VList es =>
      forallb (fun e => match e with
                        | VCont [a; b] => has_ty k a && has_ty v b
                        | _ => false
                        end) es
      && strictly_sorted true es
  | TOption t, VNone => true
  | TOption t, VSome v => has_ty t v
  | TContainer _ fs, VCont vs =>
      (fix go fs vs := match fs, vs with
                       | [], [] => true
                       | f :: fr, v :: vr => has_ty f v && go fr vr
                       | _, _ => false
                       end) fs vs
  | TUnion ts, VUnion i v =>
      (Nat.leb (length ts) 128) &&
      (fix pick ts i := match ts, i with
                        | [], _ => false
                        | t :: _, O => has_ty t v
                        | _ :: r, S j => pick r j
                        end) ts i
  | TTag n, VTag i => Nat.ltb i n && Nat.leb n 128
  | TTransEnum ts, VUnion i v =>
      (fix pick ts i := match ts, i with
                        | [], _ => false
                        | t :: _, O => has_ty t v
                        | _ :: r, S j => pick r j
                        end) ts i
  | TWrap t, v => has_ty t v
  | TBitVector n, VBits bits => N.of_nat (length bits) =? n
  | TBitList n, VBits bits => N.of_nat (length bits) <=? n
  | TBitDyn, VBits bits => (0 <? N.of_nat (length bits)) && (N.of_nat (length bits) mod 8 =? 0)
  | TLegacyOpt t, VNone => true
  | TLegacyOpt t, VSome v => has_ty t v
  | _, _ => false
  end.

(** ** Type classes used as hypotheses of the property theorems *)

(** [p] holds at every node of the type expression. *)
Fixpoint ty_all (p : ty -> bool) (t : ty) {struct t} : bool :=
  p t &&
  match t with
  | TList a | TSet a | TOption a | TWrap a | TLegacyOpt a => ty_all p a
  | TMap k v => ty_all p k && ty_all p v
  | TContainer _ fs | TUnion fs | TTransEnum fs =>
      (fix all fs := match fs with [] => true | f :: r => ty_all p f && all r end) fs
  | _ => true
  end.

Definition zero_len_fixed (t : ty) : bool := e_is_fixed t && (e_fixed_len t =? 0).

(** Types usable as ordered-collection keys: [val_cmp] is the Rust [Ord] on them (integers,
    bool, byte arrays, vectors, tuples, Option, tag enums deriving Ord). *)
Fixpoint key_type (t : ty) : bool :=
  match t with
  | TUint _ | TBool | TNonZero | TBytesN _ | TByteList | TTag _ => true
  | TList a | TOption a | TWrap a => key_type a
  | TContainer _ fs => (fix all fs := match fs with [] => true | f :: r => key_type f && all r end) fs
  | _ => false
  end.

(** Definitions the derive macro accepts: 1..128 union / tag variants. *)
Definition node_wf (t : ty) : bool :=
  match t with
  | TUnion ts => Nat.leb 1 (length ts) && Nat.leb (length ts) 128
  | TTag n => Nat.leb 1 n && Nat.leb n 128
  | TSet a => key_type a
  | TMap k _ => key_type k
  | _ => true
  end.

Definition node_rt (t : ty) : bool :=
  node_wf t &&
  match t with
  | TTransEnum _ => false
  | TList a | TSet a => negb (zero_len_fixed a)
  | TMap k v => negb (zero_len_fixed (TContainer false [k; v]))
  | _ => true
  end.
Definition node_canon (t : ty) : bool :=
  node_wf t &&
  match t with
  | TTransEnum _ | TSet _ | TMap _ _ => false
  | _ => true
  end.

(** C01: everything except transparent enums and lists of zero-length items. *)
Definition rt_type (t : ty) : bool := ty_all node_rt t.
(** C02/C04: everything except ordered maps/sets and transparent enums. *)
Definition canon_type (t : ty) : bool := ty_all node_canon t.
(** Well-formed type expressions (what the Rust compiler and the derive macro accept). *)
Definition wf_type (t : ty) : bool := ty_all node_wf t.
