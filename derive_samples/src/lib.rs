use ssz_derive::{Decode, Encode};

#[derive(Encode, Decode)]
pub struct FixedPair {
    pub a: u16,
    pub b: u8,
}

#[derive(Encode, Decode)]
pub struct Mixed {
    pub a: u16,
    pub b: Vec<u8>,
    pub c: u32,
    pub d: Vec<u16>,
}

#[derive(Encode, Decode)]
#[ssz(enum_behaviour = "union")]
pub enum U2 {
    A(u8),
    B(Vec<u8>),
}

#[derive(Encode, Decode)]
#[ssz(enum_behaviour = "tag")]
pub enum Tag3 {
    A,
    B,
    C,
}

#[derive(Encode, Decode)]
#[ssz(struct_behaviour = "transparent")]
pub struct Wrap(pub Vec<u8>);

#[derive(Encode, Decode)]
pub struct Skip {
    pub a: u16,
    #[ssz(skip_serializing, skip_deserializing)]
    pub b: u8,
    pub c: Vec<u8>,
}

#[derive(Encode, Decode)]
pub struct Fixed3 {
    pub a: bool,
    pub b: [u8; 4],
    pub c: u64,
}

#[derive(Encode, Decode)]
#[ssz(enum_behaviour = "transparent")]
pub enum TE {
    A(Vec<u8>),
    B(Vec<u16>),
}

#[derive(Encode, Decode)]
pub struct Outer {
    pub x: FixedPair,
    pub y: Mixed,
    pub z: U2,
}

#[derive(Encode, Decode)]
#[ssz(struct_behaviour = "transparent")]
pub struct WrapSkip {
    #[ssz(skip_serializing, skip_deserializing)]
    pub tag: u8,
    pub inner: u32,
}

ssz::four_byte_option_impl!(legacy_u64, u64);
ssz::four_byte_option_impl!(legacy_vec, Vec<u8>);

#[derive(Encode, Decode)]
pub struct WithLegacy {
    pub a: u16,
    #[ssz(with = "legacy_u64")]
    pub b: Option<u64>,
    #[ssz(with = "legacy_vec")]
    pub c: Option<Vec<u8>>,
}

#[derive(Encode, Decode)]
pub struct Gen1<T: ssz::Encode + ssz::Decode> {
    pub a: T,
    pub b: u8,
}

#[derive(Encode, Decode)]
pub struct BitsV {
    pub a: ssz::BitVector<typenum::U9>,
    pub c: u8,
}

#[derive(Encode, Decode)]
pub struct BitsL {
    pub a: ssz::BitVector<typenum::U9>,
    pub b: ssz::BitList<typenum::U16>,
    pub c: u8,
}

/// a union whose first payload type re-appears after a different one (selectors follow declaration order, not payload types)
#[derive(Encode, Decode)]
#[ssz(enum_behaviour = "union")]
pub enum U3 {
    A(u8),
    B(u16),
    C(u8),
}
