(* Bitfield histories, byte-level API, resize, serde and arbitrary observations
   (C11-C14, C18, C20): the extracted machines of BitfieldOps.v / Hex.v against the crate. *)
open Util

let flavour_of (s : string) : M.flavour =
  match String.split_on_char ':' s with
  | ["list"; n] -> M.FList (n_of_dec n)
  | ["vec"; n] -> M.FVec (n_of_dec n)
  | ["dyn"] -> M.FDyn
  | _ -> failwith ("bad flavour " ^ s)

let nat_of_string s = nat_of_int (int_of_string s)

let op_of (s : string) : M.bop =
  match String.split_on_char ' ' s with
  | ["new"; r; n] -> M.ONew (nat_of_string r, n_of_dec n)
  | ["set"; r; i; v] -> M.OSet (nat_of_string r, n_of_dec i, v = "1")
  | ["shift"; r; n] -> M.OShiftUp (nat_of_string r, n_of_dec n)
  | ["diffi"; r; s] -> M.ODiffInplace (nat_of_string r, nat_of_string s)
  | ["clone"; r; s] -> M.OClone (nat_of_string r, nat_of_string s)
  | ["dec"; r; h] -> M.ODecode (nat_of_string r, bytes_of_hex h)
  | ["union"; r; a; b] -> M.OUnion (nat_of_string r, nat_of_string a, nat_of_string b)
  | ["inter"; r; a; b] -> M.OInter (nat_of_string r, nat_of_string a, nat_of_string b)
  | ["diff"; r; a; b] -> M.ODiff (nat_of_string r, nat_of_string a, nat_of_string b)
  | ["subset"; r; a; b] -> M.OSubset (nat_of_string r, nat_of_string a, nat_of_string b)
  | _ -> failwith ("bad op " ^ s)

let dec_of_n (x : M.n) : string =
  (* decimal rendering of possibly large numbers: lengths fit in OCaml ints in practice *)
  string_of_int (int_of_n x)

let bits_s bs = if bs = [] then "(bits)" else "(bits " ^ string_of_bits bs ^ ")"

let obs_string (o : M.obs) : string =
  let sub = match o.M.o_sub with None -> "-" | Some b -> if b then "1" else "0" in
  if not o.M.o_present then
    Printf.sprintf "%s|0|0|(bits)|0|-|0|-|-|-|-|%s" (dec_of_n o.M.o_status) sub
  else
    Printf.sprintf "%s|1|%s|%s|%s|%s|%s|%s|%s|%s|%s|%s"
      (dec_of_n o.M.o_status) (dec_of_n o.M.o_len) (bits_s o.M.o_bits) (dec_of_n o.M.o_nsb)
      (match o.M.o_hsb with None -> "-" | Some h -> dec_of_n h)
      (if o.M.o_zero then "1" else "0")
      (hex_of_bytes o.M.o_slice) (hex_of_bytes o.M.o_ssz)
      (String.concat "" (List.map (fun b -> if b then "1" else "0") o.M.o_eq))
      (String.concat "," (List.map dec_of_n o.M.o_hash))
      sub

let str_of_string (s : string) : M.n list = List.init (String.length s) (fun i -> n_of_int (Char.code s.[i]))
let string_of_str (l : M.n list) : string = String.concat "" (List.map (fun c -> String.make 1 (Char.chr (int_of_n c land 255))) l)

let first_diff (a : string list) (b : string list) : string =
  let rec go i a b = match a, b with
    | x :: ar, y :: br -> if x = y then go (i + 1) ar br else Printf.sprintf "step %d: %s  vs  %s" i x y
    | [], [] -> "none" | _ -> Printf.sprintf "length differs at step %d" i in
  go 0 a b

let bits_of_sexp_string (s : string) : bool list =
  match parse_sexp s with
  | L [A "bits"] -> []
  | L [A "bits"; A b] -> bits_of_string b
  | _ -> failwith "bad bits"

let field_of (e : sexp) : M.field =
  match e with
  | L [A "f"; t; A ss; A sd; w; A na] ->
    { M.f_ty = ty_of_sexp t; M.f_skip_ser = (ss = "1"); M.f_skip_de = (sd = "1");
      M.f_with = (match w with A "0" -> None | w -> Some (ty_of_sexp w));
      M.f_nattrs = nat_of_int (int_of_string na) }
  | _ -> failwith "bad field"
let defn_of (s : string) : M.defn =
  match parse_sexp s with
  | L (A "struct" :: A ea :: A b :: A named :: fs) ->
    let b = match b with "container" -> M.SContainer | "transparent" -> M.STransparent | _ -> M.SOther in
    M.DStruct (ea = "1", b, named = "1", List.map field_of fs)
  | L (A "enum" :: A sa :: A b :: vs) ->
    let b = match b with "union" -> M.EUnion | "transparent" -> M.ETransparent | "tag" -> M.ETag
                         | "absent" -> M.EAbsent | _ -> M.EOther in
    M.DEnum (sa = "1", b, List.map (fun v -> match v with L (A "v" :: ts) -> List.map ty_of_sexp ts | _ -> failwith "bad variant") vs)
  | _ -> failwith "bad defn"

let eval (fields : string list) (fail : string -> string -> unit) (bump : string -> unit) (op : string) : unit =
  match fields with
  | ["bfhist"; fl; ops; obs] ->
    let flv = flavour_of fl in
    let ops = List.map op_of (String.split_on_char ';' ops) in
    let crate = String.split_on_char ';' obs in
    let impl = List.map obs_string (M.run_impl flv ops) in
    let abs = List.map obs_string (M.run_abs flv ops) in
    bump ("bf.hist." ^ (List.hd (String.split_on_char ':' fl)));
    List.iter (fun o -> bump ("bf.status." ^ String.sub o 0 1)) crate;
    if impl <> crate then fail "corr.bf" ("impl model differs: " ^ first_diff impl crate);
    if abs <> crate then begin
      fail "oracle.C11" ("boolean-sequence machine differs: " ^ first_diff abs crate);
      (* set-operation steps *)
      let has_setop = List.exists (fun o -> match o with M.OUnion _ | M.OInter _ | M.ODiff _ | M.OSubset _ -> true | _ -> false) ops in
      if has_setop then fail "oracle.C12" ("boolean-sequence machine differs: " ^ first_diff abs crate)
    end;
    (* C13: length rule on everything observed *)
    List.iter (fun o ->
        match String.split_on_char '|' o with
        | _ :: "1" :: len :: _ ->
          let l = int_of_string len in
          let ok = match flv with
            | M.FList cap -> l <= int_of_n cap
            | M.FVec n -> l = int_of_n n
            | M.FDyn -> l > 0 && l mod 8 = 0 in
          if not ok then fail "oracle.C13" ("length " ^ len ^ " violates the bound of " ^ fl);
          (* what is held is what is reported: the byte view has exactly the bytes of `len` bits, so no
             bits exist beyond the bound (fields: status|present|len|bits|nsb|hsb|zero|slice|..) *)
          (match String.split_on_char '|' o with
           | _ :: _ :: _ :: _ :: _ :: _ :: _ :: slice :: _ when slice <> "-" ->
             let nbytes = String.length slice / 2 in
             if nbytes <> max 1 ((l + 7) / 8) then
               fail "oracle.C13" ("the value reports " ^ len ^ " bits but holds " ^ string_of_int nbytes ^ " bytes")
           | _ -> ())
        | _ -> ()) crate;
    if List.exists (fun o -> String.length o > 0 && o.[0] = '2') crate then
      fail "oracle.C05" "a bitfield operation panicked"
  | ["bfenc"; fl; bits; ssz; blen; rt; app; asb; into; raw; empty; gets] ->
    (* a value reached through the mutation API, observed through the codec and the accessors *)
    let flv = flavour_of fl in
    let bits = bits_of_sexp_string bits in
    let t = match flv with M.FList n -> M.TBitList n | M.FVec n -> M.TBitVector n | M.FDyn -> M.TBitDyn in
    let v = M.VBits bits in
    bump "bf.enc";
    let anypanic = List.exists (fun x -> x = "panic") [ssz; blen; rt; app; asb; into] in
    if anypanic then begin
      fail "oracle.C05" "encoding a reachable bitfield value panicked";
      List.iter (fun o -> fail o "an encoding entry point panicked on a value reached through the bitfield API")
        ["oracle.C03"; "oracle.C01"; "oracle.C07"; "oracle.C10"; "oracle.C11"; "oracle.C14"]
    end else if not (M.has_ty t v) then
      fail "oracle.C13" "observed bits violate the length rule of the type"
    else begin
      let crate = bytes_of_hex ssz in
      let spec = M.spec_enc t v in
      if M.enc t v <> crate then fail "corr.enc" ("model=" ^ hex_of_bytes (M.enc t v));
      if spec <> crate then begin
        fail "oracle.C03" ("value reached through the bitfield API encodes to " ^ ssz ^ ", spec=" ^ hex_of_bytes spec);
        fail "oracle.C11" ("encoding differs from that of the boolean sequence: spec=" ^ hex_of_bytes spec)
      end;
      if int_of_string blen <> List.length crate then fail "oracle.C07" "ssz_bytes_len <> produced length (value reached through the bitfield API)";
      if M.bytes_len t v <> n_of_dec blen then fail "corr.bytes_len" ("model=" ^ hex_of_n (M.bytes_len t v));
      if rt <> "1" then fail "oracle.C01" "decode(encode(v)) <> v for a value reached through the bitfield API";
      if bytes_of_hex app <> (List.map n_of_int [0xAA; 0x55; 0xFF]) @ crate then
        fail "oracle.C10" "append onto a prefix <> prefix ++ as_ssz_bytes (value reached through the bitfield API)";
      if bytes_of_hex asb <> crate then fail "oracle.C10" "ssz_encode <> as_ssz_bytes";
      if bytes_of_hex into <> crate then fail "oracle.C14" "into_bytes <> as_ssz_bytes (value reached through the bitfield API)";
      (* raw byte view: minimal length, bit i of the view = bit i, nothing at or beyond the length *)
      let rawb = bytes_of_hex raw in
      let nbits = List.length bits in
      let want_raw = M.spec_pack bits (nat_of_int (max 1 ((nbits + 7) / 8))) in
      if rawb <> want_raw then fail "oracle.C11" ("raw byte view is not the minimal packing of the bits: expected " ^ hex_of_bytes want_raw);
      if (empty = "1") <> (nbits = 0) then fail "oracle.C11" "is_empty disagrees with the length";
      List.iter (fun g ->
          match String.split_on_char '=' g with
          | [i; r] ->
            let expect =
              (match int_of_string_opt i with
               | Some k when k >= 0 && k < nbits -> if List.nth bits k then "1" else "0"
               | _ -> "e") in
            if r = "p" then fail "oracle.C05" ("get(" ^ i ^ ") panicked");
            if r <> expect then fail "oracle.C11" (Printf.sprintf "get(%s) = %s, boolean sequence says %s" i r expect)
          | _ -> ()) (String.split_on_char ',' gets)
    end
  | ["bfbytes"; fl; hex; via_bytes; via_ssz] ->
    let flv = flavour_of fl in
    let bs = bytes_of_hex hex in
    bump ("bf.bytes." ^ (if String.length via_ssz >= 2 then String.sub via_ssz 0 2 else via_ssz));
    let expect (o : M.bf M.outcome) = match o with
      | M.Ok b -> Printf.sprintf "ok %s %s %s" (bits_s (M.bf_iter b)) (hex_of_bytes (M.i_ssz flv b)) (hex_of_bytes (M.i_ssz flv b))
      | M.Err -> "err" | M.Panic -> "panic" in
    let m = expect (M.i_decode flv bs) in
    if m <> via_ssz then fail "corr.bf.bytes" ("model=" ^ m);
    (* byte-level API = SSZ codec *)
    if via_bytes <> via_ssz then fail "oracle.C14" "from_bytes and from_ssz_bytes disagree";
    (* closed-form accept set and value *)
    let a = match M.a_decode flv bs with
      | M.Ok bits -> Printf.sprintf "ok %s %s %s" (bits_s bits) (hex_of_bytes (M.a_ssz flv bits)) (hex_of_bytes (M.a_ssz flv bits))
      | M.Err -> "err" | M.Panic -> "panic" in
    if a <> via_ssz then fail "oracle.C14" ("accept-set reference says " ^ a);
    if via_ssz = "panic" || via_bytes = "panic" then fail "oracle.C05" "bitfield byte constructor panicked";
    (match String.split_on_char ' ' via_ssz with
     | ["ok"; _; back; ssz] ->
       if bytes_of_hex back <> bs || bytes_of_hex ssz <> bs then fail "oracle.C14" "into_bytes / as_ssz_bytes of a decoded value is not the input";
       if bytes_of_hex back <> bs then fail "oracle.C02" "bitfield re-encoding differs"
     | _ -> ())
  | ["bfresize"; n; m; bits; res] ->
    let bits = bits_of_sexp_string bits in
    let a = match M.a_resize (n_of_dec n) (n_of_dec m) bits with
      | M.Ok r -> "ok " ^ bits_s r | M.Err -> "err" | M.Panic -> "panic" in
    bump "bf.resize";
    if a <> res then fail "oracle.C13" ("resize reference says " ^ a);
    (match M.bl_of_bits (n_of_dec n) bits with
     | M.Ok b ->
       let i = match M.bl_resize (n_of_dec n) (n_of_dec m) b with
         | M.Ok r -> "ok " ^ bits_s (M.bf_iter r) | M.Err -> "err" | M.Panic -> "panic" in
       if i <> res then fail "corr.bf.resize" ("model=" ^ i)
     | _ -> fail "corr.bf.resize" "operand not representable")
  | "bfwithlen" :: hex :: l :: res :: rest ->
    let bs = bytes_of_hex hex in
    (* C01: a value this constructor returns is a value of the type: its encoding decodes back to it *)
    (match rest with
     | ["fail"] -> fail "oracle.C01" "a value built by from_bytes_with_len does not survive encode / decode"
     | ["panic"] -> fail "oracle.C01" "encoding or decoding a value built by from_bytes_with_len panics"; fail "oracle.C05" "panic"
     | _ -> ());
    let a = match M.a_from_bytes_with_len bs (n_of_dec l) with
      | M.Ok r -> "ok " ^ bits_s r | M.Err -> "err" | M.Panic -> "panic" in
    let i = match M.bd_from_bytes_with_len bs (n_of_dec l) with
      | M.Ok r -> "ok " ^ bits_s (M.bf_iter r) | M.Err -> "err" | M.Panic -> "panic" in
    bump "bf.withlen";
    if i <> res then fail "corr.bf.withlen" ("model=" ^ i);
    if a <> res then fail "oracle.C13" ("from_bytes_with_len reference says " ^ a);
    if a <> res then fail "oracle.C14" ("from_bytes_with_len reference says " ^ a)
  | ["serde_ser"; fl; ssz; json; back] ->
    let flv = flavour_of fl in
    let ssz = bytes_of_hex ssz in
    bump "serde.ser";
    (* the property on the crate's own output: "0x" + lowercase hex of the SSZ encoding *)
    let expect = "\"0x" ^ (if ssz = [] then "" else hex_of_bytes ssz) ^ "\"" in
    if json <> expect then fail "oracle.C18" ("expected " ^ expect);
    if back <> "same" then fail "oracle.C18" "serde does not round-trip";
    (match M.i_decode flv ssz with
     | M.Ok b ->
       let m = "\"" ^ string_of_str (M.serde_ser flv b) ^ "\"" in
       if m <> json then fail "corr.serde" ("model=" ^ m)
     | _ -> fail "corr.serde" "model rejects the crate's encoding")
  | ["serde_de"; fl; s; via_json; via_str] ->
    let flv = flavour_of fl in
    bump ("serde.de." ^ (if String.length via_json >= 2 then String.sub via_json 0 2 else via_json));
    let m = match M.serde_de flv (str_of_string s) with
      | M.Ok b -> "ok " ^ bits_s (M.bf_iter b) | M.Err -> "err" | M.Panic -> "panic" in
    if m <> via_json then fail "corr.serde" ("model=" ^ m);
    if via_json <> via_str then fail "oracle.C18" "JSON and plain string deserializers disagree";
    if via_json = "panic" then fail "oracle.C05" "deserialization panicked";
    (* reference, written directly from the property: 0x-prefixed, even-length hex of a byte
       string that SSZ decoding accepts *)
    let n = String.length s in
    let ishex c = (c >= '0' && c <= '9') || (c >= 'a' && c <= 'f') || (c >= 'A' && c <= 'F') in
    let wellformed = n >= 2 && String.sub s 0 2 = "0x" && (n - 2) mod 2 = 0 &&
                     (let ok = ref true in String.iteri (fun i c -> if i >= 2 && not (ishex c) then ok := false) s; !ok) in
    let expect =
      if not wellformed then "err"
      else
        let bs = Util.bytes_of_hex (let h = String.sub s 2 (n - 2) in if h = "" then "-" else String.lowercase_ascii h) in
        match M.a_decode flv bs with
        | M.Ok bits -> "ok " ^ bits_s bits | _ -> "err" in
    if expect <> via_json then fail "oracle.C18" ("reference says " ^ expect)
  | ["arb"; fl; data; res] ->
    let flv = flavour_of fl in
    let data = bytes_of_hex data in
    bump ("arb." ^ (if String.length res >= 2 then String.sub res 0 2 else res));
    bump ("arbfl.seen." ^ fl);
    if String.length res >= 2 && String.sub res 0 2 = "ok" then bump ("arbfl.ok." ^ fl);
    let o = match flv with
      | M.FVec n -> M.arb_bitvector n data
      | M.FList n -> M.arb_bitlist n data
      | M.FDyn -> failwith "no arbitrary for dyn" in
    let m = match o with
      | M.Ok b -> "ok " ^ bits_s (M.bf_iter b) ^ " rt wf" | M.Err -> "err" | M.Panic -> "panic" in
    if m <> res then fail "corr.arb" ("model=" ^ m);
    if res = "panic" then fail "oracle.C20" "generator panicked";
    (match String.split_on_char ' ' res with
     | "ok" :: rest ->
       let nr = List.length rest in
       let wf = List.nth rest (nr - 1) in
       let rt = List.nth rest (nr - 2) in
       let bits_str = String.concat " " (List.filteri (fun i _ -> i < nr - 2) rest) in
       let l = List.length (bits_of_sexp_string bits_str) in
       let ok = match flv with M.FVec n -> l = int_of_n n | M.FList n -> l <= int_of_n n | M.FDyn -> true in
       if not ok then fail "oracle.C20" "generated value violates the length rule";
       if rt <> "rt" then fail "oracle.C20" "generated value does not round-trip through SSZ (or its encoder panics)";
       if wf <> "wf" then fail "oracle.C20" "generated value is not a valid bitfield: byte view not minimal or a bit set at or beyond the length"
     | _ -> ())
  | ["derive"; d; ety; dty] ->
    bump "derive.programs";
    (match M.derive (defn_of d) with
     | Some (e, r) ->
       if e <> ty_of_sexp (parse_sexp ety) then fail "corr.derive" "encode-side schema of the model differs from the generator's";
       if r <> ty_of_sexp (parse_sexp dty) then fail "corr.derive" "decode-side schema of the model differs from the generator's"
     | None -> fail "corr.derive" "the model rejects a definition the compiler accepted")
  | ["derivecf"; d; accepted; expected; name; why] ->
    bump ("derive.cf." ^ accepted);
    let model_accepts = (M.derive (defn_of d) <> None) in
    if model_accepts <> (accepted = "1") then
      fail "corr.derive.reject" (Printf.sprintf "%s: model %s, rustc %s" name (if model_accepts then "accepts" else "rejects") (if accepted = "1" then "accepts" else "rejects"));
    if accepted <> expected then
      fail "oracle.C08" (Printf.sprintf "%s: the definition must be %s at compile time but rustc %s it" name
                           (if expected = "1" then "accepted" else "rejected") (if accepted = "1" then "accepted" else "rejected"));
    if accepted = "0" && why <> "macro-panic" then
      fail "driver.error" (name ^ ": the compile-fail crate fails for a reason other than the derive macro")
  | _ -> fail "driver.error" ("unknown op " ^ op)
