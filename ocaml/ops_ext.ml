(* Further ops (bitfields, serde, arbitrary); filled in as the model grows. *)
let eval (_fields : string list) (fail : string -> string -> unit) (_bump : string -> unit) (op : string) : unit =
  fail "driver.error" ("unknown op " ^ op)
