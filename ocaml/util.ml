(* Conversions, s-expressions, result classes: shared glue. *)
module M = Ssz_model

(* ---------- conversions ---------- *)
let rec nat_of_int i = if i <= 0 then M.O else M.S (nat_of_int (i - 1))
let rec int_of_nat = function M.O -> 0 | M.S n -> 1 + int_of_nat n

let rec pos_of_int i =
  if i = 1 then M.XH
  else if i land 1 = 1 then M.XI (pos_of_int (i lsr 1))
  else M.XO (pos_of_int (i lsr 1))
let n_of_int i = if i = 0 then M.N0 else M.Npos (pos_of_int i)

let n16 = n_of_int 16
let hexval c = match c with
  | '0'..'9' -> Char.code c - 48
  | 'a'..'f' -> Char.code c - 87
  | 'A'..'F' -> Char.code c - 55
  | _ -> failwith ("bad hex digit " ^ String.make 1 c)
(* big numbers: most significant digit first *)
let n_of_hex (s : string) : M.n =
  let acc = ref M.N0 in
  String.iter (fun c -> acc := M.N.add (M.N.mul !acc n16) (n_of_int (hexval c))) s;
  !acc
let n_of_dec (s : string) : M.n =
  let acc = ref M.N0 and ten = n_of_int 10 in
  String.iter (fun c -> acc := M.N.add (M.N.mul !acc ten) (n_of_int (Char.code c - 48))) s;
  !acc
let rec pos_bits = function M.XH -> [1] | M.XO p -> 0 :: pos_bits p | M.XI p -> 1 :: pos_bits p
let hex_of_n (x : M.n) : string =
  match x with
  | M.N0 -> "0"
  | M.Npos p ->
    let bits = Array.of_list (pos_bits p) in (* lsb first *)
    let nd = (Array.length bits + 3) / 4 in
    let b = Buffer.create nd in
    for d = nd - 1 downto 0 do
      let v = ref 0 in
      for k = 3 downto 0 do
        let i = d * 4 + k in
        v := !v * 2 + (if i < Array.length bits then bits.(i) else 0)
      done;
      Buffer.add_char b "0123456789abcdef".[!v]
    done;
    Buffer.contents b
let int_of_n (x : M.n) : int =
  match x with
  | M.N0 -> 0
  | M.Npos p -> List.fold_right (fun b acc -> acc * 2 + b) (pos_bits p) 0

let bytes_of_hex (s : string) : M.bytes =
  let s = if s = "-" then "" else s in
  let n = String.length s / 2 in
  List.init n (fun i -> n_of_int (hexval s.[2*i] * 16 + hexval s.[2*i+1]))
let hex_of_bytes (bs : M.bytes) : string =
  if bs = [] then "-" else
  String.concat "" (List.map (fun b -> Printf.sprintf "%02x" (int_of_n b land 0xffff)) bs)

(* ---------- s-expressions ---------- *)
type sexp = A of string | L of sexp list
let parse_sexp (s : string) : sexp =
  let n = String.length s in
  let pos = ref 0 in
  let rec skip () = while !pos < n && s.[!pos] = ' ' do incr pos done
  and parse () =
    skip ();
    if !pos >= n then failwith "sexp: eof"
    else if s.[!pos] = '(' then begin
      incr pos;
      let items = ref [] in
      skip ();
      while !pos < n && s.[!pos] <> ')' do
        items := parse () :: !items; skip ()
      done;
      if !pos >= n then failwith "sexp: missing )";
      incr pos;
      L (List.rev !items)
    end else begin
      let st = !pos in
      while !pos < n && s.[!pos] <> ' ' && s.[!pos] <> '(' && s.[!pos] <> ')' do incr pos done;
      A (String.sub s st (!pos - st))
    end in
  let r = parse () in
  skip ();
  if !pos <> n then failwith ("sexp: trailing input in " ^ s);
  r

let rec ty_of_sexp (e : sexp) : M.ty =
  match e with
  | A "bool" -> M.TBool
  | A "nonzero" -> M.TNonZero
  | A "bytelist" -> M.TByteList
  | A "bitdyn" -> M.TBitDyn
  | L [A "uint"; A k] -> M.TUint (nat_of_int (int_of_string k))
  | L [A "bytesn"; A k] -> M.TBytesN (nat_of_int (int_of_string k))
  | L [A "list"; t] -> M.TList (ty_of_sexp t)
  | L [A "set"; t] -> M.TSet (ty_of_sexp t)
  | L [A "map"; k; v] -> M.TMap (ty_of_sexp k, ty_of_sexp v)
  | L [A "option"; t] -> M.TOption (ty_of_sexp t)
  | L (A "cont" :: A d :: fs) -> M.TContainer (d = "1", List.map ty_of_sexp fs)
  | L (A "union" :: vs) -> M.TUnion (List.map ty_of_sexp vs)
  | L [A "tag"; A k] -> M.TTag (nat_of_int (int_of_string k))
  | L (A "trans" :: vs) -> M.TTransEnum (List.map ty_of_sexp vs)
  | L [A "wrap"; t] -> M.TWrap (ty_of_sexp t)
  | L [A "bitvector"; A k] -> M.TBitVector (n_of_dec k)
  | L [A "bitlist"; A k] -> M.TBitList (n_of_dec k)
  | L [A "legacy"; t] -> M.TLegacyOpt (ty_of_sexp t)
  | _ -> failwith "bad type s-expression"

let bits_of_string s = List.init (String.length s) (fun i -> s.[i] = '1')
let string_of_bits bs = String.concat "" (List.map (fun b -> if b then "1" else "0") bs)

let rec val_of_sexp (e : sexp) : M.val0 =
  match e with
  | A "none" -> M.VNone
  | L [A "u"; A h] -> M.VUint (n_of_hex h)
  | L [A "b"; A b] -> M.VBool (b = "1")
  | L [A "x"] -> M.VBytes []
  | L [A "x"; A h] -> M.VBytes (bytes_of_hex h)
  | L (A "l" :: vs) -> M.VList (List.map val_of_sexp vs)
  | L [A "some"; v] -> M.VSome (val_of_sexp v)
  | L (A "c" :: vs) -> M.VCont (List.map val_of_sexp vs)
  | L [A "un"; A i; v] -> M.VUnion (nat_of_int (int_of_string i), val_of_sexp v)
  | L [A "tag"; A i] -> M.VTag (nat_of_int (int_of_string i))
  | L [A "bits"] -> M.VBits []
  | L [A "bits"; A s] -> M.VBits (bits_of_string s)
  | _ -> failwith "bad value s-expression"

let rec string_of_val (v : M.val0) : string =
  match v with
  | M.VNone -> "none"
  | M.VUint n -> "(u " ^ hex_of_n n ^ ")"
  | M.VBool b -> if b then "(b 1)" else "(b 0)"
  | M.VBytes [] -> "(x)"
  | M.VBytes bs -> "(x " ^ hex_of_bytes bs ^ ")"
  | M.VList vs -> "(l" ^ String.concat "" (List.map (fun v -> " " ^ string_of_val v) vs) ^ ")"
  | M.VSome v -> "(some " ^ string_of_val v ^ ")"
  | M.VCont vs -> "(c" ^ String.concat "" (List.map (fun v -> " " ^ string_of_val v) vs) ^ ")"
  | M.VUnion (i, v) -> Printf.sprintf "(un %d %s)" (int_of_nat i) (string_of_val v)
  | M.VTag i -> Printf.sprintf "(tag %d)" (int_of_nat i)
  | M.VBits [] -> "(bits)"
  | M.VBits bs -> "(bits " ^ string_of_bits bs ^ ")"

(* ---------- result syntax shared with the harness ---------- *)
type 'a res = ROk of 'a | RErr | RPanic
let class_of = function ROk _ -> "ok" | RErr -> "err" | RPanic -> "panic"
let res_of_outcome (o : 'a M.outcome) : 'a res =
  match o with M.Ok a -> ROk a | M.Err -> RErr | M.Panic -> RPanic

let two_pow_32 = n_of_hex "100000000"

(* ---------- statistics ---------- *)
let stats : (string, int) Hashtbl.t = Hashtbl.create 64
let bump k = Hashtbl.replace stats k (1 + (try Hashtbl.find stats k with Not_found -> 0))
let distinct : (string, unit) Hashtbl.t = Hashtbl.create 1024


(* The entry-list view of a type and the collection a value of it denotes are the model's own
   [list_view] / [collect_rec] (ListView.v; ListViewFacts.dec_by_collection proves that decoding a type is
   decoding its entry-list view and collecting). *)
let list_view = M.list_view
let collect_rec = M.collect_rec
