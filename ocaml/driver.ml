(* Correspondence driver: evaluates the extracted Coq model (Ssz_model) on the case files the
   Rust harness wrote (inputs + what the crate did) and reports, per line, which named checks
   fail.  Check names:
     corr.*      the implementation model disagrees with the crate (the theorems no longer
                 transfer to the code)
     oracle.Cxx  the property itself fails on what the crate did, judged with the extracted
                 Spec functions (a concrete failing input)
   Unverified glue (see DESIGN.md section 7). *)
open Util
(* ---------- per-op evaluation: returns the list of failing check names + detail ---------- *)
let split_on c s = String.split_on_char c s
let nontrivial_count = ref 0
let cur_new = ref true

let parse_regs (s : string) : (bool * M.n) list =
  if s = "-" then [] else
  List.map (fun it ->
      match split_on ':' it with
      | ["f"; l] -> (true, n_of_dec l)
      | ["v"] -> (false, n_of_int 4)
      | ["v"; l] -> (false, n_of_dec l)
      | _ -> failwith ("bad reg " ^ it)) (split_on ',' s)

let parse_hexlist (s : string) : M.bytes list =
  if s = "" || s = "." then [] else List.map bytes_of_hex (split_on ',' s)

let eval_line (fields : string list) : (string * string) list =
  let fails = ref [] in
  let fail name detail = fails := (name, detail) :: !fails in
  let nontrivial () = if !cur_new then incr nontrivial_count in
  (match fields with
   | "const" :: vals ->
     let mine = List.map hex_of_n M.params in
     let theirs = List.map (fun d -> hex_of_n (n_of_dec d)) vals in
     if mine <> theirs then fail "corr.const" (String.concat "," mine)
   | ["meta"; ts; ef; el; df; dl] ->
     let t = ty_of_sexp (parse_sexp ts) in
     let b s = s = "1" in
     if M.e_is_fixed t <> b ef then fail "corr.meta" "e_is_fixed";
     if M.d_is_fixed t <> b df then fail "corr.meta" "d_is_fixed";
     if M.e_fixed_len t <> n_of_dec el then fail "corr.meta" ("e_fixed_len model=" ^ hex_of_n (M.e_fixed_len t));
     if M.d_fixed_len t <> n_of_dec dl then fail "corr.meta" ("d_fixed_len model=" ^ hex_of_n (M.d_fixed_len t));
     (* the property on the crate's own answers *)
     if ef <> df then fail "oracle.C07" "encode and decode side disagree on is_ssz_fixed_len";
     if el <> dl then fail "oracle.C07" "encode and decode side disagree on ssz_fixed_len";
     if ef = "0" && el <> "4" then fail "oracle.C07" "variable-size type with fixed part <> 4"
   | ["meta2"; ts; dts; ef; el; df; dl] ->
     (* a definition with a skip flag on one side only: the encode side is judged at the schema written,
        the decode side at the schema read (the two derives are two codecs) *)
     let t = ty_of_sexp (parse_sexp ts) in
     let dt = ty_of_sexp (parse_sexp dts) in
     let b s = s = "1" in
     if M.e_is_fixed t <> b ef then fail "corr.meta" "e_is_fixed";
     if M.d_is_fixed dt <> b df then fail "corr.meta" "d_is_fixed";
     if M.e_fixed_len t <> n_of_dec el then fail "corr.meta" ("e_fixed_len model=" ^ hex_of_n (M.e_fixed_len t));
     if M.d_fixed_len dt <> n_of_dec dl then fail "corr.meta" ("d_fixed_len model=" ^ hex_of_n (M.d_fixed_len dt));
     if ef = "0" && el <> "4" then fail "oracle.C07" "variable-size type with fixed part <> 4";
     if df = "0" && dl <> "4" then fail "oracle.C07" "variable-size type with fixed part <> 4"
   | ["metap"; ts] ->
     (* the metadata functions panicked: only the documented assertion of transparent enums with a
        fixed-size variant may do that *)
     let t = ty_of_sexp (parse_sexp ts) in
     (match t with
      | M.TTransEnum vs when List.exists M.e_is_fixed vs -> bump "meta.trans_enum_assert"
      | _ -> fail "corr.meta" "metadata function panics"; fail "oracle.C07" "a metadata function panics")
   | ["enc"; ts; vs; hex; blen; rt] ->
     let t = ty_of_sexp (parse_sexp ts) in
     let v = val_of_sexp (parse_sexp vs) in
     let crate = bytes_of_hex hex in
     bump ("enc.rt." ^ rt); nontrivial ();
     if not (M.has_ty t v) then fail "corr.has_ty" "crate value not typed by the model"
     else begin
       let m = M.enc t v in
       if m <> crate then fail "corr.enc" ("model=" ^ hex_of_bytes m);
       let ml = M.bytes_len t v in
       if ml <> n_of_dec blen then fail "corr.bytes_len" ("model=" ^ hex_of_n ml);
       let s = M.spec_enc t v in
       if s <> crate then fail "oracle.C03" ("spec=" ^ hex_of_bytes s);
       if int_of_string blen <> List.length crate then fail "oracle.C07" "ssz_bytes_len <> produced length";
       if M.e_is_fixed t && M.e_fixed_len t <> M.len crate then
         fail "oracle.C07" "fixed-size type encoded to a length other than ssz_fixed_len";
       if rt = "fail" && M.rt_type t then begin
         fail "oracle.C01" "decode(encode(v)) <> v";
         if s = crate then fail "oracle.C04" "valid serialization rejected or decoded to another value"
       end;
       if rt = "panic" then fail "oracle.C05" "decode of an encoding panicked";
       (* C15: selector byte = declaration index, then the variant's own encoding *)
       (match t, v, crate with
        | M.TUnion ts, M.VUnion (i, x), b0 :: rest ->
          if int_of_n b0 <> int_of_nat i then fail "oracle.C15" "first byte is not the variant's declaration index";
          let ti = List.nth ts (int_of_nat i) in
          if rest <> M.spec_enc ti x then fail "oracle.C15" "body is not the variant's encoding"
        | M.TOption _, M.VNone, _ -> if crate <> [M.N0] then fail "oracle.C15" "None is not the single selector byte 0"
        | M.TOption ti, M.VSome x, b0 :: rest ->
          if int_of_n b0 <> 1 || rest <> M.spec_enc ti x then fail "oracle.C15" "Some is not selector 1 followed by the value"
        | (M.TUnion _ | M.TOption _), _, [] -> fail "oracle.C15" "empty encoding of a union"
        | _ -> ());
       (match t with
        | M.TUnion _ | M.TOption _ ->
          if rt = "fail" && M.rt_type t then fail "oracle.C15" "a declared variant's encoding (selector = declaration index) does not decode to that variant"
        | _ -> ());
       (* C19: a map / set encodes exactly as the list of its (ascending) entries *)
       (match t, v with
        | M.TSet a, M.VList es ->
          if M.spec_enc (M.TList a) (M.VList es) <> crate then fail "oracle.C19" "set does not encode as the list of its elements"
        | M.TMap (k, w), M.VList es ->
          if M.spec_enc (M.TList (M.TContainer (false, [k; w]))) (M.VList es) <> crate then
            fail "oracle.C19" "map does not encode as the list of its entries"
        | _ -> ());
       if rt = "fail" && (match t with M.TSet _ | M.TMap _ -> true | _ -> false) && M.rt_type t then
         fail "oracle.C19" "decoding an encoding does not return the original collection"
     end
   | "dec" :: ts :: hex :: res ->
     let t = ty_of_sexp (parse_sexp ts) in
     let bs = bytes_of_hex hex in
     let crate : (M.val0 * M.bytes * string) res =
       match res with
       | ["ok"; vs; re; fp] -> ROk (val_of_sexp (parse_sexp vs), bytes_of_hex re, fp)
       | ["ok"; vs; re] -> ROk (val_of_sexp (parse_sexp vs), bytes_of_hex re, "na")
       | ["err"] -> RErr
       | ["panic"] -> RPanic
       | _ -> failwith "bad dec result" in
     bump ("dec." ^ class_of crate);
     (match crate with ROk _ -> nontrivial () | _ -> if List.length bs >= 2 then nontrivial ());
     let m = res_of_outcome (M.dec t bs) in
     (match crate, m with
      | ROk (v, _, _), ROk mv -> if v <> mv then fail "corr.dec.value" ("model=ok " ^ string_of_val mv)
      | RErr, RErr | RPanic, RPanic -> ()
      | _, _ -> fail "corr.dec.class" ("model=" ^ class_of m));
     (* union selector rules (C15), judged on the crate's answer alone *)
     let nvariants = match t with
       | M.TUnion vs -> Some (List.length vs) | M.TOption _ -> Some 2 | _ -> None in
     (match nvariants with
      | None -> ()
      | Some n ->
        (match bs, crate with
         | [], ROk _ -> fail "oracle.C15" "empty input accepted by a union"
         | _, RPanic -> fail "oracle.C15" "a union input is to be decoded or rejected with an error: the decoder panicked"
         | s :: _, ROk (v, _, _) ->
           let s = int_of_n s in
           if s >= n || s > 127 then fail "oracle.C15" "selector that names no variant was accepted"
           else (match v with
               | M.VUnion (i, _) -> if int_of_nat i <> s then fail "oracle.C15" "decoded variant is not the selector's"
               | M.VNone -> if s <> 0 then fail "oracle.C15" "None decoded from a non-zero selector"
               | M.VSome _ -> if s <> 1 then fail "oracle.C15" "Some decoded from a selector other than 1"
               | _ -> ())
         | _ -> ()));
     (match t with
      | M.TTransEnum ts ->
        (* composition rule: the first variant whose own decoder accepts (the variants' decoders are
           tied to the crate separately, as catalogue types of their own) *)
        let rec first i = function
          | [] -> None
          | ti :: r -> (match M.dec ti bs with M.Ok x -> Some (M.VUnion (nat_of_int i, x)) | _ -> first (i + 1) r) in
        let expect = first 0 ts in
        (match crate, expect with
         | ROk (v, _, _), Some e -> if v <> e then (fail "oracle.C08" "transparent enum did not decode to the first variant that accepts"; fail "oracle.C04" "transparent enum did not decode to the first variant that accepts")
         | RErr, None -> ()
         | RPanic, _ -> ()
         | _, _ -> fail "oracle.C08" "transparent enum: accept/reject differs from 'first variant that accepts'";
                   fail "oracle.C04" "transparent enum: accept/reject differs from 'first variant that accepts'")
      | _ -> ());
     (* the strict reference deserializer of SpecDec.v (spec-text style), on strict types *)
     if M.canon_type t && M.rt_type t then begin
       match M.spec_dec t bs, crate with
       | Some w, ROk (v, _, _) -> if v <> w then fail "oracle.C04" ("reference deserializer returns " ^ string_of_val w)
       | None, RErr -> ()
       | Some w, RErr -> fail "oracle.C04" ("rejected, but the reference deserializer accepts: " ^ string_of_val w)
       | None, ROk _ -> fail "oracle.C04" "accepted, but the reference deserializer rejects"
       | _, RPanic -> ()
     end;
     (match crate with
      | RPanic -> fail "oracle.C05" "decoding panicked"
      | RErr -> ()
      | ROk (v, re, fp) ->
        (* fp = "na": the Rust type encodes under another schema than it decodes (asymmetric skip
           flags); its own re-encoding says nothing about the decode-side schema, so canonicity is
           judged with the reference serializer instead *)
        if M.canon_type t && fp <> "na" && re <> bs then fail "oracle.C02" ("re-encoding=" ^ hex_of_bytes re);
        if M.canon_type t && fp = "na" && M.has_ty t v && M.spec_enc t v <> bs then
          fail "oracle.C02" ("reference re-encoding=" ^ hex_of_bytes (M.spec_enc t v));
        if M.canon_type t then begin
          if not (M.valid_b t bs v) then
            fail "oracle.C04" ("accepted bytes are not the serialization of the returned value; spec_enc=" ^
                               (if M.has_ty t v then hex_of_bytes (M.spec_enc t v) else "(ill-typed)"))
        end;
        (* maps and sets: forward direction (C04) and collection semantics (C19).  The accepted bytes must
           be a well-formed list of entries and the result the collection of the listed entries -- at
           every depth: an entry that itself holds a set or a map is judged by its own entry list
           ([list_view] / [collect_rec]), not by the canonical re-serialization of the collection it
           decodes to (an inner set listed with a duplicate is a valid encoding of that set). *)
        (match t with
         | M.TSet _ | M.TMap _ ->
           let lt, is_map = match t with
             | M.TSet a -> M.TList (list_view a), false
             | M.TMap (k, w) -> M.TList (M.TContainer (false, [list_view k; list_view w])), true
             | _ -> t, false in
           let ct = match t with
             | M.TSet a -> M.TList a
             | M.TMap (k, w) -> M.TList (M.TContainer (false, [k; w]))
             | _ -> t in
           (match M.dec lt bs with
            | M.Ok (M.VList es) ->
              if not (M.valid_b lt bs (M.VList es)) then
                fail "oracle.C04" "accepted bytes are not a well-formed entry list";
              let es' = (match collect_rec ct (M.VList es) with M.VList l -> l | _ -> es) in
              if M.VList (M.collect_entries is_map es') <> v then
                fail "oracle.C19" "decoded collection is not the collection of the listed entries"
            | _ -> fail "oracle.C19" "accepted bytes are not a well-formed entry list";
                   fail "oracle.C04" "accepted bytes are not a well-formed entry list");
           if fp = "nofp" then fail "oracle.C19" "re-encoding a decoded collection is not a fixed point";
           if not (M.has_ty t v) then fail "oracle.C19" "decoded collection is not strictly ascending"
         | _ -> ());
        if M.d_is_fixed t && M.d_fixed_len t <> M.len bs then
          fail "oracle.C07" "fixed-size type accepted an input of another length")
   | ["app"; ts; vs; prefix; out; asb; sszenc; viaref; viaarc] ->
     let t = ty_of_sexp (parse_sexp ts) in
     let v = val_of_sexp (parse_sexp vs) in
     let pre = bytes_of_hex prefix in
     let out = bytes_of_hex out and asb = bytes_of_hex asb in
     if M.has_ty t v then begin
       if M.append t v pre <> out then fail "corr.append" ("model=" ^ hex_of_bytes (M.append t v pre));
       nontrivial ();
       if M.as_bytes t v <> asb then fail "corr.as_bytes" ("model=" ^ hex_of_bytes (M.as_bytes t v));
       if out <> pre @ asb then fail "oracle.C10" "append(prefix) <> prefix ++ as_ssz_bytes";
       if bytes_of_hex sszenc <> asb then fail "oracle.C10" "ssz_encode <> as_ssz_bytes";
       if bytes_of_hex viaref <> asb then fail "oracle.C10" "&T encodes differently";
       if bytes_of_hex viaarc <> asb then fail "oracle.C10" "Arc<T> encodes differently"
     end else fail "corr.has_ty" "crate value not typed by the model"
   | ["word"; n; hex; back] ->
     let x = n_of_dec n in
     let crate = bytes_of_hex hex in
     nontrivial ();
     if M.encode_length x <> crate then fail "corr.encode_length" ("model=" ^ hex_of_bytes (M.encode_length x));
     (* independent closed form *)
     let expect = List.map (fun i -> M.N.modulo (M.N.div x (M.N.pow (n_of_int 256) (n_of_int i))) (n_of_int 256)) [0;1;2;3] in
     if M.N.ltb x two_pow_32 then begin
       if crate <> expect then fail "oracle.C09" "encode_length is not the little-endian word";
       if back <> "ok " ^ n then fail "oracle.C09" ("read_offset(encode_length(n)) = " ^ back)
     end;
     (match res_of_outcome (M.read_offset crate) with
      | ROk y -> if back <> "ok " ^ (string_of_int (int_of_n y)) then fail "corr.read_offset" "value"
      | r -> if back <> class_of r then fail "corr.read_offset" "class")
   | ["roff"; hex; res] ->
     let bs = bytes_of_hex hex in
     let m = match res_of_outcome (M.read_offset bs) with
       | ROk y -> "ok " ^ string_of_int (int_of_n y) | r -> class_of r in
     if m <> res then fail "corr.read_offset" ("model=" ^ m);
     if res = "panic" then fail "oracle.C05" "read_offset panicked";
     (match bs with
      | a :: b :: c :: d :: _ ->
        let v = int_of_n a + 256 * (int_of_n b + 256 * (int_of_n c + 256 * int_of_n d)) in
        if res <> "ok " ^ string_of_int v then fail "oracle.C09" "read_offset is not the little-endian value"
      | _ -> if res <> "err" then fail "oracle.C09" "read_offset accepted fewer than 4 bytes")
   | ["usel"; b; res] ->
     let x = n_of_dec b in
     let m = match res_of_outcome (M.union_selector_new x) with
       | ROk y -> Printf.sprintf "ok %d 1 0" (int_of_n y) | r -> class_of r in
     if m <> res then fail "corr.split_union" ("UnionSelector::new model=" ^ m);
     if res = "panic" then fail "oracle.C05" "UnionSelector::new panicked";
     let expect = if int_of_string b <= 127 then Printf.sprintf "ok %s 1 0" b else "err" in
     if res <> expect then fail "oracle.C15" ("UnionSelector::new / into u8 / == u8: expected " ^ expect)
   | ["word4"; n; hex; back; rhex; rd] ->
     (* legacy four-byte selector helpers = the offset word codec *)
     let x = n_of_dec n in
     let crate = bytes_of_hex hex in
     if M.encode_length x <> crate then fail "corr.encode_length" ("legacy selector word model=" ^ hex_of_bytes (M.encode_length x));
     let show o = match res_of_outcome o with ROk y -> "ok " ^ string_of_int (int_of_n y) | r -> class_of r in
     if show (M.read_offset crate) <> back then fail "corr.read_offset" "legacy read of an encoded selector";
     if show (M.read_offset (bytes_of_hex rhex)) <> rd then fail "corr.read_offset" ("legacy read model=" ^ show (M.read_offset (bytes_of_hex rhex)));
     if back = "panic" || rd = "panic" then fail "oracle.C05" "read_four_byte_union_selector panicked";
     if M.N.ltb x two_pow_32 && back <> "ok " ^ n then begin
       fail "oracle.C17" "legacy selector word does not read back";
       fail "oracle.C09" "legacy selector word does not read back"
     end
   | ["sunion"; hex; res] ->
     let bs = bytes_of_hex hex in
     let m = match res_of_outcome (M.split_union_bytes bs) with
       | ROk (s, body) -> Printf.sprintf "ok %d %s" (int_of_n s) (hex_of_bytes body)
       | r -> class_of r in
     if m <> res then fail "corr.split_union" ("model=" ^ m);
     if res = "panic" then fail "oracle.C05" "split_union_bytes panicked";
     let expect = match bs with
       | [] -> "err"
       | s :: body -> if int_of_n s <= 127 then Printf.sprintf "ok %d %s" (int_of_n s) (hex_of_bytes body) else "err" in
     if res <> expect then fail "oracle.C15" ("split_union_bytes: expected " ^ expect)
   | ["builder"; regs; hex; res] ->
     let regs = parse_regs regs in
     let bs = bytes_of_hex hex in
     let m = match res_of_outcome (M.builder_build regs bs) with
       | ROk items ->
         (* decode exactly the registered items *)
         (match M.decode_all items (List.map (fun _ -> (fun s -> M.Ok s)) regs) with
          | M.Ok sl -> "ok " ^ String.concat "," (List.map hex_of_bytes sl)
          | M.Err -> "err" | M.Panic -> "panic")
       | r -> class_of r in
     bump ("builder." ^ (if String.length res >= 2 then String.sub res 0 2 else res));
     if m <> res then fail "corr.builder" ("model=" ^ m);
     if String.length res >= 2 && String.sub res 0 2 = "ok" || List.length bs >= 4 then nontrivial ();
     if res = "panic" then fail "oracle.C05" "builder panicked";
     (* the tiling property, evaluated directly *)
     (match Tiling.check regs bs res with
      | None -> ()
      | Some why -> fail "oracle.C09" why);
     (* the proved-equivalent spec-side split (SplitSpec.v), extracted *)
     if res <> "panic" && List.length bs < 4000 then begin
       let e = match M.split regs bs with
         | Some sl -> "ok " ^ String.concat "," (List.map hex_of_bytes sl)
         | None -> "err" in
       if e <> res then fail "oracle.C09" ("spec-side split says: " ^ e)
     end
   | ["hugesum"; what; _hex; res] ->
     (* a type whose fixed-size parts sum past usize::MAX (outside the model, whose sums are unbounded): decoding a few
        bytes as it must still be an error, not a panic *)
     bump ("hugesum." ^ res);
     nontrivial ();
     if res = "panic" then fail "oracle.C05" ("decoding as " ^ what ^ ": the sum of the fixed lengths overflows usize and panics")
     else if res = "ok" then fail "oracle.C04" ("three bytes accepted as " ^ what)
   | ["builderl"; regs; hex; mask; res] ->
     (* the decoder driven leniently: the closures of the items picked by [mask] fail and the caller goes on; every
        call consumes one item, so each item that is decoded is still exactly its own slice, in order *)
     let regs = parse_regs regs in
     let bs = bytes_of_hex hex in
     let mask = Int64.of_string mask in
     let failing i = Int64.logand (Int64.shift_right_logical mask (i mod 64)) 1L = 1L in
     let m = match res_of_outcome (M.builder_build regs bs) with
       | ROk items ->
         if List.length items < List.length regs then "panic"
         else "ok " ^ String.concat "," (List.mapi (fun i s -> if failing i then "x" else hex_of_bytes s)
                                           (List.filteri (fun i _ -> i < List.length regs) items))
       | r -> class_of r in
     bump ("builderl." ^ (if String.length res >= 2 then String.sub res 0 2 else res));
     nontrivial ();
     if m <> res then begin
       fail "corr.builder" ("lenient decoding: model=" ^ m);
       if String.length m >= 2 && String.sub m 0 2 = "ok" then
         fail "oracle.C09" ("an item was not handed its own bytes after an earlier closure failed; expected " ^ m)
     end;
     if res = "panic" && m <> "panic" then fail "oracle.C05" "lenient decoding panicked"
   | ["encoder2"; prefix; nf; items1; items2; out] ->
     (* one encoder, two rounds of fields each closed by [finalize] *)
     let pre = bytes_of_hex prefix in
     let parse items = if items = "-" then [] else
         List.map (fun it -> match split_on ':' it with
             | [k; h] -> (k = "f", bytes_of_hex h)
             | _ -> failwith "bad encoder item") (split_on ',' items) in
     let r1 = parse items1 and r2 = parse items2 in
     let run b its = M.enc_run b (n_of_dec nf) (List.map (fun (f, x) -> (f, (fun buf -> buf @ x))) its) in
     let m = run (run pre r1) r2 in
     let out = bytes_of_hex out in
     nontrivial ();
     if m <> out then fail "corr.encoder" ("two rounds: model=" ^ hex_of_bytes m);
     (match Tiling.assemble pre (int_of_string nf) r1 with
      | Some mid ->
        (match Tiling.assemble mid (int_of_string nf) r2 with
         | Some expect -> if expect <> out then fail "oracle.C10" ("second round depends on the first: expected " ^ hex_of_bytes expect)
         | None -> ())
      | None -> ())
   | ["encoder"; prefix; nf; items; out] ->
     let pre = bytes_of_hex prefix in
     let items = if items = "-" then [] else
         List.map (fun it -> match split_on ':' it with
             | [k; h] -> (k = "f", bytes_of_hex h)
             | _ -> failwith "bad encoder item") (split_on ',' items) in
     let m = M.enc_run pre (n_of_dec nf)
         (List.map (fun (f, b) -> (f, (fun buf -> buf @ b))) items) in
     let out = bytes_of_hex out in
     nontrivial ();
     if m <> out then fail "corr.encoder" ("model=" ^ hex_of_bytes m);
     (match Tiling.assemble pre (int_of_string nf) items with
      | Some expect -> if expect <> out then fail "oracle.C10" ("expected " ^ hex_of_bytes expect)
      | None -> ())
   | ["listvar"; ts; kind; maxl; hex; res; calls; reserved] ->
     let t = ty_of_sexp (parse_sexp ts) in
     let c = match split_on ':' kind with
       | ["vec"] -> M.CVec | ["bounded"; k] -> M.CBounded (n_of_dec k) | ["refusing"] -> M.CRefusing
       | _ -> failwith "bad ckind" in
     let mx = if maxl = "none" then None else Some (n_of_dec maxl) in
     let bs = bytes_of_hex hex in
     let ((o, mcalls), mres) = M.decode_list_var_full (M.dec t) c bs mx in
     let m = match res_of_outcome o with
       | ROk vs -> "ok " ^ string_of_val (M.VList vs) | r -> class_of r in
     bump ("listvar." ^ (if String.length res >= 2 then String.sub res 0 2 else res));
     if m <> res then fail "corr.listvar" ("model=" ^ m);
     if List.length bs >= 4 then nontrivial ();
     if calls <> "-" && int_of_n mcalls <> int_of_string calls then
       fail "corr.listvar.calls" (Printf.sprintf "model=%d" (int_of_n mcalls));
     (* C06: the largest single request against what is physically present (one 4-byte offset per
        item) and against the model's reservation counter; 24 = size_of the probe item *)
     let largest = int_of_string reserved in
     let budget u = 8 * 24 * (u + 1) + 4096 in
     if largest > budget (List.length bs / 4) then
       fail "oracle.C06" (Printf.sprintf "largest single request %d bytes for %d input bytes (bound %d): space reserved for items that are not present"
                            largest (List.length bs) (budget (List.length bs / 4)));
     if largest > budget (int_of_n mres) then
       fail "corr.alloc" (Printf.sprintf "largest request %d > budget %d of the model's reservation (%d items)" largest (budget (int_of_n mres)) (int_of_n mres));
     if res = "panic" then fail "oracle.C05" "decode_list_of_variable_length_items panicked";
     (* C16 evaluated on the crate's answers *)
     (match Tiling.announced bs, mx with
      | Some cnt, Some mxv when M.N.ltb mxv (n_of_int cnt) ->
        if res <> "err" then fail "oracle.C16" "announced count exceeds the limit but decoding did not fail";
        if calls <> "-" && calls <> "0" then fail "oracle.C16" "items were decoded although the limit was exceeded"
      | _ -> ());
     if res = "panic" then fail "oracle.C16" "list decoding panicked instead of returning an error";
     (* C09 for lists, judged by the native tiling reference: with a collection that takes
        everything and no limit in the way, acceptance = tiling and the items are the slices *)
     (match c, mx with
      | M.CVec, None when ts = "(list (uint 2))" && res <> "panic" ->
        let e = Tiling.expected_u16_lists bs in
        if e <> res then fail "oracle.C09" ("list tiling reference says: " ^ (if String.length e > 200 then String.sub e 0 200 else e))
      | _ -> ());
     (match c with
      | M.CRefusing -> if res <> "err" then
          fail "oracle.C16" "a collection that refuses must yield an error (never a value, never a panic)"
      | _ -> ())
   | ["lvsame"; _ts; _hex; maxl; res_lim; res_unlim; cnt] ->
     (* limit >= announced count: same as unlimited *)
     if M.N.leb (n_of_dec cnt) (n_of_dec maxl) && res_lim <> res_unlim then
       fail "oracle.C16" "limited decoding differs from unlimited decoding although count <= limit"
   | ["decalloc"; ts; hex; cls; peak; largest; slot] ->
     let t = ty_of_sexp (parse_sexp ts) in
     let bs = bytes_of_hex hex in
     let peak = int_of_string peak and largest = int_of_string largest and slot = int_of_string slot in
     bump ("alloc." ^ cls);
     if List.length bs >= 4 then nontrivial ();
     let m = res_of_outcome (M.dec t bs) in
     if class_of m <> cls then fail "corr.dec.class" ("model=" ^ class_of m);
     if cls = "panic" then fail "oracle.C05" "decoding panicked";
     let n = List.length bs in
     let units = int_of_n (M.units t bs) in
     let factor = int_of_n (M.ufactor t) in
     (* heap bytes <= growth x element size x elements + a per-call constant (DESIGN.md, C06) *)
     let budget u = 8 * slot * (u + 1) + 4096 in
     if peak > budget units then
       fail "corr.alloc" (Printf.sprintf "peak %d > budget %d of the model account (units=%d slot=%d)" peak (budget units) units slot);
     if peak > budget (factor * n) || largest > budget (factor * n) then
       fail "oracle.C06" (Printf.sprintf "peak %d / largest request %d exceed the linear bound %d (factor %d x %d bytes, slot %d)"
                            peak largest (budget (factor * n)) factor n slot)
   | op :: _ -> nontrivial (); Ops_ext.eval fields fail bump op
   | [] -> ());
  !fails

let () =
  let path = Sys.argv.(1) in
  let ic = open_in path in
  let lineno = ref 0 in
  let nfail = ref 0 in
  (try
     while true do
       let line = input_line ic in
       incr lineno;
       if line <> "" && line.[0] <> '#' then begin
         let fields = split_on '\t' line in
         bump ("op." ^ List.hd fields);
         cur_new := not (Hashtbl.mem distinct line);
         Hashtbl.replace distinct line ();
         let fails =
           try eval_line fields
           with Failure msg | Invalid_argument msg -> [("driver.error", msg)]
              | Not_found -> [("driver.error", "not found")]
              | Stack_overflow -> [("driver.error", "stack overflow")] in
         if fails <> [] then begin
           incr nfail;
           List.iter (fun (name, detail) ->
               Printf.printf "FAIL\t%d\t%s\t%s\t%s\n" !lineno name detail line) (List.rev fails)
         end
       end
     done
   with End_of_file -> ());
  close_in ic;
  Hashtbl.iter (fun k v -> Printf.printf "STAT\t%s\t%d\n" k v) stats;
  Printf.printf "STAT\tlines\t%d\n" !lineno;
  Printf.printf "STAT\tdistinct\t%d\n" (Hashtbl.length distinct);
  Printf.printf "STAT\tfailing_lines\t%d\n" !nfail;
  Printf.printf "STAT\tnontrivial\t%d\n" !nontrivial_count;
  print_string "DONE\n"
