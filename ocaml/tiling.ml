(* Direct oracles for C09 / C10 / C16, written with native integers from the property text:
   "fixed parts, offset words and variable parts tile the input". *)
open Util

let huge = max_int / 8
let small (x : M.n) : int = if M.N.ltb x (n_of_int (1 lsl 40)) then int_of_n x else huge

let word (b : int array) (p : int) : int =
  b.(p) lor (b.(p+1) lsl 8) lor (b.(p+2) lsl 16) lor (b.(p+3) lsl 24)

let hex_of_sub (b : int array) (a : int) (e : int) : string =
  if e <= a then "-" else
  String.concat "" (List.init (e - a) (fun i -> Printf.sprintf "%02x" b.(a + i)))

(* expected result of building + decoding exactly the registered items *)
let expected (regs : (bool * M.n) list) (bs : M.bytes) : string =
  let b = Array.of_list (List.map int_of_n bs) in
  let n = Array.length b in
  (* fixed cursor *)
  let cursor = ref 0 and ok = ref true in
  let layout = List.map (fun (f, l) ->
      let st = !cursor in
      let l = if f then small l else 4 in
      cursor := min huge (!cursor + l);
      if !cursor > n then ok := false;
      (f, st, l)) regs in
  if not !ok then "err"
  else begin
    let fixed_end = !cursor in
    let offs = List.filter_map (fun (f, st, _) -> if f then None else Some (word b st)) layout in
    match offs with
    | [] -> if fixed_end = n then
        "ok " ^ String.concat "," (List.map (fun (_, st, l) -> hex_of_sub b st (st + l)) layout)
      else "err"
    | first :: _ ->
      let rec nondecr = function a :: (c :: _ as r) -> a <= c && nondecr r | _ -> true in
      if first <> fixed_end || not (nondecr offs) || List.exists (fun o -> o > n) offs then "err"
      else begin
        let ends = (List.tl offs) @ [n] in
        let var = ref (List.combine offs ends) in
        "ok " ^ String.concat "," (List.map (fun (f, st, l) ->
            if f then hex_of_sub b st (st + l)
            else match !var with
              | (a, e) :: r -> var := r; hex_of_sub b a e
              | [] -> "?") layout)
      end
  end

let check regs bs (res : string) : string option =
  if res = "panic" then None
  else
    let e = expected regs bs in
    if regs = [] && e = "ok " then (if res = "ok " || res = "ok" then None else Some "empty registration")
    else if e = res then None else Some ("tiling reference says: " ^ e)

let le4 (x : int) : M.bytes =
  List.map n_of_int [x land 255; (x lsr 8) land 255; (x lsr 16) land 255; (x lsr 24) land 255]

let assemble (pre : M.bytes) (nf : int) (items : (bool * M.bytes) list) : M.bytes option =
  let var_so_far = ref 0 in
  let fixed = List.concat_map (fun (f, b) ->
      if f then b else begin
        let o = nf + !var_so_far in
        var_so_far := !var_so_far + List.length b;
        le4 o
      end) items in
  let vars = List.concat_map (fun (f, b) -> if f then [] else b) items in
  if nf + !var_so_far >= 1 lsl 32 then None else Some (pre @ fixed @ vars)

(* item count a variable-item list announces, when its first word is a well-formed table size *)
let announced (bs : M.bytes) : int option =
  let b = Array.of_list (List.map int_of_n bs) in
  let n = Array.length b in
  if n < 4 then None
  else let w = word b 0 in
    if w mod 4 = 0 && w >= 4 && w <= n then Some (w / 4) else None

(* "for every list of variable-size items, decoding succeeds only if the offset table and the
   variable parts tile the input": the slices of a tiled input, None when it is not tiled *)
let list_slices (bs : M.bytes) : (int * int) list option =
  let b = Array.of_list (List.map int_of_n bs) in
  let n = Array.length b in
  if n = 0 then Some []
  else if n < 4 then None
  else
    let first = word b 0 in
    if first > n || first < 4 || first mod 4 <> 0 then None
    else begin
      let cnt = first / 4 in
      let offs = List.init cnt (fun i -> word b (4 * i)) in
      let rec nondecr = function a :: (c :: _ as r) -> a <= c && nondecr r | _ -> true in
      if not (nondecr offs) || List.exists (fun o -> o > n || o < first) offs then None
      else Some (List.combine offs ((List.tl offs) @ [n]))
    end

(* items are lists of u16 (the probe item type): a slice is an item iff its length is even *)
let expected_u16_lists (bs : M.bytes) : string =
  let b = Array.of_list (List.map int_of_n bs) in
  match list_slices bs with
  | None -> "err"
  | Some sl ->
    if List.exists (fun (a, e) -> (e - a) mod 2 <> 0) sl then "err"
    else "ok (l" ^ String.concat "" (List.map (fun (a, e) ->
        " (l" ^ String.concat "" (List.init ((e - a) / 2) (fun i ->
            Printf.sprintf " (u %x)" (b.(a + 2 * i) lor (b.(a + 2 * i + 1) lsl 8)))) ^ ")") sl) ^ ")"
