#!/bin/sh
# Builds the correspondence driver from the freshly extracted model.
set -e
cd "$(dirname "$0")"
mkdir -p _build
cp ../coq/extracted/ssz_model.ml ../coq/extracted/ssz_model.mli util.ml tiling.ml ops_ext.ml driver.ml _build/
cd _build
ocamlfind ocamlopt -O3 -w -a -o driver ssz_model.mli ssz_model.ml util.ml tiling.ml ops_ext.ml driver.ml 2>&1 || \
ocamlfind ocamlopt -w -a -o driver ssz_model.mli ssz_model.ml util.ml tiling.ml ops_ext.ml driver.ml
